"""MIR-level inlining of *new* helper functions (facts JSON -> facts JSON).

Extracting a private helper is the most common behaviour-preserving edit, and a rule written against
an anchor function (its stores, its guards, its call sites) loses sight of whatever moved into the
helper.  Before the rules run, every call to a local function that does **not exist in the pinned
tree** (jbv/pinned_fns.json) - and is not a closure, not a trait-impl method, not recursive - is
replaced by a copy of the callee's blocks: locals and blocks renumbered, arguments assigned to the
copies of the parameters, `return` turned into an assignment of the destination plus a jump.  The
rules then see the anchor function as it was before the extraction.  Functions of the pinned tree
are never inlined (rules may be about their call sites); a function that is new *and* meant to be
an anchor does not exist by construction.

The helper's own body stays in the document (closures defined in it still name it as parent) but is
marked `inlined_away`; call-graph closures no longer reach it because its call sites are gone.
"""
import copy
import json
import os

_PINNED = None


def pinned_fns():
    global _PINNED
    if _PINNED is None:
        try:
            _PINNED = set(json.load(open(os.path.join(os.path.dirname(os.path.abspath(__file__)), "pinned_fns.json"))))
        except OSError:
            _PINNED = None
    return _PINNED


def _callee_path(t):
    c = t.get("callee") or {}
    if c.get("k") != "fndef":
        return None
    return c.get("resolved") or c.get("def")


def _shift(o, off_l, off_b, off_p, caller_path, callee_path):
    """renumber locals / blocks / promoted indices inside a deep-copied callee fragment"""
    if isinstance(o, dict):
        if "local" in o and isinstance(o["local"], int) and "proj" in o:
            o["local"] += off_l
            for el in o["proj"]:
                if el.get("k") == "index" and isinstance(el.get("local"), int):
                    el["local"] += off_l
                _shift(el, off_l, off_b, off_p, caller_path, callee_path)
            return
        if o.get("k") == "const" and "promoted" in o and o.get("def") == callee_path and isinstance(o["promoted"], int):
            o["promoted"] += off_p
            o["def"] = caller_path
        for k, v in o.items():
            if k in ("target", "otherwise", "unwind") and isinstance(v, int):
                o[k] = v + off_b
            elif k == "targets" and isinstance(v, list):
                o[k] = [[val, tg + off_b] for val, tg in v]
            else:
                _shift(v, off_l, off_b, off_p, caller_path, callee_path)
    elif isinstance(o, list):
        for v in o:
            _shift(v, off_l, off_b, off_p, caller_path, callee_path)


def _inline_site(caller, bi, callee):
    t = caller["blocks"][bi]["term"]
    locs = caller["hdr"]["locals"]
    off_l = len(locs)
    off_b = len(caller["blocks"])
    off_p = len(caller.get("promoted") or [])
    for d in callee["hdr"]["locals"]:
        d2 = copy.deepcopy(d)
        # the copies are temporaries of the caller: their debug names must not shadow the caller's
        # own variables in name -> local look-ups
        if d2.get("name"):
            d2["inlined_name"] = d2["name"]
            d2["name"] = None
        locs.append(d2)
    if callee.get("promoted"):
        caller.setdefault("promoted", [])
        for pj in callee["promoted"]:
            caller["promoted"].append(copy.deepcopy(pj))
    frag = copy.deepcopy(callee["blocks"])
    _shift(frag, off_l, off_b, off_p, caller["path"], callee["path"])
    span = t.get("span")
    for blk in frag:
        tt = blk["term"]
        if tt["k"] == "return":
            blk["stmts"].append({"k": "assign", "place": copy.deepcopy(t["dest"]),
                                 "rv": {"k": "use", "op": {"k": "move", "place": {"local": off_l, "proj": []}}},
                                 "span": tt.get("span") or span})
            if t.get("target") is None:
                blk["term"] = {"k": "unreachable", "span": span}
            else:
                blk["term"] = {"k": "goto", "target": t["target"], "span": span}
        elif tt["k"] == "resume":
            uw = t.get("unwind")
            if isinstance(uw, int):
                blk["term"] = {"k": "goto", "target": uw, "span": span}
    call_blk = caller["blocks"][bi]
    for i, a in enumerate(t["args"]):
        call_blk["stmts"].append({"k": "assign", "place": {"local": off_l + 1 + i, "proj": []},
                                  "rv": {"k": "use", "op": copy.deepcopy(a)}, "span": span})
    call_blk["term"] = {"k": "goto", "target": off_b, "span": span, "inlined": callee["path"]}
    caller["blocks"].extend(frag)


def inline_new_helpers(doc, max_blocks=400):
    pinned = pinned_fns()
    if pinned is None:
        return []
    bodies = {b["path"]: b for b in doc["bodies"]}
    cand = {}
    for pth, b in bodies.items():
        if b.get("kind") == "Closure" or pth in pinned:
            continue
        if (b.get("impl") or {}).get("trait"):
            continue
        if len(b["blocks"]) > max_blocks:
            continue
        cand[pth] = b
    if not cand:
        return []
    # call edges among candidates (to order them) and recursion
    def callees_of(b):
        out = []
        for bi, blk in enumerate(b["blocks"]):
            t = blk["term"]
            if t["k"] == "call":
                cp = _callee_path(t)
                if cp in cand:
                    out.append((bi, cp))
        return out
    order = []
    state = {}

    def visit(pth):
        if state.get(pth) == 2:
            return True
        if state.get(pth) == 1:
            return False   # recursion
        state[pth] = 1
        okk = True
        for bi, cp in callees_of(cand[pth]):
            if not visit(cp):
                okk = False
        state[pth] = 2
        if okk:
            order.append(pth)
        else:
            cand.pop(pth, None)
        return okk
    for pth in sorted(list(cand)):
        if pth in cand:
            visit(pth)
    done = []
    # inline helpers into helpers first (order is callee-first), then into every other body
    for tgt in [bodies[pth] for pth in order if pth in cand] + [b for pth, b in bodies.items() if pth not in cand]:
        changed = True
        guard = 0
        while changed and guard < 50:
            changed = False
            guard += 1
            for bi, blk in enumerate(tgt["blocks"]):
                t = blk["term"]
                if t["k"] == "call":
                    cp = _callee_path(t)
                    if cp in cand and cp != tgt["path"]:
                        _inline_site(tgt, bi, cand[cp])
                        done.append((tgt["path"], cp))
                        changed = True
                        break
    for pth in cand:
        bodies[pth]["inlined_away"] = True
    # closures defined in an inlined helper now live (lexically, after inlining) in its callers
    callers = {}
    for c, h in done:
        callers.setdefault(h, set()).add(c)
    for b in doc["bodies"]:
        if b.get("kind") == "Closure":
            for key in ("parent", "direct_parent"):
                h = b.get(key)
                n = 0
                while h in cand and n < 5:
                    cs = sorted(callers.get(h, ()))
                    if not cs:
                        break
                    b.setdefault("orig_" + key, b.get(key))
                    h = cs[0]
                    b[key] = h
                    n += 1
    return done
