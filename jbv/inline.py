"""MIR-level inlining of *new* helper functions (facts JSON -> facts JSON).

Extracting a private helper is the most common behaviour-preserving edit, and a rule written against
an anchor function (its stores, its guards, its call sites) loses sight of whatever moved into the
helper.  Before the rules run, every call to a local function that does **not exist in the pinned
tree** (jbv/pinned_fns.json) - and is not a closure, not a trait-impl method, not recursive - is
replaced by a copy of the callee's blocks: locals and blocks renumbered, arguments assigned to the
copies of the parameters, `return` turned into an assignment of the destination plus a jump.  The
rules then see the anchor function as it was before the extraction.  Functions of the pinned tree
are never inlined (rules may be about their call sites); a function that is new *and* meant to be
an anchor does not exist by construction.

The helper's own body stays in the document (closures defined in it still name it as parent) but is
marked `inlined_away`; call-graph closures no longer reach it because its call sites are gone.
"""
import copy
import json
import os

_PINNED = None


def pinned_fns():
    global _PINNED
    if _PINNED is None:
        try:
            _PINNED = set(json.load(open(os.path.join(os.path.dirname(os.path.abspath(__file__)), "pinned_fns.json"))))
        except OSError:
            _PINNED = None
    return _PINNED


def _callee_path(t):
    c = t.get("callee") or {}
    if c.get("k") != "fndef":
        return None
    return c.get("resolved") or c.get("def")


def _shift(o, off_l, off_b, off_p, caller_path, callee_path):
    """renumber locals / blocks / promoted indices inside a deep-copied callee fragment"""
    if isinstance(o, dict):
        if "local" in o and isinstance(o["local"], int) and "proj" in o:
            o["local"] += off_l
            for el in o["proj"]:
                if el.get("k") == "index" and isinstance(el.get("local"), int):
                    el["local"] += off_l
                _shift(el, off_l, off_b, off_p, caller_path, callee_path)
            return
        if o.get("k") == "const" and "promoted" in o and o.get("def") == callee_path and isinstance(o["promoted"], int):
            o["promoted"] += off_p
            o["def"] = caller_path
        for k, v in o.items():
            if k in ("target", "otherwise", "unwind") and isinstance(v, int):
                o[k] = v + off_b
            elif k == "targets" and isinstance(v, list):
                o[k] = [[val, tg + off_b] for val, tg in v]
            else:
                _shift(v, off_l, off_b, off_p, caller_path, callee_path)
    elif isinstance(o, list):
        for v in o:
            _shift(v, off_l, off_b, off_p, caller_path, callee_path)


def _inline_site(caller, bi, callee):
    t = caller["blocks"][bi]["term"]
    locs = caller["hdr"]["locals"]
    off_l = len(locs)
    off_b = len(caller["blocks"])
    off_p = len(caller.get("promoted") or [])
    for d in callee["hdr"]["locals"]:
        d2 = copy.deepcopy(d)
        # the copies are temporaries of the caller: their debug names must not shadow the caller's
        # own variables in name -> local look-ups
        if d2.get("name"):
            d2["inlined_name"] = d2["name"]
            d2["name"] = None
        d2["inl"] = True
        locs.append(d2)
    if callee.get("promoted"):
        caller.setdefault("promoted", [])
        for pj in callee["promoted"]:
            caller["promoted"].append(copy.deepcopy(pj))
    frag = copy.deepcopy(callee["blocks"])
    _shift(frag, off_l, off_b, off_p, caller["path"], callee["path"])
    span = t.get("span")
    for blk in frag:
        tt = blk["term"]
        if tt["k"] == "return":
            blk["stmts"].append({"k": "assign", "place": copy.deepcopy(t["dest"]),
                                 "rv": {"k": "use", "op": {"k": "move", "place": {"local": off_l, "proj": []}}},
                                 "span": tt.get("span") or span})
            if t.get("target") is None:
                blk["term"] = {"k": "unreachable", "span": span}
            else:
                blk["term"] = {"k": "goto", "target": t["target"], "span": span}
        elif tt["k"] == "resume":
            uw = t.get("unwind")
            if isinstance(uw, int):
                blk["term"] = {"k": "goto", "target": uw, "span": span}
    call_blk = caller["blocks"][bi]
    for i, a in enumerate(t["args"]):
        call_blk["stmts"].append({"k": "assign", "place": {"local": off_l + 1 + i, "proj": []},
                                  "rv": {"k": "use", "op": copy.deepcopy(a)}, "span": span})
    call_blk["term"] = {"k": "goto", "target": off_b, "span": span, "inlined": callee["path"]}
    caller["blocks"].extend(frag)
    if not os.environ.get("JBV_NO_THREAD"):
        _thread_returns(caller, off_b, off_b + len(frag), off_l)


# --------------------------------------------------------------------------------------
# return-value threading (tail duplication with variant / constant propagation)
#
# A helper that returns `Result<Option<..>>` leaves its value in one merged slot; the caller then
# takes it apart with switches.  On the CFG alone every return site reaches every arm, so a rule
# that reasons about paths ("the only push-free path is the blank-line path") or about what a
# switch depends on sees paths that cannot happen.  For every block of an inlined fragment that
# assigns the helper's return local a value of known variant (`Ok(Some(..))`, `Err(..)`,
# `from_residual(..)`), the straight continuation is followed with an environment of known variant
# shapes and constants (moves, downcast / field projections, `discriminant`, `Try::branch`, drop
# flags); every switch whose operand is known is resolved, and the path up to the last switch
# resolved on a discriminant is duplicated for that site.  The duplicated blocks keep all statements
# and calls; only resolved switches become gotos, so the specialised path is exactly one of the
# original paths.

_CORE_ENUMS = ("std::result::Result", "std::option::Option", "std::ops::ControlFlow")


def _op_shape(o, env):
    if not isinstance(o, dict):
        return None
    if o.get("k") == "const":
        if "bool" in o and o.get("ty") == "bool":
            return ("c", 1 if o["bool"] else 0, False)
        return None
    if o.get("k") in ("move", "copy"):
        pl = o["place"]
        sh = env.get(pl["local"])
        return _proj_shape(sh, pl["proj"])
    return None


def _proj_shape(sh, proj):
    i = 0
    while i < len(proj):
        if sh is None:
            return None
        el = proj[i]
        if el["k"] == "downcast":
            if sh[0] != "v" or sh[1] != el.get("variant"):
                return None
        elif el["k"] == "field":
            if sh[0] not in ("v", "t"):
                return None
            fs = sh[3] if sh[0] == "v" else sh[1]
            if el["i"] >= len(fs):
                return None
            sh = fs[el["i"]]
        else:
            return None
        i += 1
    return sh


def _rv_shape(rv, env):
    k = rv["k"]
    if k == "use":
        return _op_shape(rv["op"], env)
    if k == "aggregate":
        kd = rv["kind"]
        if kd.get("k") == "adt" and kd.get("def") in _CORE_ENUMS and kd.get("variant") is not None:
            return ("v", kd["variant"], kd.get("vidx"), [_op_shape(o, env) for o in rv["ops"]])
        if kd.get("k") == "tuple":
            return ("t", [_op_shape(o, env) for o in rv["ops"]])
        return None
    if k == "discriminant":
        pl = rv["place"]
        sh = _proj_shape(env.get(pl["local"]), pl["proj"])
        if sh is not None and sh[0] == "v" and isinstance(sh[2], int):
            return ("c", sh[2], True)
        return None
    return None


def _apply_stmt(s, env, escaped):
    if s.get("k") != "assign":
        return
    pl = s["place"]
    rv = s["rv"]
    if rv["k"] in ("ref", "rawptr"):
        rp = rv["place"]
        if not (rv["k"] == "ref" and not rv.get("mut")):
            escaped.add(rp["local"])
            env.pop(rp["local"], None)
    if pl["proj"]:
        env.pop(pl["local"], None)
        return
    sh = _rv_shape(rv, env)
    if sh is not None and pl["local"] not in escaped:
        env[pl["local"]] = sh
    else:
        env.pop(pl["local"], None)


def _apply_call(t, env, escaped):
    """effect of a call terminator on the environment"""
    d = t.get("dest")
    c = t.get("callee") or {}
    name = c.get("def") if c.get("k") == "fndef" else None
    sh = None
    if name == "std::ops::Try::branch" and t.get("args"):
        a = _op_shape(t["args"][0], env)
        if a is not None and a[0] == "v":
            if a[1] in ("Ok", "Some"):
                sh = ("v", "Continue", 0, [a[3][0] if a[3] else None])
            elif a[1] == "Err":
                sh = ("v", "Break", 1, [("v", "Err", 1, [a[3][0] if a[3] else None])])
            elif a[1] == "None":
                sh = ("v", "Break", 1, [("v", "None", 0, [])])
    elif name == "std::ops::FromResidual::from_residual":
        ty = (c.get("args") or [""])[0]
        if ty.startswith("std::result::Result<"):
            sh = ("v", "Err", 1, [None])
        elif ty.startswith("std::option::Option<"):
            sh = ("v", "None", 0, [])
    if d is not None:
        if d["proj"] or sh is None or d["local"] in escaped:
            env.pop(d["local"], None)
        else:
            env[d["local"]] = sh


def _thread_from(caller, S, env, escaped, limit=48):
    blocks = caller["blocks"]
    path = []          # (block, successor taken, kind) ; kind: 'goto' straight edge / 'switch' resolved / 'useful'
    cur = S
    seen = {S}
    while len(path) < limit:
        t = blocks[cur]["term"]
        k = t["k"]
        nxt = None
        kind = "edge"
        if k == "goto":
            nxt = t["target"]
        elif k == "drop":
            pl = t.get("place") or {}
            if isinstance(pl.get("local"), int):
                env.pop(pl["local"], None)
            nxt = t.get("target")
        elif k == "assert":
            nxt = t.get("target")
        elif k == "call":
            _apply_call(t, env, escaped)
            nxt = t.get("target")
        elif k == "switch":
            sh = _op_shape(t["discr"], env)
            if sh is None or sh[0] != "c":
                # a drop-flag diamond (`if flag { drop(x) }`, both arms meeting again at once): the
                # flag was set before the return value was formed and is not known here, but the
                # diamond decides nothing - it is copied whole and the walk goes on behind it
                tg = sorted(set([t.get("otherwise")] + [x for _, x in t["targets"]]) - {None})
                dia = None
                if len(tg) == 2:
                    for a_, b_ in ((tg[0], tg[1]), (tg[1], tg[0])):
                        tb = blocks[b_]["term"]
                        if tb["k"] == "drop" and tb.get("target") == a_ and not blocks[b_]["stmts"]:
                            dia = (a_, b_)
                if dia is None:
                    break
                nxt, extra = dia
                pl = blocks[extra]["term"].get("place") or {}
                if isinstance(pl.get("local"), int):
                    env.pop(pl["local"], None)
                kind = ("diamond", extra)
            else:
                nxt = t.get("otherwise")
                for v, tg in t["targets"]:
                    if v == sh[1]:
                        nxt = tg
                kind = "useful" if sh[2] else "switch"
        else:
            break
        if nxt is None or nxt in seen:
            break
        path.append((cur, nxt, kind))
        seen.add(nxt)
        for s in blocks[nxt]["stmts"]:
            _apply_stmt(s, env, escaped)
        cur = nxt
    last = max([i for i, (b, n, kd) in enumerate(path) if kd == "useful"], default=None)   # (a diamond is never the last step)
    if last is None:
        return 0
    # duplicate path[1..last] (the blocks after S up to the last usefully resolved switch)
    seq = [b for b, n, kd in path[1:last + 1]]
    base = len(blocks)
    clones = {b: base + i for i, b in enumerate(seq)}

    def retarget(t, old, new, resolved):
        if resolved:
            return {"k": "goto", "target": new, "span": t.get("span"), "threaded": True}
        t = copy.deepcopy(t)
        if t.get("target") == old:
            t["target"] = new
        return t
    extras = []
    for i, (b, n, kd) in enumerate(path[:last + 1]):
        tgt_new = clones.get(n, n)
        if i == 0:
            blk = blocks[b]
        else:
            blk = {"stmts": copy.deepcopy(blocks[b]["stmts"]), "term": None, "cleanup": blocks[b].get("cleanup", False)}
            for kx, vx in blocks[b].items():
                if kx not in blk:
                    blk[kx] = copy.deepcopy(vx)
        if isinstance(kd, tuple) and kd[0] == "diamond":
            ex = kd[1]
            ex_new = base + len(seq) + len(extras)
            exb = copy.deepcopy(blocks[ex])
            exb["term"]["target"] = tgt_new
            extras.append(exb)
            tt = copy.deepcopy(blocks[b]["term"])
            remap = lambda x: tgt_new if x == n else (ex_new if x == ex else x)
            tt["targets"] = [[v, remap(x)] for v, x in tt["targets"]]
            if tt.get("otherwise") is not None:
                tt["otherwise"] = remap(tt["otherwise"])
            blk["term"] = tt
        else:
            blk["term"] = retarget(blocks[b]["term"], n, tgt_new, kd in ("switch", "useful"))
        if i > 0:
            blocks.append(blk)
    blocks.extend(extras)
    return len(seq) + len(extras)


def _thread_returns(caller, lo, hi, ret_local):
    blocks = caller["blocks"]
    n = 0
    for bi in range(lo, hi):
        blk = blocks[bi]
        env, escaped = {}, set()
        for s in blk["stmts"]:
            _apply_stmt(s, env, escaped)
        t = blk["term"]
        start = ret_local in env
        if t["k"] == "call" and (t.get("dest") or {}).get("local") == ret_local and not t["dest"]["proj"]:
            env2 = dict(env)
            _apply_call(t, env2, set(escaped))
            start = ret_local in env2
        if start:
            n += _thread_from(caller, bi, env, escaped)
    if n:
        _blank_dead(caller)
    return n


def _succs(t):
    out = []
    for k in ("target", "otherwise", "unwind"):
        if isinstance(t.get(k), int):
            out.append(t[k])
    for v, tg in t.get("targets") or []:
        out.append(tg)
    return out


def _blank_dead(caller):
    blocks = caller["blocks"]
    seen = {0}
    st = [0]
    while st:
        b = st.pop()
        for s in _succs(blocks[b]["term"]):
            if s not in seen:
                seen.add(s)
                st.append(s)
    for i, blk in enumerate(blocks):
        if i not in seen and (blk["stmts"] or blk["term"]["k"] != "unreachable"):
            blk["stmts"] = []
            blk["term"] = {"k": "unreachable", "span": blk["term"].get("span"), "dead": True}


def _remap_locals(o, f):
    if isinstance(o, dict):
        if "local" in o and isinstance(o["local"], int) and "proj" in o:
            o["local"] = f(o["local"])
            for el in o["proj"]:
                if el.get("k") == "index" and isinstance(el.get("local"), int):
                    el["local"] = f(el["local"])
                _remap_locals(el, f)
            return
        for k, v in o.items():
            _remap_locals(v, f)
    elif isinstance(o, list):
        for v in o:
            _remap_locals(v, f)


def fn_items_to_closures(doc, cand):
    """`xs.map(helper)` with `helper` a new local fn (not in the pinned tree) is `xs.map(|x| helper(x))`
    with the call inlined: every use of such a function *as a value* (a fn-item constant operand) is
    replaced by a capture-less closure whose body is a copy of the function's (an unused environment
    parameter inserted as _1, as in every closure body).  Rules that look at the callable handed to
    an adaptor then see what they saw before a closure was turned into a local fn."""
    made = {}
    n = 0
    for b in doc["bodies"]:
        if b.get("inlined_away"):
            continue
        for bi, blk in enumerate(b["blocks"]):
            t = blk["term"]
            if t["k"] != "call":
                continue
            for ai, a in enumerate(t.get("args") or []):
                if not (isinstance(a, dict) and a.get("k") == "const" and a.get("fn") in cand and a.get("fn_krate") == doc.get("crate")):
                    continue
                f = cand[a["fn"]]
                user = b["path"]
                key = (user, a["fn"])
                if key not in made:
                    k = sum(1 for x in made if x[0] == user)
                    cpath = "%s::{closure#fn%d}" % (user, k)
                    cj = copy.deepcopy(f)
                    cj["path"] = cpath
                    cj["kind"] = "Closure"
                    cj["parent"] = b.get("parent") or user
                    cj["direct_parent"] = user
                    cj["argc"] = f.get("argc", 0) + 1
                    cj["from_fn_item"] = a["fn"]
                    cj.pop("inlined_away", None)
                    _remap_locals(cj["blocks"], lambda l: l if l == 0 else l + 1)
                    _remap_locals(cj["hdr"].get("debug") or [], lambda l: l if l == 0 else l + 1)
                    for d in cj["hdr"].get("debug") or []:
                        if isinstance(d.get("arg"), int):
                            d["arg"] += 1
                    env = {"ty": "&{closure@fn-item %s}" % a["fn"], "info": {"k": "ref", "mut": False, "to": {"k": "closure", "def": cpath}}, "name": None, "mut": False}
                    cj["hdr"]["locals"].insert(1, env)
                    made[key] = cj
                cj = made[key]
                locs = b["hdr"]["locals"]
                nl = len(locs)
                locs.append({"ty": "{closure@fn-item %s}" % a["fn"], "info": {"k": "closure", "def": cj["path"]}, "name": None, "mut": False})
                blk["stmts"].append({"k": "assign", "place": {"local": nl, "proj": []},
                                     "rv": {"k": "aggregate", "kind": {"k": "closure", "def": cj["path"], "captures": []}, "ops": []},
                                     "span": t.get("span")})
                t["args"][ai] = {"k": "move", "place": {"local": nl, "proj": []}}
                n += 1
    doc["bodies"].extend(made.values())
    return n


def _deref_inlined_refs(caller):
    """A helper that takes `acc: &mut f64` and does `*acc += v` leaves, after inlining, a store
    through a temporary that holds `&mut local` of the caller: a definition of `local` that the
    def-use machinery cannot see.  For every local introduced by inlining whose single definition
    is a (re)borrow or a move of one, places `(*r).rest` are rewritten to the borrowed place, so
    the store becomes a plain store to the caller's own variable (which is what the source said
    before the helper was extracted)."""
    locs = caller["hdr"]["locals"]
    defs = {}
    for blk in caller["blocks"]:
        for st in blk["stmts"]:
            if st["k"] == "assign" and not st["place"]["proj"]:
                defs.setdefault(st["place"]["local"], []).append(st)
        t = blk["term"]
        if t["k"] == "call" and t.get("dest") and not t["dest"]["proj"]:
            defs.setdefault(t["dest"]["local"], []).append(None)

    def pointee(r, depth=0):
        """place P with (*r) == P, or None"""
        if depth > 8:
            return None
        ds = defs.get(r, [])
        if len(ds) != 1 or ds[0] is None:
            return None
        rv = ds[0]["rv"]
        if rv["k"] == "use" and rv["op"].get("k") in ("move", "copy") and not rv["op"]["place"]["proj"]:
            s_ = rv["op"]["place"]["local"]
            return pointee(s_, depth + 1) or {"local": s_, "proj": [{"k": "deref"}]}
        if rv["k"] == "ref":
            pl = rv["place"]
            if not pl["proj"]:
                return {"local": pl["local"], "proj": []}
            if pl["proj"][0]["k"] == "deref":
                inner = pointee(pl["local"], depth + 1)
                if inner is not None:
                    return {"local": inner["local"], "proj": copy.deepcopy(inner["proj"]) + copy.deepcopy(pl["proj"][1:])}
            return copy.deepcopy(pl)
        return None
    cache = {}

    def fix(o):
        if isinstance(o, dict):
            if "local" in o and "proj" in o and isinstance(o["proj"], list) and o["proj"] and o["proj"][0].get("k") == "deref":
                r = o["local"]
                if r < len(locs) and locs[r].get("inl"):
                    if r not in cache:
                        cache[r] = pointee(r)
                    P = cache[r]
                    if P is not None and not (P["local"] == r):
                        o["proj"] = copy.deepcopy(P["proj"]) + o["proj"][1:]
                        o["local"] = P["local"]
            for v in o.values():
                fix(v)
        elif isinstance(o, list):
            for v in o:
                fix(v)
    for blk in caller["blocks"]:
        fix(blk["stmts"])
        fix(blk["term"])


# --------------------------------------------------------------------------------------
# Option / Result combinators whose closure has a side effect
#
# `check(..).map(|()| self.field = value)` runs the store only on the Ok edge, but as MIR it is
# a call that takes a closure: the store sits in another body and no guard dominates it.  A
# value-pure closure is well represented by the expression trees; one that *writes through a
# captured reference* needs its place in the caller's control flow.  Such a call is rewritten
# into the `match` it abbreviates - discriminant switch, payload projection, the closure body
# inlined on its arm, the other arm passed through - so path and store rules see
# `match r { Ok(v) => Ok(f(v)), Err(e) => Err(e) }`.

_COMBINATORS = {
    # callee def: (enum, variant that runs the closure, what the closure's result becomes, generic-arg positions (payload, other payload, result payload))
    "std::result::Result::<T, E>::map": ("Result", "Ok", "wrap"),
    "std::result::Result::<T, E>::and_then": ("Result", "Ok", "flat"),
    "std::result::Result::<T, E>::map_err": ("Result", "Err", "wrap"),
    "std::result::Result::<T, E>::or_else": ("Result", "Err", "flat"),
    "std::option::Option::<T>::map": ("Option", "Some", "wrap"),
    "std::option::Option::<T>::and_then": ("Option", "Some", "flat"),
}
_VARIANTS = {"Result": (("Ok", 0), ("Err", 1)), "Option": (("None", 0), ("Some", 1))}
_ENUM_DEF = {"Result": "std::result::Result", "Option": "std::option::Option"}


def _writes_through_capture(body):
    """does the closure body store through a captured reference (directly, or through a copy /
    reborrow of it held in a temporary)?"""
    refs = {1}
    changed = True
    while changed:
        changed = False
        for blk in body["blocks"]:
            for st in blk["stmts"]:
                if st.get("k") != "assign" or st["place"].get("proj"):
                    continue
                rv = st["rv"]
                src = None
                if rv.get("k") == "use" and rv["op"].get("k") in ("copy", "move"):
                    src = rv["op"]["place"]
                elif rv.get("k") == "ref":
                    src = rv.get("place")
                if src is not None and src.get("local") in refs and st["place"]["local"] not in refs:
                    refs.add(st["place"]["local"])
                    changed = True
            t = blk["term"]
            if t.get("k") == "call" and t.get("dest") and not t["dest"].get("proj") and t["dest"]["local"] not in refs \
                    and str(t.get("dest_ty", "")).startswith("&mut") \
                    and any(a.get("k") in ("copy", "move") and a["place"].get("local") in refs for a in t.get("args", [])):
                # `index_mut(&mut *captured, i)` and the like: a mutable reference derived from one
                refs.add(t["dest"]["local"])
                changed = True
    for blk in body["blocks"]:
        if blk.get("cleanup"):
            continue
        for st in blk["stmts"]:
            if st.get("k") == "assign":
                pl = st["place"]
                if pl.get("local") in refs and any(el.get("k") == "deref" for el in pl.get("proj", [])):
                    return True
    return False


def desugar_effect_combinators(doc):
    bodies = {b["path"]: b for b in doc["bodies"]}
    done = []
    for caller in list(doc["bodies"]):
        bi = 0
        while bi < len(caller["blocks"]):
            blk = caller["blocks"][bi]
            t = blk["term"]
            bi += 1
            if t.get("k") != "call" or blk.get("cleanup"):
                continue
            c = t.get("callee") or {}
            spec = _COMBINATORS.get(c.get("def")) if c.get("k") == "fndef" else None
            if spec is None or len(t.get("args", [])) != 2 or t.get("target") is None:
                continue
            enum, run_variant, mode = spec
            r_op, f_op = t["args"]
            if any(o.get("k") != "move" or o["place"].get("proj") for o in (r_op, f_op)):
                continue
            rl, fl_ = r_op["place"]["local"], f_op["place"]["local"]
            # the closure operand: one definition, a closure aggregate
            cdef = None
            for b2 in caller["blocks"]:
                for st in b2["stmts"]:
                    if st.get("k") == "assign" and st["place"].get("local") == fl_ and not st["place"].get("proj"):
                        rv = st["rv"]
                        cdef = rv["kind"].get("def") if rv.get("k") == "aggregate" and rv["kind"].get("k") == "closure" and cdef is None else False
            cb = bodies.get(cdef) if cdef else None
            if cb is None or cb.get("argc") != 2 or not _writes_through_capture(cb):
                continue
            gargs = c.get("args") or []
            ginfo = c.get("arg_info") or []
            locs = caller["hdr"]["locals"]
            span = t.get("span")

            def new_local(ty, info=None):
                locs.append({"ty": ty, "info": info or {"k": "unknown"}, "name": None, "mut": True, "inl": True})
                return len(locs) - 1
            recv_ty = locs[rl]["ty"]
            recv_info = locs[rl].get("info") or {}
            rargs = recv_info.get("args") or []
            # payload type of each variant of the receiver
            if enum == "Result":
                pay = {"Ok": rargs[0] if rargs else "?", "Err": rargs[1] if len(rargs) > 1 else "?"}
            else:
                pay = {"Some": rargs[0] if rargs else "?"}
            dest_ty = t.get("dest_ty") or "?"
            import re as _re
            m = _re.match(r"^std::(?:result::Result|option::Option)<(.*)>$", dest_ty)
            dargs = []
            if m:
                depth = 0
                cur = ""
                for ch in m.group(1):
                    if ch in "<([":
                        depth += 1
                    elif ch in ">)]":
                        depth -= 1
                    if ch == "," and depth == 0:
                        dargs.append(cur.strip())
                        cur = ""
                    else:
                        cur += ch
                if cur.strip():
                    dargs.append(cur.strip())
            ret_ty = cb["hdr"]["locals"][0]["ty"]
            d = new_local("isize", {"k": "prim", "s": "isize"})
            nb = len(caller["blocks"])
            b_run, b_after, b_pass, b_unreach = nb, nb + 1, nb + 2, nb + 3
            v = new_local(pay.get(run_variant, "?"))
            u = new_local(ret_ty, cb["hdr"]["locals"][0].get("info"))
            vidx = dict(_VARIANTS[enum])
            blk["stmts"].append({"k": "assign", "place": {"local": d, "proj": []},
                                 "rv": {"k": "discriminant", "place": {"local": rl, "proj": []}, "of": recv_ty}, "span": span})
            other = [n for n, _i in _VARIANTS[enum] if n != run_variant][0]
            blk["term"] = {"k": "switch", "discr": {"k": "move", "place": {"local": d, "proj": []}}, "discr_ty": "isize",
                           "targets": [[vidx[run_variant], b_run], [vidx[other], b_pass]], "otherwise": b_unreach, "span": span,
                           "desugared": c.get("def")}
            # the arm that runs the closure
            env_op = {"k": "move", "place": {"local": fl_, "proj": []}}
            run_stmts = [{"k": "assign", "place": {"local": v, "proj": []},
                          "rv": {"k": "use", "op": {"k": "move", "place": {"local": rl, "proj": [
                              {"k": "downcast", "variant": run_variant, "idx": vidx[run_variant]},
                              {"k": "field", "i": 0, "name": "0", "of": _ENUM_DEF[enum], "ty": pay.get(run_variant, "?")}]}}}, "span": span}]
            if str(cb["hdr"]["locals"][1]["ty"]).startswith("&"):
                er = new_local(cb["hdr"]["locals"][1]["ty"], cb["hdr"]["locals"][1].get("info"))
                run_stmts.append({"k": "assign", "place": {"local": er, "proj": []},
                                  "rv": {"k": "ref", "mut": True, "bk": "Mut", "place": {"local": fl_, "proj": []}}, "span": span})
                env_op = {"k": "move", "place": {"local": er, "proj": []}}
            call_t = {"k": "call", "callee": {"k": "fndef", "def": cdef, "krate": doc.get("crate"), "args": [], "arg_info": [], "with_args": cdef,
                                               "resolved": cdef, "resolved_krate": doc.get("crate"), "resolved_kind": "Item", "resolved_with_args": cdef},
                      "args": [env_op, {"k": "move", "place": {"local": v, "proj": []}}], "arg_tys": [],
                      "dest": {"local": u, "proj": []}, "dest_ty": ret_ty, "target": b_after, "unwind": t.get("unwind"),
                      "fn_span": span, "span": span}
            caller["blocks"].append({"cleanup": False, "stmts": run_stmts, "term": call_t})
            # after the closure: wrap or pass its result
            if mode == "wrap":
                after = [{"k": "assign", "place": copy.deepcopy(t["dest"]),
                          "rv": {"k": "aggregate", "kind": {"k": "adt", "def": _ENUM_DEF[enum], "krate": "core", "variant": run_variant,
                                                            "vidx": vidx[run_variant], "fields": ["0"], "args": dargs},
                                 "ops": [{"k": "move", "place": {"local": u, "proj": []}}]}, "span": span}]
            else:
                after = [{"k": "assign", "place": copy.deepcopy(t["dest"]), "rv": {"k": "use", "op": {"k": "move", "place": {"local": u, "proj": []}}}, "span": span}]
            caller["blocks"].append({"cleanup": False, "stmts": after, "term": {"k": "goto", "target": t["target"], "span": span}})
            # the other arm: the value passes through
            if other == "None":
                pst = [{"k": "assign", "place": copy.deepcopy(t["dest"]),
                        "rv": {"k": "aggregate", "kind": {"k": "adt", "def": _ENUM_DEF[enum], "krate": "core", "variant": "None", "vidx": 0, "fields": [], "args": dargs}, "ops": []}, "span": span}]
            else:
                e = new_local(pay.get(other, "?"))
                pst = [{"k": "assign", "place": {"local": e, "proj": []},
                        "rv": {"k": "use", "op": {"k": "move", "place": {"local": rl, "proj": [
                            {"k": "downcast", "variant": other, "idx": vidx[other]},
                            {"k": "field", "i": 0, "name": "0", "of": _ENUM_DEF[enum], "ty": pay.get(other, "?")}]}}}, "span": span},
                       {"k": "assign", "place": copy.deepcopy(t["dest"]),
                        "rv": {"k": "aggregate", "kind": {"k": "adt", "def": _ENUM_DEF[enum], "krate": "core", "variant": other, "vidx": vidx[other], "fields": ["0"], "args": dargs},
                               "ops": [{"k": "move", "place": {"local": e, "proj": []}}]}, "span": span}]
            caller["blocks"].append({"cleanup": False, "stmts": pst, "term": {"k": "goto", "target": t["target"], "span": span}})
            caller["blocks"].append({"cleanup": False, "stmts": [], "term": {"k": "unreachable", "span": span}})
            # the closure body takes its place on the arm
            _inline_site(caller, b_run, cb)
            cb["inlined_away"] = True
            done.append((caller["path"], cdef, c.get("def")))
    return done


def inline_new_helpers(doc, max_blocks=400):
    pinned = pinned_fns()
    if pinned is None:
        return []
    bodies = {b["path"]: b for b in doc["bodies"]}
    cand = {}
    for pth, b in bodies.items():
        if b.get("kind") == "Closure" or pth in pinned:
            continue
        if (b.get("impl") or {}).get("trait"):
            continue
        if len(b["blocks"]) > max_blocks:
            continue
        cand[pth] = b
    if not cand:
        return []
    # call edges among candidates (to order them) and recursion
    def callees_of(b):
        out = []
        for bi, blk in enumerate(b["blocks"]):
            t = blk["term"]
            if t["k"] == "call":
                cp = _callee_path(t)
                if cp in cand:
                    out.append((bi, cp))
        return out
    order = []
    state = {}

    def visit(pth):
        if state.get(pth) == 2:
            return True
        if state.get(pth) == 1:
            return False   # recursion
        state[pth] = 1
        okk = True
        for bi, cp in callees_of(cand[pth]):
            if not visit(cp):
                okk = False
        state[pth] = 2
        if okk:
            order.append(pth)
        else:
            cand.pop(pth, None)
        return okk
    for pth in sorted(list(cand)):
        if pth in cand:
            visit(pth)
    done = []
    # inline helpers into helpers first (order is callee-first), then into every other body
    for tgt in [bodies[pth] for pth in order if pth in cand] + [b for pth, b in bodies.items() if pth not in cand]:
        changed = True
        guard = 0
        while changed and guard < 50:
            changed = False
            guard += 1
            for bi, blk in enumerate(tgt["blocks"]):
                t = blk["term"]
                if t["k"] == "call":
                    cp = _callee_path(t)
                    if cp in cand and cp != tgt["path"]:
                        _inline_site(tgt, bi, cand[cp])
                        done.append((tgt["path"], cp))
                        changed = True
                        break
    if not os.environ.get("JBV_NO_DEREF"):
        for pth in sorted({c for c, h in done}):
            _deref_inlined_refs(bodies[pth])
    for pth in cand:
        bodies[pth]["inlined_away"] = True
    if not os.environ.get("JBV_NO_FNITEM"):
        fn_items_to_closures(doc, cand)
    # closures defined in an inlined helper now live (lexically, after inlining) in its callers
    callers = {}
    for c, h in done:
        callers.setdefault(h, set()).add(c)
    for b in doc["bodies"]:
        if b.get("kind") == "Closure":
            for key in ("parent", "direct_parent"):
                h = b.get(key)
                n = 0
                while h in cand and n < 5:
                    cs = sorted(callers.get(h, ()))
                    if not cs:
                        break
                    b.setdefault("orig_" + key, b.get(key))
                    h = cs[0]
                    b[key] = h
                    n += 1
    return done
