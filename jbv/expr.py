"""E3: def-use expression trees and small abstract domains (D-poly, D-clamp, D-bool).

An expression tree is a nested tuple.  Leaves: constants, arguments, captured variables,
multi-definition locals, results of opaque calls.  References are transparent (`&x`, `*x` -> x):
the rules that use these trees talk about values, not aliasing.

No path exploration, no loop unrolling, no execution: this is backward def-use slicing of
single-definition temporaries plus algebraic normalisation.
"""
from fractions import Fraction
import math
import re

from .mir import callee_name

NUM_TYS = {"f64", "f32", "usize", "isize", "u8", "u16", "u32", "u64", "u128",
           "i8", "i16", "i32", "i64", "i128"}

OP_TRAITS = {
    "add": "Add", "sub": "Sub", "mul": "Mul", "div": "Div", "rem": "Rem", "neg": "Neg",
    "add_assign": "Add", "sub_assign": "Sub", "mul_assign": "Mul", "div_assign": "Div",
}

_OPCALL = re.compile(
    r"^<&?(?:'\w+ )?(?:mut )?(\w+) as (?:std|core)::ops::(Add|Sub|Mul|Div|Rem|Neg)(?:<&?(?:'\w+ )?(\w+)>)?>::(add|sub|mul|div|rem|neg)$")
_OPASSIGN = re.compile(
    r"^<(\w+) as (?:std|core)::ops::(Add|Sub|Mul|Div|Rem)Assign(?:<&?(?:'\w+ )?(\w+)>)?>::(\w+)_assign$")
_CMPCALL = re.compile(
    r"^(?:<.* as )?(?:std|core)::cmp::(PartialEq|PartialOrd)(?:<.*>)?>?::(eq|ne|lt|le|gt|ge)$")
_FLOATFN = re.compile(r"^(?:std|core)::(f64|f32)::<impl (?:f64|f32)>::(\w+)$")
_INTFN = re.compile(r"^core::num::<impl (\w+)>::(\w+)$")

# calls that are value-transparent (return (a view of) their first argument)
TRANSPARENT = [
    re.compile(r"^<.* as (?:std|core)::ops::Deref(?:Mut)?>::deref(?:_mut)?$"),
    re.compile(r"^(?:std|core)::ops::Deref(?:Mut)?::deref(?:_mut)?$"),
    re.compile(r"^<.* as (?:std|core)::clone::Clone>::clone$"),
    re.compile(r"^(?:std|core)::clone::Clone::clone$"),
    re.compile(r"^<.* as (?:std|core)::convert::(?:AsRef|AsMut)<.*>>::as_(?:ref|mut)$"),
    re.compile(r"^<.* as (?:std|core)::borrow::Borrow(?:Mut)?<.*>>::borrow(?:_mut)?$"),
    re.compile(r"^std::vec::Vec::<T, A>::as_(?:mut_)?slice$"),
    re.compile(r"^(?:std|core)::array::<impl \[T; N\]>::as_(?:mut_)?slice$"),
    re.compile(r"^core::slice::<impl \[T\]>::iter(?:_mut)?$"),
    re.compile(r"^<.* as (?:std|core)::iter::IntoIterator>::into_iter$"),
    re.compile(r"^(?:std|core)::iter::Iterator::copied$"),
    re.compile(r"^(?:std|core)::iter::Iterator::cloned$"),
    re.compile(r"^(?:std|core)::iter::Iterator::by_ref$"),
    re.compile(r"^<T as (?:std|core)::convert::Into<U>>::into$"),
    re.compile(r"^<T as (?:std|core)::convert::From<T>>::from$"),
]
_INDEX = re.compile(r"^<.* as (?:std|core)::ops::Index(?:Mut)?<.*>>::index(?:_mut)?$")
_LEN = re.compile(r"^(?:std::vec::Vec::<T, A>::len|core::slice::<impl \[T\]>::len|core::str::<impl str>::len|std::string::String::len)$")


def C(v, kind="f", d=None):
    return ("c", v, kind, d)


def is_const(e):
    return e[0] == "c"


def const_val(e):
    return e[1] if e[0] == "c" else None


class ExprBuilder:
    def __init__(self, body, fold_local_calls=None, place_hook=None):
        """place_hook(place_json, bb) -> expr | None : lets a rule give location-dependent
        meaning to a place read (bb = block of the statement that reads it)."""
        self.body = body
        self.memo = {}
        self.onstack = set()
        self.place_hook = place_hook
        self.cur_bb = None
        self.cur_idx = None

    def at(self, bb, idx=None):
        """set the location (block, statement index; None = the terminator) for operands
        evaluated directly by the caller"""
        self.cur_bb = bb
        self.cur_idx = idx
        return self

    def _pos(self, bb, idx):
        return (bb, len(self.body.blocks[bb]["stmts"]) if idx in (None, "term") else idx)

    def reaching_def(self, l, bb, idx):
        """the unique definition of multi-def local `l` reaching the use at (bb, idx), if the
        definitions that can reach it reduce to one; else None"""
        b = self.body
        ds = [d for d in b.defs().get(l, []) if not b.is_cleanup(d[0])]
        if 1 <= l <= b.argc:
            return None  # the initial (parameter) value is also a definition
        up = self._pos(bb, idx)
        dom = b.dominators()

        def before(d):
            dp = self._pos(d[0], d[1])
            if dp[0] == up[0]:
                return dp[1] < up[1]
            return dp[0] in dom.get(up[0], ())
        cands = [d for d in ds if before(d)]
        if not cands:
            return None
        # closest dominating def

        def dpos(d):
            return self._pos(d[0], d[1])
        best = None
        for d in cands:
            okc = True
            for o in cands:
                if o is d:
                    continue
                op_, dp_ = dpos(o), dpos(d)
                # o must come before d
                if op_[0] == dp_[0]:
                    if not op_[1] < dp_[1]:
                        okc = False
                elif op_[0] not in dom.get(dp_[0], ()):
                    okc = False
            if okc:
                best = d
        if best is None:
            return None
        bp = dpos(best)
        # no other def o may lie on a path best -> o -> use that does not re-execute `best`

        def nontrivial(src, dst, avoid):
            seen = set()
            st = [s for s in b.succs(src)]
            while st:
                x = st.pop()
                if x in seen:
                    continue
                seen.add(x)
                if x == dst:
                    return True
                if x in avoid:
                    continue
                st.extend(b.succs(x))
            return False
        for o in ds:
            if o is best:
                continue
            po = dpos(o)
            reach_o = (bp[0] == po[0] and bp[1] < po[1]) or nontrivial(bp[0], po[0], ())
            if not reach_o:
                continue
            if po[0] == bp[0] and po[1] < bp[1]:
                continue  # o is always followed by `best` in the same block
            if po[0] == up[0] and po[1] < up[1]:
                # straight line o .. use in one block: killed only if best sits in between
                if bp[0] == po[0] and po[1] < bp[1] < up[1]:
                    continue
                return None
            # around the CFG: entering best's block re-executes best (kills o) -- unless best's
            # block is the use's block and best comes after the use
            if bp[0] == up[0] and bp[1] < up[1]:
                # any entry into the use block passes best first
                if po[0] != up[0]:
                    continue
                # o is in the same block after the use: must leave and re-enter -> passes best
                continue
            if nontrivial(po[0], up[0], {bp[0]}):
                return None
        return best

    # ---- operands
    def op(self, o):
        k = o["k"]
        if k in ("copy", "move"):
            return self.place(o["place"])
        if k == "const":
            return self.const(o)
        return ("unk", k)

    def const(self, c):
        d = c.get("def") if "promoted" not in c else None
        if "f64" in c:
            v = float(c["f64"])
            if math.isinf(v) or math.isnan(v):
                return ("c", v, "f", d)
            return ("c", Fraction(v), "f", d)
        if "f32" in c:
            return ("c", Fraction(float(c["f32"])), "f", d)
        if "int" in c:
            return ("c", int(c["int"]), "i", d)
        if "uint_str" in c:
            return ("c", int(c["uint_str"]), "i", d)
        if "bool" in c:
            return ("c", bool(c["bool"]), "b", d)
        if "str" in c:
            return ("s", c["str"])
        if "fn" in c:
            return ("fn", c["fn"])
        if "promoted" in c:
            return self.promoted(c["promoted"])
        if c.get("zst"):
            return ("zst", c["ty"])
        if "f64_array" in c and c.get("ty", "").startswith("("):
            # a constant tuple of floats (e.g. `const UNKNOWN: (f64, f64) = (-1.0, -1.0)`): its value
            return ("agg", "tuple", tuple(("c", Fraction(float(v)), "f", d) for v in c["f64_array"]), ())
        if d:
            return ("constitem", d)
        if c.get("param"):
            return ("cparam", c["param"], c["ty"])
        return ("unk", "const:" + c["ty"])

    def promoted(self, idx):
        """value of a promoted constant: evaluate its (tiny, straight-line) body"""
        from .mir import Body
        key = ("promoted", idx)
        if key in self.memo:
            return self.memo[key]
        try:
            pj = self.body.promoted[idx]
        except IndexError:
            return ("unk", "promoted")
        fake = {"path": self.body.path + "::promoted[%d]" % idx, "kind": "Promoted",
                "blocks": pj["blocks"], "hdr": pj["hdr"], "argc": 0,
                "span": self.body.span, "promoted": []}
        pb = Body(fake, self.body.program)
        e = ExprBuilder(pb).local(0)
        self.memo[key] = e
        return e

    # ---- places
    def place(self, p):
        if self.place_hook is not None:
            r = self.place_hook(p, self.cur_bb)
            if r is not None:
                return r
        e = self.local(p["local"])
        return self.project(e, p["proj"])

    def project(self, e, proj):
        for el in proj:
            k = el["k"]
            if k == "deref":
                continue
            if k == "field":
                name = el.get("name")
                if name is None:
                    name = str(el["i"])
                e = self.mk_field(e, name, el.get("of"))
            elif k == "index":
                e = ("idx", e, self.local(el["local"]))
            elif k == "constindex":
                e = ("idx", e, ("c", (-1 - el["offset"]) if el["from_end"] else el["offset"], "i", None))
            elif k == "downcast":
                vn = el.get("variant") or str(el["idx"])
                if e[0] == "agg" and isinstance(e[1], str) and e[1].rsplit("::", 1)[-1] == vn and not e[1].startswith("closure:"):
                    pass      # (Some{0: x} as Some) is the literal itself; its fields are read next
                elif vn == "Some" and e[0] == "call" and (e[1].endswith("<impl [T]>::get") or e[1].endswith("Vec::<T, A>::get")) and len(e[2]) == 2 \
                        and not (e[2][1][0] == "agg" and "Range" in str(e[2][1][1])) and not (e[2][1][0] == "call" and "Range" in e[2][1][1]):
                    # (xs.get(i) as Some).0 is xs[i]
                    e = ("agg", "std::option::Option::Some", (("idx", e[2][0], e[2][1]),), ("0",))
                elif vn == "Continue" and e[0] == "call" and (e[1].endswith("Try>::branch") or e[1].endswith("Try::branch")) and len(e[2]) == 1 \
                        and e[2][0][0] == "agg" and isinstance(e[2][0][1], str) and e[2][0][1].rsplit("::", 1)[-1] in ("Ok", "Some") and len(e[2][0][2]) == 1:
                    # (Ok(x)? as Continue).0 is x
                    e = ("agg", "std::ops::ControlFlow::Continue", (e[2][0][2][0],), ("0",))
                else:
                    e = ("variant", e, vn)
            elif k == "subslice":
                e = ("subslice", e, el["from"], el["to"], el["from_end"])
            else:
                e = ("proj", e, k)
        return e

    def mk_field(self, e, name, of=None):
        # closure environment: field of arg 1 of a closure body is a captured variable
        if e[0] == "arg" and e[1] == 1 and self.body.kind == "Closure":
            return ("upvar", name)
        # overflow-checked arithmetic returns (value, overflowed)
        if e[0] == "bin" and e[1].endswith("WithOverflow"):
            if name == "0":
                return ("bin", e[1][:-len("WithOverflow")], e[2], e[3])
            return ("overflow", e)
        # a field of a nested *new* struct that groups fields of a pinned struct (mir.flatten_new_
        # nested_structs) reached through a reference held in a local: `(&self.g).f` is `self.f`
        if of and e[0] == "field":
            fg = getattr(self, "_fgroups", None)
            if fg is None:
                prog = getattr(self.body, "program", None)
                raw = (getattr(prog, "doc", None) or {}).get("_flatten_groups") or {}
                fg = self._fgroups = {(v[0], k.split("|", 1)[1]): set(v[1]) for k, v in raw.items()}
            inner = fg.get((of, e[2]))
            if inner and name in inner:
                return ("field", e[1], name)
        # field of a freshly built aggregate
        if e[0] == "agg":
            label, ops, names = e[1], e[2], e[3]
            if names and name in names:
                return ops[names.index(name)]
            if name.isdigit() and int(name) < len(ops) and not names:
                return ops[int(name)]
        return ("field", e, name)

    def local(self, l):
        if l in self.memo:
            return self.memo[l]
        b = self.body
        if 1 <= l <= b.argc:
            # an argument that is also re-assigned is a variable
            if not b.defs().get(l):
                e = ("arg", l, b.local_name(l))
                self.memo[l] = e
                return e
        ds = [d for d in b.defs().get(l, []) if not b.is_cleanup(d[0])]
        if len(ds) > 1 and self.cur_bb is not None and l not in self.onstack:
            rd = self.reaching_def(l, self.cur_bb, self.cur_idx)
            if rd is not None:
                key = ("rd", l, rd[0], rd[1])
                if key in self.memo:
                    return self.memo[key]
                if key not in self.onstack:
                    self.onstack.add(key)
                    saved = (self.cur_bb, self.cur_idx)
                    try:
                        self.cur_bb, self.cur_idx = rd[0], rd[1]
                        e = self.call(rd[2]) if rd[1] == "term" else self.rvalue(rd[2]["rv"])
                    finally:
                        self.cur_bb, self.cur_idx = saved
                        self.onstack.discard(key)
                    self.memo[key] = e
                    return e
            return ("var", l, b.local_name(l))
        if len(ds) != 1 or l in self.onstack:
            e = ("var", l, b.local_name(l))
            if l not in self.onstack and self.cur_bb is None:
                self.memo[l] = e
            return e
        self.onstack.add(l)
        saved = (self.cur_bb, self.cur_idx)
        try:
            bb, idx, item = ds[0]
            self.cur_bb, self.cur_idx = bb, idx
            if idx == "term":
                e = self.call(item)
            else:
                e = self.rvalue(item["rv"])
        finally:
            self.cur_bb, self.cur_idx = saved
            self.onstack.discard(l)
        self.memo[l] = e
        return e

    def def_exprs(self, l):
        """one expression per (non-cleanup) definition of local l"""
        out = []
        saved = (self.cur_bb, self.cur_idx)
        for bb, idx, item in self.body.defs().get(l, []):
            if self.body.is_cleanup(bb):
                continue
            self.cur_bb, self.cur_idx = bb, idx
            out.append(self.call(item) if idx == "term" else self.rvalue(item["rv"]))
        self.cur_bb, self.cur_idx = saved
        return out

    def def_exprs_deep(self, l, depth=0):
        """like def_exprs, but a definition that merely copies an *unnamed* multi-definition
        temporary (the merged result of an `if`/`match` expression, or the return slot of an
        inlined helper) is replaced by that temporary's definitions"""
        out = []
        for e in self.def_exprs(l):
            if e[0] == "var" and isinstance(e[1], int) and not self.body.local_name(e[1]) and depth < 4:
                out.extend(self.def_exprs_deep(e[1], depth + 1))
            else:
                out.append(e)
        return out

    def expand_all(self, e, limit=200):
        """all expressions that may flow into `e`, expanding multi-definition locals through every
        definition (flow-insensitive).  Yields sub-expressions; `var` leaves that were expanded
        are not yielded."""
        seen = set()
        work = [e]
        n = 0
        while work and n < limit:
            cur = work.pop()
            for x in walk(cur):
                if x[0] == "var" and isinstance(x[1], int):
                    if x[1] in seen:
                        continue
                    seen.add(x[1])
                    ds = self.def_exprs(x[1])
                    if ds:
                        work.extend(ds)
                        n += 1
                        continue
                yield x

    # ---- rvalues
    def rvalue(self, rv):
        k = rv["k"]
        if k == "use":
            return self.op(rv["op"])
        if k in ("ref", "rawptr", "copyforderef"):
            return self.place(rv["place"])
        if k == "binop":
            e = self.mk_bin(rv["op"], self.op(rv["a"]), self.op(rv["b"]))
            # integer division / remainder truncate: mark them so that the polynomial domain keeps
            # them opaque instead of treating a/b as the exact quotient
            if rv["op"] in ("Div", "Rem") and e[0] == "bin" and len(e) == 4 and self._is_int_operand(rv["a"]):
                e = e + ("int",)
            return e
        if k == "unop":
            if rv["op"] == "PtrMetadata":
                return ("len", self.op(rv["a"]))
            return ("un", rv["op"], self.op(rv["a"]))
        if k == "cast":
            kind = rv["kind"]
            inner = self.op(rv["op"])
            if kind in ("IntToInt", "IntToFloat", "FloatToInt", "FloatToFloat"):
                if rv["ty"] == rv.get("from_ty"):
                    return inner
                return ("cast", rv["ty"], inner, rv.get("from_ty"))
            if kind.startswith("PointerCoercion") or kind in ("PtrToPtr", "Subtype"):
                return inner
            return ("cast", rv["ty"], inner, rv.get("from_ty"))
        if k == "discriminant":
            return ("discr", self.place(rv["place"]))
        if k == "aggregate":
            kd = rv["kind"]
            ops = tuple(self.op(o) for o in rv["ops"])
            if kd["k"] == "adt":
                return ("agg", "%s::%s" % (kd["def"], kd["variant"]), ops, tuple(kd["fields"]))
            if kd["k"] == "closure":
                return ("agg", "closure:" + kd["def"], ops, tuple(c["name"] for c in kd["captures"]))
            return ("agg", kd["k"], ops, ())
        if k == "repeat":
            return ("repeat", self.op(rv["op"]), rv["count"])
        if k == "tlsref":
            return ("tls", rv["def"])
        return ("unk", k)

    def mk_bin(self, op, a, b):
        return ("bin", op, a, b)

    INT_TYS = ("usize", "isize", "u8", "u16", "u32", "u64", "u128", "i8", "i16", "i32", "i64", "i128")

    def _is_int_operand(self, o):
        if o.get("k") in ("move", "copy"):
            pl = o["place"]
            if not pl["proj"]:
                return self.body.local_ty(pl["local"]) in self.INT_TYS
            return False
        ty = o.get("ty") or ""
        return ty in self.INT_TYS or (o.get("k") == "const" and "int" in o and "float" not in o)

    def call(self, t):
        c = t["callee"]
        args = tuple(self.op(a) for a in t["args"])
        if c["k"] != "fndef":
            return ("icall", self.op(c["op"]), args)
        name = callee_name(c)
        return self.fold_call(name, c, args)

    def fold_call(self, name, c, args):
        m = _OPCALL.match(name)
        if m and m.group(1) in NUM_TYS:
            op = m.group(2)
            if op == "Neg":
                return ("un", "Neg", args[0])
            return ("bin", op, args[0], args[1])
        m = _CMPCALL.match(name)
        if m and len(args) == 2:
            st = c.get("self_ty", "") or ""
            if st.lstrip("&") in NUM_TYS or st.lstrip("&") in ("bool", "char"):
                return ("bin", m.group(2).capitalize(), args[0], args[1])
        for rx in TRANSPARENT:
            if rx.match(name):
                return args[0] if args else ("unk", name)
        if _INDEX.match(name) and len(args) == 2:
            if args[1][0] == "agg" and args[1][1].endswith("RangeFull::RangeFull"):
                return args[0]  # x[..] is an identity view
            return ("idx", args[0], args[1])
        if _LEN.match(name) and len(args) == 1:
            return ("len", args[0])
        m = _FLOATFN.match(name)
        if m:
            return ("call", "f64::" + m.group(2), args)
        m = _INTFN.match(name)
        if m:
            return ("call", "%s::%s" % ("int", m.group(2)), args)
        return ("call", name, args)


# --------------------------------------------------------------------------------------
# printing


_PINNED_CONSTS = False


def _pinned_consts():
    global _PINNED_CONSTS
    if _PINNED_CONSTS is False:
        import json as _json
        import os as _os
        try:
            _PINNED_CONSTS = set(_json.load(open(_os.path.join(_os.path.dirname(_os.path.abspath(__file__)), "pinned_consts.json"))))
        except OSError:
            _PINNED_CONSTS = None
    return _PINNED_CONSTS


def show(e, depth=0):
    """rendering for messages and shape tests; total: a malformed / canonicalised node is rendered
    with repr instead of raising"""
    try:
        return _show(e, depth)
    except (IndexError, TypeError, AttributeError):
        return repr(e)[:200]


def _show(e, depth=0):
    if depth > 12:
        return "…"
    t = e[0]
    d = depth + 1
    if t == "c":
        v = e[1]
        if isinstance(v, Fraction):
            v = float(v)
        item = e[3] if len(e) > 3 else None   # canonical forms drop the defining item
        # a const item that does not exist in the pinned tree is a magic number that got a name:
        # rendered as the plain value, so that text-level comparisons are unaffected
        if item and _pinned_consts() is not None and item not in _pinned_consts():
            item = None
        return "%s%s" % (v, "{%s}" % item.split("::")[-1] if item else "")
    if t == "s":
        return repr(e[1])
    if t == "fn":
        return "fn:" + e[1]
    if t == "zst":
        return "()"
    if t == "arg":
        if len(e) < 3:
            return ("arg%s" % e[1]) if isinstance(e[1], int) else str(e[1])
        return e[2] or "arg%d" % e[1]
    if t == "var":
        if len(e) < 3:
            return str(e[1])
        return "%s" % (e[2] or "_%d" % e[1])
    if t == "upvar":
        return "^" + e[1]
    if t == "field":
        return "%s.%s" % (show(e[1], d), e[2])
    if t == "idx":
        return "%s[%s]" % (show(e[1], d), show(e[2], d))
    if t == "variant":
        return "(%s as %s)" % (show(e[1], d), e[2])
    if t == "bin":
        return "%s(%s, %s)" % (e[1], show(e[2], d), show(e[3], d))
    if t == "un":
        return "%s(%s)" % (e[1], show(e[2], d))
    if t == "len":
        return "len(%s)" % show(e[1], d)
    if t == "cast":
        return "(%s as %s)" % (show(e[2], d), e[1])
    if t == "call":
        return "%s(%s)" % (e[1], ", ".join(show(a, d) for a in e[2]))
    if t == "icall":
        return "(%s)(%s)" % (show(e[1], d), ", ".join(show(a, d) for a in e[2]))
    if t == "agg":
        if len(e) > 3 and e[3]:
            return "%s{%s}" % (e[1], ", ".join("%s: %s" % (n, show(a, d)) for n, a in zip(e[3], e[2])))
        return "%s(%s)" % (e[1], ", ".join(show(a, d) for a in e[2]))
    if t == "discr":
        return "discr(%s)" % show(e[1], d)
    if t == "repeat":
        return "[%s; %s]" % (show(e[1], d), e[2])
    if t == "constitem":
        return "{%s}" % e[1]
    if t == "cparam":
        return e[1]
    return "<%s>" % (":".join(str(x) for x in e[:2]))


def walk(e):
    """all sub-expressions, pre-order"""
    yield e
    t = e[0]
    if t in ("field", "variant", "len", "discr", "repeat", "proj", "overflow"):
        yield from walk(e[1])
    elif t == "idx":
        yield from walk(e[1])
        yield from walk(e[2])
    elif t == "bin":
        yield from walk(e[2])
        yield from walk(e[3])
    elif t in ("un", "cast"):
        yield from walk(e[2])
    elif t == "call":
        for a in e[2]:
            yield from walk(a)
    elif t == "icall":
        yield from walk(e[1])
        for a in e[2]:
            yield from walk(a)
    elif t == "agg":
        for a in e[2]:
            yield from walk(a)
    elif t == "subslice":
        yield from walk(e[1])


def leaves(e):
    return [x for x in walk(e) if x[0] in ("arg", "var", "upvar", "c", "s", "fn", "constitem", "cparam", "tls", "unk")]


def mentions(e, pred):
    return any(pred(x) for x in walk(e))


# --------------------------------------------------------------------------------------
# D-poly: rational-monomial polynomials over opaque atoms


class Poly:
    """sum of coeff * prod(atom^exp); coefficients are exact Fractions."""

    __slots__ = ("t",)

    def __init__(self, terms=None):
        self.t = {k: v for k, v in (terms or {}).items() if v != 0}

    @staticmethod
    def const(v):
        return Poly({(): Fraction(v)})

    @staticmethod
    def atom(a):
        return Poly({((a, 1),): Fraction(1)})

    def is_const(self):
        return all(k == () for k in self.t)

    def const_value(self):
        return self.t.get((), Fraction(0)) if self.is_const() else None

    def __add__(self, o):
        r = dict(self.t)
        for k, v in o.t.items():
            r[k] = r.get(k, 0) + v
        return Poly(r)

    def __neg__(self):
        return Poly({k: -v for k, v in self.t.items()})

    def __sub__(self, o):
        return self + (-o)

    @staticmethod
    def _mulmono(a, b):
        d = dict(a)
        for at, ex in b:
            d[at] = d.get(at, 0) + ex
        return tuple(sorted(((at, ex) for at, ex in d.items() if ex != 0), key=repr))

    def __mul__(self, o):
        r = {}
        for k1, v1 in self.t.items():
            for k2, v2 in o.t.items():
                k = Poly._mulmono(k1, k2)
                r[k] = r.get(k, 0) + v1 * v2
        return Poly(r)

    def inverse(self):
        if len(self.t) == 1:
            (k, v), = self.t.items()
            return Poly({tuple(sorted(((a, -e) for a, e in k), key=repr)): 1 / v})
        return Poly.atom(("inv", self.key()))

    def key(self):
        return tuple(sorted(((k, (v.numerator, v.denominator)) for k, v in self.t.items()), key=repr))

    def __eq__(self, o):
        return isinstance(o, Poly) and self.t == o.t

    def __hash__(self):
        return hash(self.key())

    def atoms(self):
        s = set()
        for k in self.t:
            for a, _ in k:
                s.add(a)
        return s

    def coeff(self, *atoms_exps):
        """coefficient of the monomial given as (atom, exp) pairs"""
        k = tuple(sorted(atoms_exps, key=repr))
        return self.t.get(k, Fraction(0))

    def __repr__(self):
        if not self.t:
            return "0"
        parts = []
        for k, v in sorted(self.t.items(), key=repr):
            m = "*".join(("%s" % atom_str(a)) + ("^%d" % e if e != 1 else "") for a, e in k)
            c = float(v) if v.denominator != 1 else v.numerator
            parts.append("%s" % c if not m else ("%s*%s" % (c, m) if v != 1 else m))
        return " + ".join(parts)


def atom_str(a):
    if isinstance(a, tuple) and len(a) == 2 and a[0] == "sym":
        return str(a[1])
    if isinstance(a, tuple) and len(a) == 2 and a[0] == "lv":
        return "k%d" % a[1]          # a symbolised loop variable (jbv/loops.py)
    if isinstance(a, tuple) and len(a) == 1 and isinstance(a[0], str):
        return a[0]
    if isinstance(a, tuple) and a and a[0] in ("arg", "var", "upvar", "field", "idx", "call", "len",
                                               "cast", "c", "bin", "un", "variant"):
        return show(a)
    return str(a)


def to_poly(e, atomize=None):
    """D-poly normal form of an expression tree.  `atomize(e)` may map a subtree to a canonical
    atom (e.g. to identify `self.fperiod` reads); default: the subtree itself (after recursive
    normalisation of call arguments)."""
    t = e[0]
    if atomize:
        a = atomize(e)
        if a is not None:
            return Poly.atom(a)
    if t == "c":
        v = e[1]
        if isinstance(v, bool):
            return Poly.const(int(v))
        if isinstance(v, float):  # inf / nan
            return Poly.atom(("float", repr(v)))
        return Poly.const(v)
    if t == "bin":
        op = e[1]
        if op in ("Div", "Rem") and len(e) > 4 and e[4] == "int":
            # truncating integer division: exact only when both sides are constants that divide
            a = to_poly(e[2], atomize)
            b = to_poly(e[3], atomize)
            if op == "Div" and a.is_const() and b.is_const() and b.const_value() != 0 and (a.const_value() / b.const_value()).denominator == 1:
                return Poly.const(a.const_value() / b.const_value())
            return Poly.atom(("i" + op.lower(), a.key(), b.key()))
        if op in ("Add", "Sub", "Mul", "Div", "AddUnchecked", "SubUnchecked", "MulUnchecked"):
            a = to_poly(e[2], atomize)
            b = to_poly(e[3], atomize)
            if op.startswith("Add"):
                return a + b
            if op.startswith("Sub"):
                return a - b
            if op.startswith("Mul"):
                return a * b
            return a * b.inverse()
    if t == "un" and e[1] == "Neg":
        return -to_poly(e[2], atomize)
    if t == "cast":
        # numeric widening / int<->float conversions are value-preserving for the rules' purposes
        # (usize -> f64 of counts); float -> int truncation is kept opaque
        if e[1] in ("f64", "f32") or (e[3] not in ("f64", "f32") and e[1] not in ("f64", "f32")):
            return to_poly(e[2], atomize)
        return Poly.atom(("trunc", e[1], to_poly(e[2], atomize).key()))
    if t == "call":
        name = e[1]
        args = [to_poly(a, atomize) for a in e[2]]
        if name == "f64::mul_add" and len(args) == 3:
            return args[0] * args[1] + args[2]
        if name == "f64::ln" and len(args) == 1:
            # ln(exp(x)) = x
            inner = e[2][0]
            if inner[0] == "call" and inner[1] == "f64::exp":
                return to_poly(inner[2][0], atomize)
        if name == "f64::exp" and len(args) == 1:
            inner = e[2][0]
            if inner[0] == "call" and inner[1] == "f64::ln":
                return to_poly(inner[2][0], atomize)
        return Poly.atom(("call", name, tuple(a.key() for a in args)))
    if t == "len":
        return Poly.atom(("len", canon(e[1])))
    return Poly.atom(canon(e))


def canon(e):
    """canonical hashable form of a leaf-ish expression: drops local numbers of named variables"""
    t = e[0]
    if t == "arg":
        return ("arg", e[2] or e[1])
    if t == "var":
        return ("var", e[2] or e[1])
    if t == "field":
        return ("field", canon(e[1]), e[2])
    if t == "idx":
        return ("idx", canon(e[1]), canon(e[2]))
    if t == "variant":
        return ("variant", canon(e[1]), e[2])
    if t == "len":
        return ("len", canon(e[1]))
    if t == "call":
        return ("call", e[1], tuple(canon(a) for a in e[2]))
    if t == "bin":
        return ("bin", e[1], canon(e[2]), canon(e[3]))
    if t == "un":
        return ("un", e[1], canon(e[2]))
    if t == "cast":
        return ("cast", e[1], canon(e[2]))
    if t == "c":
        return ("c", e[1])
    if t == "agg":
        return ("agg", e[1], tuple(canon(a) for a in e[2]))
    return e


# --------------------------------------------------------------------------------------
# D-clamp: value as a piecewise function of one scalar input


NEG_INF = float("-inf")
POS_INF = float("inf")


class Clamp:
    """x -> min(max(x, lo), hi) over the extended reals; lo=-inf & hi=+inf is the identity.
    Also represents constants (lo == hi).  Closed under max/min/clamp with constants."""

    def __init__(self, lo=NEG_INF, hi=POS_INF):
        self.lo, self.hi = lo, hi

    def max_c(self, c):
        # max(min(max(x,lo),hi), c)
        lo = max(self.lo, c)
        hi = max(self.hi, c)
        return Clamp(lo, hi)

    def min_c(self, c):
        return Clamp(min(self.lo, c), min(self.hi, c))

    def __eq__(self, o):
        return isinstance(o, Clamp) and self.lo == o.lo and self.hi == o.hi

    def __repr__(self):
        if self.lo == NEG_INF and self.hi == POS_INF:
            return "identity"
        return "clamp[%s, %s]" % (self.lo, self.hi)


def to_clamp(e, is_input):
    """abstract interpretation of `e` into the clamp domain w.r.t. the input predicate.
    Returns Clamp or None if an operation is outside the domain."""
    if is_input(e):
        return Clamp()
    t = e[0]
    if t == "call":
        name, args = e[1], e[2]
        short = name.split("::")[-1]
        base = None
        if name.startswith("f64::") or name.startswith("int::") or name.endswith("::cmp::Ord::max") \
                or name.endswith("::cmp::Ord::min") or name.endswith("::cmp::Ord::clamp") \
                or re.match(r"^(<\w+ as )?(std|core)::cmp::Ord>?::(max|min|clamp)$", name):
            base = short
        if base in ("max", "min") and len(args) == 2:
            for x, c in ((args[0], args[1]), (args[1], args[0])):
                if is_const(c) and not isinstance(c[1], bool):
                    inner = to_clamp(x, is_input)
                    if inner is not None:
                        cv = float(c[1])
                        return inner.max_c(cv) if base == "max" else inner.min_c(cv)
            return None
        if base == "clamp" and len(args) == 3 and is_const(args[1]) and is_const(args[2]):
            inner = to_clamp(args[0], is_input)
            if inner is not None:
                lo, hi = float(args[1][1]), float(args[2][1])
                if lo > hi:
                    return None
                return inner.max_c(lo).min_c(hi)
            return None
    return None


# --------------------------------------------------------------------------------------
# stores


def root_of(e):
    chain = []
    while e[0] in ("field", "idx", "variant", "subslice"):
        if e[0] == "field":
            chain.append(e[2])
        elif e[0] == "idx":
            chain.append("[]")
        elif e[0] == "variant":
            chain.append("as " + e[2])
        e = e[1]
    return e, list(reversed(chain))


def stores(body, eb=None):
    """All assignments to a projected place: (bb, idx, stmt, target expr, root, field chain, value expr).
    Stores through `index_mut`/`deref_mut` results are resolved to the indexed object."""
    eb = eb or ExprBuilder(body)
    out = []
    for bb, i, st in body.iter_stmts():
        if st["k"] != "assign" or not st["place"]["proj"]:
            continue
        eb.at(bb, i)
        tgt = eb.place(st["place"])
        root, chain = root_of(tgt)
        out.append((bb, i, st, tgt, root, chain, eb.rvalue(st["rv"])))
    eb.at(None)
    return out


def mut_arg_calls(body, eb=None):
    """calls that receive a `&mut` whose referent is rooted at an argument / local:
    (bb, term, callee name, arg position, referent expr)"""
    from .mir import callee_name as _cn
    eb = eb or ExprBuilder(body)
    out = []
    for bb, t in body.calls():
        c = t["callee"]
        name = _cn(c) if c["k"] == "fndef" else "<indirect>"
        for k, (a, ti) in enumerate(zip(t["args"], t.get("arg_tys") or [])):
            if ti and ti.get("k") == "ref" and ti.get("mut"):
                out.append((bb, t, name, k, eb.op(a)))
    return out


def origin_calls(body, operand, pred, eb=None, limit=400):
    """call terminators (bb, term) that the value of `operand` derives from by def-use, for
    which pred(callee_name) holds; the walk stops at such calls.  Flow-insensitive over multi-def
    locals except that a self-referential update (x = x * c) is followed to the other defs."""
    from .mir import callee_name as _cn
    out = []
    seen = set()
    work = []

    def push_op(o):
        if isinstance(o, dict) and o.get("k") in ("copy", "move"):
            work.append(o["place"]["local"])
            for e in o["place"]["proj"]:
                if e["k"] == "index":
                    work.append(e["local"])
    push_op(operand)
    n = 0
    while work and n < limit:
        l = work.pop()
        if l in seen:
            continue
        seen.add(l)
        n += 1
        for bb, idx, item in body.defs().get(l, []):
            if body.is_cleanup(bb):
                continue
            if idx == "term":
                c = item["callee"]
                nm = _cn(c) if c["k"] == "fndef" else ""
                if pred(nm):
                    out.append((bb, item))
                    continue
                for a in item["args"]:
                    push_op(a)
            else:
                rv = item["rv"]
                for key in ("op", "a", "b"):
                    push_op(rv.get(key))
                for o in rv.get("ops", []):
                    push_op(o)
                if "place" in rv:
                    work.append(rv["place"]["local"])
    return out


# --------------------------------------------------------------------------------------
# success-path value of checked arithmetic (behaviour-preserving rewrites of `a * b + c`)


def success_value(p, e, depth=0, keep=()):
    """Rewrite an expression to the value it has on the all-checks-pass path:
       Try::branch(x) as Continue .0 -> x ; Option::ok_or(o, _) / ok_or_else -> o ;
       checked_mul/add/sub(a, b) -> a*b / a+b / a-b ; Option::and_then/map(o, closure) -> closure(o);
       calls of local closures / functions whose body is one return expression are inlined."""
    if depth > 12:
        return e
    t = e[0]
    rec = lambda x: success_value(p, x, depth + 1, keep)
    if t == "field" and e[2] == "0" and e[1][0] == "variant" and e[1][2] in ("Continue", "Some", "Ok"):
        inner = e[1][1]
        if inner[0] == "call" and (inner[1].endswith("Try>::branch") or inner[1].endswith("Try::branch")):
            inner = inner[2][0]
        inner = rec(inner)
        # a local validating helper: fn h(..) -> Result<T, E> whose only non-error return is Ok(payload)
        if inner[0] == "call" and inner[1] in p.bodies and inner[1] not in keep and p.bodies[inner[1]].kind != "Closure":
            sp = success_payload(p, inner[1], list(inner[2]))
            if sp is not None:
                return rec(sp)
        return inner
    if t == "call":
        name = e[1]
        args = e[2]
        short = name.rsplit("::", 1)[-1]
        if short in ("ok_or", "ok_or_else") and "Option" in name:
            return rec(args[0])
        if short in ("checked_mul", "checked_add", "checked_sub") and len(args) == 2:
            op = {"checked_mul": "Mul", "checked_add": "Add", "checked_sub": "Sub"}[short]
            return ("bin", op, rec(args[0]), rec(args[1]))
        if short in ("and_then", "map") and ("Option" in name or "Result" in name) and len(args) == 2:
            clo = args[1]
            if clo[0] == "agg" and clo[1].startswith("closure:"):
                body = p.bodies.get(clo[1][len("closure:"):])
                if body is not None:
                    return rec(inline_body(p, body, [clo, rec(args[0])], clo))
        # call of a local closure through Fn::call(&closure, (args,))
        if short in ("call", "call_once", "call_mut") and len(args) == 2 and args[0][0] == "agg" and args[0][1].startswith("closure:"):
            body = p.bodies.get(args[0][1][len("closure:"):])
            tup = args[1]
            if body is not None and tup[0] == "agg" and tup[1] == "tuple":
                return rec(inline_body(p, body, [args[0]] + [rec(a) for a in tup[2]], args[0]))
        if name in p.bodies and p.bodies[name].kind == "Closure":
            body = p.bodies[name]
            if len(args) == 2 and args[1][0] == "agg" and args[1][1] == "tuple":
                return rec(inline_body(p, body, [args[0]] + [rec(a) for a in args[1][2]], args[0]))
        return ("call", name, tuple(rec(a) for a in args))
    if t == "bin":
        return ("bin", e[1], rec(e[2]), rec(e[3]))
    if t in ("un", "cast"):
        return (t, e[1], rec(e[2])) + tuple(e[3:])
    if t == "field":
        return ("field", rec(e[1]), e[2])
    return e


def success_payload(p, fn, actuals):
    """payload of the single Ok(..)/Some(..) return of local function `fn` with its parameters
    replaced by `actuals`; None if the function has no or several success returns"""
    body = p.bodies.get(fn)
    if body is None or len(actuals) != body.argc:
        return None
    eb = ExprBuilder(body)
    pay = []
    for bb, idx, item in body.defs().get(0, []):
        if body.is_cleanup(bb):
            continue
        e = eb.at(bb, idx if idx != "term" else None).call(item) if idx == "term" else eb.at(bb, idx).rvalue(item["rv"])
        if e[0] == "agg" and (e[1].endswith("Result::Ok") or e[1].endswith("Option::Some")) and len(e[2]) == 1:
            pay.append(e[2][0])
        elif e[0] == "agg" and (e[1].endswith("Result::Err") or e[1].endswith("Option::None")):
            continue
        elif e[0] == "call" and "from_residual" in e[1]:
            continue
        else:
            return None
    if len(pay) != 1:
        return None
    return subst_params(pay[0], actuals, {})


def subst_params(e, actuals, caps):
    def sub(e):
        t = e[0]
        if t == "arg" and isinstance(e[1], int) and 1 <= e[1] <= len(actuals):
            return actuals[e[1] - 1]
        if t == "upvar":
            return caps.get(e[1].lstrip("*"), e)
        if t == "field":
            return ("field", sub(e[1]), e[2])
        if t == "variant":
            return ("variant", sub(e[1]), e[2])
        if t == "idx":
            return ("idx", sub(e[1]), sub(e[2]))
        if t == "bin":
            return ("bin", e[1], sub(e[2]), sub(e[3]))
        if t in ("un", "cast"):
            return (t, e[1], sub(e[2])) + tuple(e[3:])
        if t == "call":
            return ("call", e[1], tuple(sub(a) for a in e[2]))
        if t == "agg":
            return ("agg", e[1], tuple(sub(a) for a in e[2]), e[3] if len(e) > 3 else ())
        if t == "len":
            return ("len", sub(e[1]))
        return e
    return sub(e)


def inline_body(p, body, actuals, closure_agg):
    """return expression of `body` with parameters replaced by `actuals` (closure env first) and
    captured variables replaced by the closure aggregate's capture operands"""
    eb = ExprBuilder(body)
    ret = eb.local(0)
    caps = {}
    if closure_agg is not None and closure_agg[0] == "agg" and len(closure_agg) > 3:
        for nm, op in zip(closure_agg[3], closure_agg[2]):
            caps[nm.lstrip("*")] = op

    def sub(e):
        t = e[0]
        if t == "arg" and isinstance(e[1], int) and 1 <= e[1] <= len(actuals):
            return actuals[e[1] - 1]
        if t == "upvar":
            return caps.get(e[1].lstrip("*"), e)
        if t == "field":
            return ("field", sub(e[1]), e[2])
        if t == "variant":
            return ("variant", sub(e[1]), e[2])
        if t == "idx":
            return ("idx", sub(e[1]), sub(e[2]))
        if t == "bin":
            return ("bin", e[1], sub(e[2]), sub(e[3]))
        if t in ("un", "cast"):
            return (t, e[1], sub(e[2])) + tuple(e[3:])
        if t == "call":
            return ("call", e[1], tuple(sub(a) for a in e[2]))
        if t == "agg":
            return ("agg", e[1], tuple(sub(a) for a in e[2]), e[3] if len(e) > 3 else ())
        if t == "len":
            return ("len", sub(e[1]))
        return e
    return sub(ret)


# --------------------------------------------------------------------------------------
# closure environments: captured variables by value, not by name


def closure_env(p, cb):
    """{capture name (without leading * / &): value expression in the constructing body's terms} for
    closure body `cb`, read off the closure aggregate in its parent"""
    dp = getattr(cb, "direct_parent", None) or cb.parent
    parent = p.bodies.get(dp) if dp else None
    if parent is None:
        return {}, None
    peb = ExprBuilder(parent)
    for bb, i, st in parent.iter_stmts():
        if st["k"] == "assign" and st["rv"]["k"] == "aggregate" and st["rv"]["kind"].get("k") == "closure" and st["rv"]["kind"].get("def") == cb.path:
            env = {}
            for c, o in zip(st["rv"]["kind"]["captures"], st["rv"]["ops"]):
                env[c["name"].lstrip("*&")] = peb.at(bb, i).op(o)
            return env, parent
    return {}, parent


def _tag_args(v, body):
    """mark the parameters of an enclosing *closure* so that they cannot be confused with the
    parameters of the closure whose expression is being resolved: arg2 -> {closure#0}:arg2"""
    tag = body.path.rsplit("::", 1)[-1]

    def f(n):
        if n[0] == "arg" and not str(n[2] or "").startswith("{closure"):
            return ("arg", n[1], "%s:%s" % (tag, n[2] or ("arg%d" % n[1])))
        return None
    from .loops import rewrite
    return rewrite(v, f)


def resolve_upvars(p, cb, e, depth=0):
    """replace every captured variable in `e` (an expression of closure body `cb`) by the value the
    constructing body gives it, transitively up to the enclosing function: the result mentions only
    the enclosing function's parameters / values and the closures' own parameters (as `arg`), so a
    rule can compare *what* is captured instead of what the variable is called"""
    if cb is None or cb.kind != "Closure" or depth > 6:
        return e
    env, parent = closure_env(p, cb)

    def sub(x):
        t = x[0]
        if t == "upvar":
            v = env.get(x[1].lstrip("*&"))
            if v is None:
                return x
            if parent is not None and parent.kind == "Closure":
                v = _tag_args(v, parent)
            return resolve_upvars(p, parent, v, depth + 1) if parent is not None else v
        if t in ("field", "variant", "len", "discr", "repeat", "proj", "overflow"):
            return (t, sub(x[1])) + tuple(x[2:])
        if t == "idx":
            return ("idx", sub(x[1]), sub(x[2]))
        if t == "bin":
            return ("bin", x[1], sub(x[2]), sub(x[3])) + tuple(x[4:])
        if t in ("un", "cast"):
            return (t, x[1], sub(x[2])) + tuple(x[3:])
        if t == "call":
            return ("call", x[1], tuple(sub(a) for a in x[2])) + tuple(x[3:])
        if t == "agg":
            return ("agg", x[1], tuple(sub(a) for a in x[2])) + tuple(x[3:])
        if t == "subslice":
            return ("subslice", sub(x[1])) + tuple(x[2:])
        return x
    return sub(e)


def resolve_upvar_text(p, cb, text):
    """the same on a rendered string (for truth-table atoms): `^name` / `^*name` -> <value>"""
    env, parent = closure_env(p, cb)

    def rep(m):
        v = env.get(m.group(1))
        if v is None:
            return m.group(0)
        if parent is not None and parent.kind == "Closure":
            v = _tag_args(v, parent)
        v = resolve_upvars(p, parent, v, 1) if parent is not None else v
        return show(v)
    return re.sub(r"\^[*&]*([A-Za-z_]\w*)", rep, text)


# --------------------------------------------------------------------------------------
# alternatives: the values an expression can take across merged temporaries


def alternatives(eb, e, limit=48, _depth=0):
    """All values `e` can take, expanding multi-definition locals (`var` nodes) through every
    definition and pushing field / variant projections into aggregates: `(X as Some).0.1` with
    X defined as `Some((a, (b, c)))` on one path and `None` on another yields [(b, c)] - the
    alternative whose variant cannot match is dropped.  `Try::branch(x) as Continue .0` is the Ok /
    Some payload of x.  Flow-insensitive; used where a helper returns several values packed in one
    Result / Option / tuple and the caller takes them apart again."""
    if _depth > 10:
        return [e]
    t = e[0]
    rec = lambda x: alternatives(eb, x, limit, _depth + 1)
    if t == "var" and isinstance(e[1], int):
        out = []
        saved = (eb.cur_bb, eb.cur_idx)
        for d in eb.def_exprs(e[1]):
            if d == e:
                continue
            out.extend(rec(d))
            if len(out) > limit:
                break
        eb.cur_bb, eb.cur_idx = saved
        return out[:limit] or [e]
    if t == "variant":
        out = []
        for a in rec(e[1]):
            if a[0] == "call" and (a[1].endswith("Try>::branch") or a[1].endswith("Try::branch")) and e[2] in ("Continue", "Break"):
                # Continue(payload) <- Ok(payload) / Some(payload); Break <- Err / None
                for x in rec(a[2][0]):
                    if x[0] == "agg" and (x[1].endswith("Result::Ok") or x[1].endswith("Option::Some")):
                        if e[2] == "Continue":
                            out.append(("agg", "Continue", x[2], ()))
                    elif x[0] == "agg" and (x[1].endswith("Result::Err") or x[1].endswith("Option::None")):
                        if e[2] == "Break":
                            out.append(("agg", "Break", (x,), ()))
                    elif x[0] == "call" and "from_residual" in x[1]:
                        if e[2] == "Break":
                            out.append(("agg", "Break", (x,), ()))
                    else:
                        out.append(("variant", ("call", a[1], (x,)), e[2]))
                continue
            if a[0] == "agg" and "::" in a[1] and not a[1].startswith("closure:"):
                vname = a[1].rsplit("::", 1)[-1]
                if vname == e[2]:
                    out.append(a)
                elif vname in ("Ok", "Err", "Some", "None", "Continue", "Break"):
                    continue      # a different variant: this alternative cannot reach here
                else:
                    out.append(("variant", a, e[2]))
            elif a[0] == "agg" and a[1] in ("Continue", "Break"):
                if a[1] == e[2]:
                    out.append(a)
            elif a[0] == "call" and "from_residual" in a[1] and e[2] in ("Ok", "Some", "Continue"):
                continue
            else:
                out.append(("variant", a, e[2]))
        return out[:limit]
    if t == "field":
        out = []
        for a in rec(e[1]):
            if a[0] == "agg" and not a[1].startswith("closure:"):
                ops, names = a[2], (a[3] if len(a) > 3 else ())
                if names and e[2] in names:
                    out.extend(rec(ops[names.index(e[2])]))
                    continue
                if e[2].isdigit() and int(e[2]) < len(ops) and not names:
                    out.extend(rec(ops[int(e[2])]))
                    continue
            out.append(("field", a, e[2]))
        return out[:limit]
    if t == "call" and e[1] in ("std::convert::Into::into", "std::convert::From::from") and len(e[2]) == 1:
        return rec(e[2][0])
    return [e]


def depends_on_args(eb, e, arg_locals, depth=6, _seen=None):
    """explicit value dependence of `e` on the given parameters, expanding merged temporaries through
    `alternatives` (projection-aware, so `(label, (start, end))` packed in one slot does not make the
    label depend on what `start` depends on).  Returns the first offending sub-expression or None."""
    _seen = _seen if _seen is not None else set()
    for a in alternatives(eb, e):
        for x in walk(a):
            if x[0] == "arg" and x[1] in arg_locals:
                return x
            if x[0] == "var" and isinstance(x[1], int) and x is not a:
                if x[1] in _seen or depth <= 0:
                    continue
                _seen.add(x[1])
                r = depends_on_args(eb, x, arg_locals, depth - 1, _seen)
                if r is not None:
                    return r
    return None


def deep_defs(eb, e, limit=60):
    """every definition expression reachable from the merged temporaries (`var` nodes) inside `e`,
    transitively - the values a match / if-else expression can evaluate to, flattened"""
    out, seen, work = [], set(), [e]
    while work and len(out) < limit:
        x = work.pop()
        for n in walk(x):
            if n[0] == "var" and isinstance(n[1], int) and n[1] not in seen:
                seen.add(n[1])
                for d in eb.def_exprs(n[1]):
                    out.append(d)
                    work.append(d)
    return out


def closure_call_values(p, e, limit=40):
    """`e` = a direct call of a closure value, ('call', <closure path>, (closure aggregate, tuple(args))):
    the values the call can return, in the caller's terms - the closure's return value and the
    definitions of its merged temporaries, with captured variables replaced by what they were bound
    to and parameters by the actual arguments"""
    if not (e[0] == "call" and len(e[2]) == 2 and e[2][0][0] == "agg" and isinstance(e[2][0][1], str) and e[2][0][1] == "closure:" + e[1]):
        return []
    cb = p.bodies.get(e[1])
    if cb is None or cb.kind != "Closure":
        return []
    actual = e[2][1][2] if e[2][1][0] == "agg" and e[2][1][1] == "tuple" else ()
    ceb = ExprBuilder(cb)
    r = ceb.local(0)
    from .loops import rewrite
    out = []
    for x in ([r] + deep_defs(ceb, r))[:limit]:
        try:
            x = resolve_upvars(p, cb, x)
        except Exception:  # noqa: BLE001
            pass
        out.append(rewrite(x, lambda n: actual[n[1] - 2] if n[0] == "arg" and isinstance(n[1], int) and 2 <= n[1] < 2 + len(actual) else None))
    return out


def collect_loops(body):
    """`let mut v = Vec::new(); for x in ITER { v.push(x) }` is `ITER.collect()`: returns
    {vec local: ITER expression} for every fresh vector whose only growth is one push of the loop's
    own element, guarded by nothing but that loop's `Some`."""
    from . import paths
    from .mir import callee_name as _cn
    eb = ExprBuilder(body)
    sites = {}
    for bb, t in body.calls():
        c = t["callee"]
        if c["k"] != "fndef":
            continue
        nm = _cn(c)
        if re.search(r"Vec::<T, A>::(push|extend_from_slice|append|insert|resize|truncate|clear|pop)$|Extend<.*>>::extend$", nm) and t["args"] and t["args"][0].get("k") in ("move", "copy"):
            rl = t["args"][0]["place"]["local"]
            base = [d[2]["rv"]["place"]["local"] for d in body.defs().get(rl, []) if d[1] != "term" and d[2]["rv"]["k"] == "ref" and not d[2]["rv"]["place"]["proj"]]
            if base:
                sites.setdefault(base[0], []).append((bb, t, nm))
    out = {}
    for v, ss in sites.items():
        if len(ss) != 1 or not ss[0][2].endswith("::push"):
            continue
        ds = [d for d in body.defs().get(v, []) if not body.is_cleanup(d[0])]
        if not (len(ds) == 1 and ds[0][1] == "term" and (_cn(ds[0][2]["callee"]).endswith("Vec::<T>::new") or _cn(ds[0][2]["callee"]).endswith("with_capacity"))):
            continue
        bb, t, nm = ss[0]
        val = eb.at(bb).op(t["args"][1])
        gs = paths.guards(body, bb, eb)
        if len(gs) == 1 and gs[0][0] == "some" and gs[0][1][0] == "call" and gs[0][1][1].endswith("::next") and len(gs[0][1][2]) == 1 \
                and val == ("field", ("variant", gs[0][1], "Some"), "0"):
            it = gs[0][1][2][0]
            while it[0] == "call" and it[1].endswith("IntoIterator>::into_iter") and len(it[2]) == 1:
                it = it[2][0]
            out[v] = it
    return out


def builder_with_collect_loops(body):
    """an ExprBuilder that renders every collect-loop vector of `body` as ITER.collect()"""
    cl = collect_loops(body)

    def hook(pl, bb):
        if pl["local"] in cl and not pl["proj"]:
            return ("call", "std::iter::Iterator::collect", (cl[pl["local"]],))
        return None
    return ExprBuilder(body, place_hook=hook) if cl else ExprBuilder(body)
