"""E5: forward dependence (taint) analysis on one MIR body, with explicit and implicit flows.

Abstract locations are locals.  A reference local carries the set of base locals it may point
into (`pts`), so that a store through `*r` taints the referent.  Calls are treated
conservatively: the result and every `&mut` argument's referent depend on all arguments --
sound because C03 establishes that K has no global or interior-mutable state.  Imprecision can
only add dependences (possible false alarm, never a missed flow).

`param_reads` is the small access-path summary used where a whole struct is passed by
reference (e.g. `to_labels(&self.condition)`): which fields of the pointee a function
(transitively) reads.
"""
import re
from .expr import ExprBuilder, walk, root_of, show
from .mir import callee_name


def place_locals(p):
    out = [p["local"]]
    for e in p["proj"]:
        if e["k"] == "index":
            out.append(e["local"])
    return out


def operand_places(o):
    if o and o.get("k") in ("copy", "move"):
        return [o["place"]]
    return []


def rvalue_operands(rv):
    ops = []
    for key in ("op", "a", "b"):
        if isinstance(rv.get(key), dict):
            ops.append(rv[key])
    ops.extend(rv.get("ops", []))
    return ops


import re as _re

# Callees whose *result value* (a reference / iterator / length into a slice) depends on the shape
# and identity of the container argument, not on the values stored in it.
SHAPE_FNS = _re.compile(
    r"(ops::Index(Mut)?<.*>>::index(_mut)?$|slice::index::<impl .*ops::Index(Mut)?<I> for \[T\]>::index(_mut)?$"
    r"|<impl \[T\]>::(len|is_empty|iter|iter_mut|as_ptr|first|first_mut|last|last_mut|get|get_mut|split_at|split_at_mut|chunks|chunks_mut|chunks_exact|chunks_exact_mut)$"
    r"|Vec::<T, A>::(len|is_empty|as_slice|as_mut_slice)$"
    r"|ops::Deref(Mut)?>::deref(_mut)?$|ops::Deref(Mut)?::deref(_mut)?$"
    r"|IntoIterator>::into_iter$|iter::IntoIterator::into_iter$|IntoIterator for &'a (mut )?\[T\]>::into_iter$"
    r"|<std::slice::(Iter|IterMut|ChunksExactMut|ChunksMut)<'a, T> as std::iter::Iterator>::next$)")


def first_field(pl):
    """(first non-deref field name or None, place goes through a deref)"""
    deref = False
    for e in pl["proj"]:
        if e["k"] == "deref":
            deref = True
            continue
        if e["k"] == "field":
            nm = e.get("name")
            return (nm.lstrip("*") if nm else str(e["i"])), deref
        if e["k"] == "downcast":
            continue
        return None, deref
    return None, deref


class Taint:
    """Abstract locations are (local, field) with field = first-level field name or None (whole
    local).  Closures passed to calls are analysed in their own bodies (captures <-> upvars)."""

    def __init__(self, body, is_source_place=None, tainted_args=(), tainted_upvars=(), call_hook=None,
                 program=None, depth=0, source=None, cg=None):
        """source = (root, fields, index): an access path whose value is the taint source.
             root   ('local', n) | ('upvar', name)
             fields ['condition', 'msd_threshold']   first-level-and-deeper field names
             index  None | k   (the k-th element of the container at that path, read via Index::index)
           Reads of a strict prefix of the path (a container of the source) are tracked as
           container references: passed to a local callee they are refined with `param_reads`
           (needs cg), captured by a closure they become the closure's source."""
        self.b = body
        self.p = program or body.program
        self.eb = ExprBuilder(body)
        self.is_source_place = is_source_place
        self.source = source
        self.cg = cg
        self.why = {}
        self.cont = {}           # local -> remaining field path (reference to a container of the source)
        self.container_escapes = []
        self.T = set((a, None) for a in tainted_args)
        for u in tainted_upvars:
            self.T.add((1, u.lstrip("*")))
        self.call_hook = call_hook
        self.depth = depth
        self.closures = {}       # local -> (def path, [operands], [capture info])
        self.ctrl = set()
        self.sub = {}            # cache of closure sub-analyses
        self.tainted_switches = []
        self._compute_pts()
        self._track_containers()
        self._run()

    # ---- helpers on abstract locations
    def _is_t(self, l, f, shape_only=False):
        if (l, None) in self.T:
            return True
        if f is None:
            if shape_only:
                return any(x[0] == l and x[1] != "[]" for x in self.T)
            return any(x[0] == l for x in self.T)
        return (l, f) in self.T or (f != "[]" and False)

    def is_slice_ref(self, l):
        """local is a reference to a slice: its referent's shape cannot be changed through it"""
        ty = self.b.local_ty(l)
        return ty.startswith("&mut [") or ty.startswith("&[") or ty.startswith("&'") and "[" in ty.split(" ")[-1][:2]

    def _refine(self, tgt, f):
        return (tgt[0], f) if (tgt[1] is None and f is not None) else tgt

    def _targets(self, pl):
        """abstract locations a place denotes"""
        l = pl["local"]
        f, deref = first_field(pl)
        if not deref:
            return {(l, f)}
        ps = self.pts.get(l)
        if not ps:
            return {(l, f)}          # parameter reference: the local stands for its referent
        return {self._refine(tg, f) for tg in ps}

    def _compute_pts(self):
        b = self.b
        pts = {}
        self.pts = pts
        # a reference parameter stands for its referent
        for l in range(1, b.argc + 1):
            ty = b.local_ty(l)
            if ty.startswith("&") or ty.startswith("*"):
                if not (b.kind == "Closure" and l == 1):
                    pts[l] = {(l, None)}
        changed = True

        def add(dst, srcs):
            s = pts.setdefault(dst, set())
            n = len(s)
            s.update(srcs)
            return len(s) != n

        rounds = 0
        allow_fallback = False
        SCALARS = ("f64", "f32", "usize", "isize", "bool", "()", "u8", "u16", "u32", "u64", "i8", "i16", "i32", "i64", "char", "!")
        while (changed or not allow_fallback) and rounds < 60:
            rounds += 1
            if not changed and not allow_fallback:
                allow_fallback = True      # second phase: places of values that hold no known reference
            changed = False
            for bb, i, st in b.iter_stmts():
                if st["k"] != "assign" or st["place"]["proj"]:
                    continue
                dst = st["place"]["local"]
                rv = st["rv"]
                k = rv["k"]
                def known(pl):
                    # a place reached through a reference local whose referents are not known yet
                    # is resolved in the second phase only (avoids stale self-targets)
                    if any(e["k"] == "deref" for e in pl["proj"]) and not pts.get(pl["local"]):
                        is_param = 1 <= pl["local"] <= b.argc
                        return is_param or allow_fallback
                    return True
                if k in ("ref", "rawptr"):
                    if known(rv["place"]):
                        changed |= add(dst, self._targets(rv["place"]))
                elif k == "copyforderef":
                    pl = rv["place"]
                    if not pl["proj"]:
                        if pts.get(pl["local"]):
                            changed |= add(dst, pts[pl["local"]])
                    elif known(pl):
                        # a reference stored in a field (closure env `(*_1).name`): stands for itself
                        changed |= add(dst, self._targets(pl))
                elif k in ("use", "cast"):
                    for pl in operand_places(rv.get("op")):
                        if not pl["proj"] and pts.get(pl["local"]):
                            changed |= add(dst, pts[pl["local"]])
                        elif pl["proj"] and (b.local_ty(dst).startswith("&") or b.local_ty(dst).startswith("*")):
                            has_deref = any(e["k"] == "deref" for e in pl["proj"])
                            if not has_deref and pts.get(pl["local"]):
                                # a reference taken out of a value that holds references
                                # (e.g. the payload of `Some(&mut item)`): same referents
                                changed |= add(dst, pts[pl["local"]])
                            elif has_deref or (allow_fallback and not pts.get(dst)):
                                changed |= add(dst, self._targets(pl))
                elif k == "aggregate":
                    if rv["kind"]["k"] == "closure":
                        self.closures[dst] = (rv["kind"]["def"], rv["ops"], rv["kind"].get("captures") or [])
                    for o in rv["ops"]:
                        for pl in operand_places(o):
                            if pts.get(pl["local"]):
                                changed |= add(dst, pts[pl["local"]])
            for bb, t in b.calls():
                if t["dest"]["proj"]:
                    continue
                dst = t["dest"]["local"]
                dty = b.local_ty(dst)
                if dty in SCALARS:
                    continue
                c = t["callee"]
                nm = callee_name(c) if c["k"] == "fndef" else ""
                if (nm.endswith("Iterator>::next") or nm.endswith("Iterator::next") or nm.endswith("Iterator>::next_back")) and t["args"]:
                    # items yielded by an iterator point into what the iterator points into, not into
                    # the iterator value itself
                    second = set()
                    for pl in operand_places(t["args"][0]):
                        for (l2, f2) in pts.get(pl["local"], ()):
                            second |= pts.get(l2, set())
                    if second:
                        changed |= add(dst, second)
                        continue
                    if not allow_fallback or pts.get(dst):
                        continue
                for a in t["args"]:
                    for pl in operand_places(a):
                        if pts.get(pl["local"]):
                            changed |= add(dst, pts[pl["local"]])

    # ---- reads
    def place_tainted(self, pl, shape_only=False):
        f, deref = first_field(pl)
        l = pl["local"]
        if self._is_t(l, f, shape_only=shape_only):
            return True
        for e in pl["proj"]:
            if e["k"] == "index" and self._is_t(e["local"], None):
                return True
        if deref:
            for tg in self._targets(pl):
                if self._is_t(tg[0], tg[1], shape_only=shape_only):
                    return True
                if not shape_only and tg[1] is None and (tg[0], "[]") in self.T:
                    return True
        if self.is_source_place is not None and pl["proj"]:
            if self.is_source_place(pl, None):
                return True
        if self.source is not None:
            c = self.classify(pl)
            if c is not None and c[0] == "hit":
                return True
        return False

    # ---- access-path source
    def _place_fields(self, pl):
        out = []
        for e in pl["proj"]:
            if e["k"] == "field":
                nm = e.get("name")
                out.append(nm.lstrip("*") if nm else str(e["i"]))
            elif e["k"] in ("deref", "downcast"):
                continue
            else:
                out.append("[]")
        return out

    def classify(self, pl):
        """('hit',) the place is (part of) the source; ('container', remaining) the place strictly
        contains it; None unrelated"""
        root, fields, index = self.source
        pf = self._place_fields(pl)
        rem = None
        if root[0] == "local" and pl["local"] == root[1]:
            rem = list(fields)
        elif root[0] == "upvar" and self.b.kind == "Closure" and pl["local"] == 1 and pf and pf[0] == root[1]:
            pf = pf[1:]
            rem = list(fields)
        elif pl["local"] in self.cont:
            rem = list(self.cont[pl["local"]])
        if rem is None:
            return None
        # compare pf with rem
        n = min(len(pf), len(rem))
        if pf[:n] != rem[:n]:
            return None
        if len(pf) >= len(rem):
            if index is not None and len(pf) == len(rem):
                return ("container", [])      # the vector itself; element chosen by Index::index
            if index is not None and len(pf) > len(rem) and pf[len(rem)] == "[]":
                return ("hit",)               # direct projection indexing with a variable: conservative
            return ("hit",)
        return ("container", rem[len(pf):])

    def _track_containers(self):
        """locals that hold (a reference to) a container of the source"""
        if self.source is None:
            return
        changed = True
        rounds = 0
        while changed and rounds < 20:
            rounds += 1
            changed = False
            for bb, i, st in self.b.iter_stmts():
                if st["k"] != "assign" or st["place"]["proj"]:
                    continue
                rv = st["rv"]
                src = None
                if rv["k"] in ("ref", "rawptr", "copyforderef"):
                    src = rv["place"]
                elif rv["k"] in ("use", "cast") and rv.get("op", {}).get("k") in ("copy", "move"):
                    src = rv["op"]["place"]
                if src is None:
                    continue
                c = self.classify(src)
                if c is not None and c[0] == "container":
                    d = st["place"]["local"]
                    if self.cont.get(d) != c[1]:
                        self.cont[d] = c[1]
                        changed = True

    def operand_tainted(self, o, shape_only=False):
        if shape_only:
            # the value of a reference / iterator operand itself (not what it points to)
            out = False
            for pl in operand_places(o):
                l = pl["local"]
                f, deref = first_field(pl)
                if self._is_t(l, f, shape_only=True):
                    out = True
                if deref:
                    for tg in self._targets(pl):
                        if self._is_t(tg[0], tg[1], shape_only=True):
                            out = True
            return out
        return any(self.place_tainted(pl) for pl in operand_places(o))

    def rvalue_tainted(self, rv):
        k = rv["k"]
        if k in ("ref", "rawptr"):
            pl = rv["place"]
            # a reference to a whole struct (`&*self`, as left behind by an inlined helper or passed
            # to a method) reads none of its fields: reads through it are resolved by points-to, and a
            # call that receives it is judged through the referents (see the call transfer)
            if all(e["k"] == "deref" for e in pl["proj"]) and self.p is not None:
                ty = self.b.local_ty(pl["local"]).lstrip("&").strip()
                if ty.startswith("mut "):
                    ty = ty[4:]
                ty = ty.split("<")[0]
                if ty in getattr(self.p, "adts", {}) and self.pts.get(pl["local"], True):
                    tgs = self._targets(pl)
                    return any((tg[0], None) in self.T for tg in tgs)
            # taking a reference to (part of) a slice does not read its contents
            return self.place_tainted(pl, shape_only=True)
        if k in ("copyforderef", "discriminant"):
            return self.place_tainted(rv["place"])
        if k == "aggregate" and rv["kind"]["k"] == "closure":
            return False  # closures are analysed at their call sites
        return any(self.operand_tainted(o) for o in rvalue_operands(rv))

    # ---- writes
    def _content(self, tg, through_deref):
        """an element store / callee write through a `&mut [T]` taints the contents, not the shape"""
        if through_deref and tg[1] is None and self.is_slice_ref(tg[0]):
            return (tg[0], "[]")
        return tg

    def taint_place(self, pl, why=None):
        ch = False
        deref = any(e["k"] == "deref" for e in pl["proj"])
        for tg in self._targets(pl):
            tg = self._content(tg, deref)
            if tg not in self.T and (tg[0], None) not in self.T:
                self.T.add(tg)
                self.why[tg] = (len(self.why), why)
                ch = True
        return ch

    def _taint_loc(self, tg, why=None):
        tg = self._content(tg, True)
        if tg not in self.T and (tg[0], None) not in self.T:
            self.T.add(tg)
            self.why[tg] = (len(self.why), why)
            return True
        return False

    def _closure_of_operand(self, o):
        for pl in operand_places(o):
            l = pl["local"]
            if l in self.closures:
                return l
            # a copy / reference of a closure local, through any number of plain moves (argument
            # temporaries, the parameter copy of an inlined helper)
            seen = {l}
            cur = l
            for _ in range(8):
                nxt = None
                for d in self.b.defs().get(cur, []):
                    if d[1] != "term" and d[2]["rv"]["k"] in ("use", "ref"):
                        src = d[2]["rv"].get("op", {}).get("place") or d[2]["rv"].get("place")
                        if src and src["local"] in self.closures:
                            return src["local"]
                        if src and not src["proj"] and src["local"] not in seen:
                            nxt = src["local"]
                if nxt is None:
                    break
                seen.add(nxt)
                cur = nxt
        return None

    def _analyse_closure(self, cl, others_tainted):
        """-> (set of capture indices written with tainted data, return tainted)"""
        defp, ops, caps = self.closures[cl]
        body = self.p.bodies.get(defp) if self.p else None
        if body is None or self.depth > 6:
            anyt = others_tainted or any(self.operand_tainted(o) for o in ops)
            return (set(range(len(ops))) if anyt else set()), anyt
        tcaps = tuple(sorted(c["name"].lstrip("*") for c, o in zip(caps, ops) if self.operand_tainted(o)))
        sub_source = None
        if self.source is not None:
            for c, o in zip(caps, ops):
                for pl in operand_places(o):
                    cc = self.classify(pl) if (pl["proj"] or pl["local"] in self.cont) else (
                        ("container", self.cont[pl["local"]]) if pl["local"] in self.cont else None)
                    if cc is not None and cc[0] == "container":
                        sub_source = (("upvar", c["name"].lstrip("*")), list(cc[1]), self.source[2])
        key = (cl, tcaps, others_tainted, repr(sub_source))
        if key not in self.sub:
            targs = list(range(2, body.argc + 1)) if others_tainted else []
            self.sub[key] = Taint(body, tainted_args=targs, tainted_upvars=tcaps, program=self.p,
                                  depth=self.depth + 1, source=sub_source, cg=self.cg)
        sub = self.sub[key]
        written = set()
        for k, c in enumerate(caps):
            nm = c["name"].lstrip("*")
            if (1, nm) in sub.T and nm not in tcaps:
                written.add(k)
            elif (1, nm) in sub.T and c.get("mutable"):
                written.add(k)
        ret = sub._is_t(0, None)
        if sub.tainted_switches:
            ret = True
        # a `&mut` parameter of the closure written with tainted data: the caller's value changes
        if not others_tainted:
            for a in range(2, body.argc + 1):
                if any(x[0] == a for x in sub.T):
                    ret = True
        return written, ret

    def _run(self):
        b = self.b
        pdom = b.post_dominators()
        changed = True
        rounds = 0
        while changed and rounds < 60:
            rounds += 1
            changed = False
            ctrl = set()
            tsw = []
            for sb, t, arms in b.switch_edges():
                if self.operand_tainted(t["discr"]):
                    tsw.append((sb, t))
                    reach = b.reach_from(sb) - {sb}
                    for x in reach:
                        if x not in pdom.get(sb, ()):
                            ctrl.add(x)
            self.ctrl = ctrl
            self.tainted_switches = tsw
            for bb, i, st in b.iter_stmts():
                if st["k"] == "assign":
                    if self.rvalue_tainted(st["rv"]) or bb in ctrl:
                        changed |= self.taint_place(st["place"], ("assign", bb, i, "ctrl" if bb in ctrl and not self.rvalue_tainted(st["rv"]) else "data"))
                elif st["k"] == "setdiscr" and bb in ctrl:
                    changed |= self.taint_place(st["place"])
            for bb, t in b.calls():
                at = []
                cl_args = []
                for k, a in enumerate(t["args"]):
                    cl = self._closure_of_operand(a)
                    cl_args.append(cl)
                    if cl is not None:
                        at.append(False)
                        continue
                    cn = callee_name(t["callee"]) if t["callee"]["k"] == "fndef" else ""
                    shape = bool(SHAPE_FNS.search(cn))
                    tt = self.operand_tainted(a, shape_only=shape)
                    if not tt:
                        for pl in operand_places(a):
                            if not pl["proj"] and any(self._is_t(x[0], x[1], shape_only=shape) for x in self.pts.get(pl["local"], ())):
                                tt = True
                    at.append(tt)
                # arguments that are references to a container of the source
                if self.source is not None:
                    for k, a in enumerate(t["args"]):
                        if cl_args[k] is not None or at[k]:
                            continue
                        for pl in operand_places(a):
                            c = self.classify(pl) if (pl["proj"] or pl["local"] in self.cont or
                                                      (self.source[0][0] == "local" and pl["local"] == self.source[0][1])) else None
                            if c is not None and c[0] == "container":
                                if self._container_arg_tainted(t, k, c[1]):
                                    at[k] = True
                others = any(at) or bb in ctrl
                res_t = others
                mut_t = [others] * len(t["args"])
                hooked = self.call_hook(t, at) if self.call_hook else None
                if hooked is not None:
                    res_t, mut_t = hooked
                    others = any(at)
                # closures passed to this call
                for k, cl in enumerate(cl_args):
                    if cl is None:
                        continue
                    written, ret = self._analyse_closure(cl, others)
                    defp, ops, caps = self.closures[cl]
                    for ci in written:
                        for pl in operand_places(ops[ci]):
                            tgs = self.pts.get(pl["local"]) if not pl["proj"] else self._targets(pl)
                            for tg in (tgs or {(pl["local"], None)}):
                                changed |= self._taint_loc(tg, ("closure-write", bb, ci))
                    if ret:
                        res_t = True
                        # a direct invocation `f(args)` (Fn*::call*): the closure may have written
                        # tainted data through a `&mut` parameter - the referents of the argument
                        # tuple change in the caller
                        cn_ = callee_name(t["callee"]) if t["callee"]["k"] == "fndef" else ""
                        if re.search(r"ops::Fn(Once|Mut)?::call(_once|_mut)?$", cn_):
                            for k2, a2 in enumerate(t["args"]):
                                if k2 == k:
                                    continue
                                for pl in operand_places(a2):
                                    tgs = self.pts.get(pl["local"]) if not pl["proj"] else self._targets(pl)
                                    for tg in (tgs or {(pl["local"], None)}):
                                        changed |= self._taint_loc(tg, ("closure-param-write", bb, k))
                if res_t or bb in ctrl:
                    changed |= self.taint_place(t["dest"], ("call-result", bb, callee_name(t["callee"]) if t["callee"]["k"] == "fndef" else "?", [k for k, x in enumerate(at) if x], "ctrl" if bb in ctrl else ""))
                for k, (a, ti) in enumerate(zip(t["args"], t.get("arg_tys") or [])):
                    if cl_args[k] is not None:
                        continue
                    if mut_t[k] and ti and ti.get("k") == "ref" and ti.get("mut"):
                        for pl in operand_places(a):
                            tgs = self.pts.get(pl["local"]) if not pl["proj"] else self._targets(pl)
                            for tg in (tgs or {(pl["local"], None)}):
                                changed |= self._taint_loc(tg)

    def _container_arg_tainted(self, t, k, remaining):
        """argument k of call t is a reference to a container whose field path `remaining` leads to
        the source.  Index::index(container_of_elements, const j): tainted iff j == source index.
        Local callee: tainted iff it may read the next field (param_reads).  Otherwise tainted."""
        c = t["callee"]
        name = callee_name(c) if c["k"] == "fndef" else ""
        index = self.source[2]
        if not remaining and index is not None and ("Index<" in name or "IndexMut<" in name) and len(t["args"]) == 2 and k == 0:
            j = t["args"][1]
            # the index may reach the call through plain copies of a constant (e.g. the parameter
            # copy of an inlined helper called with a literal)
            n_ = 0
            while j.get("k") in ("move", "copy") and not j["place"]["proj"] and n_ < 6:
                ds_ = [d for d in self.b.defs().get(j["place"]["local"], []) if not self.b.is_cleanup(d[0])]
                if len(ds_) == 1 and ds_[0][1] != "term" and ds_[0][2]["rv"]["k"] == "use":
                    j = ds_[0][2]["rv"]["op"]
                    n_ += 1
                else:
                    break
            if j.get("k") == "const" and "int" in j:
                return int(j["int"]) == index
            return True
        if not remaining:
            return True
        if c["k"] != "fndef" or self.cg is None:
            self.container_escapes.append((t, k, remaining))
            return True
        targets = []
        res = c.get("resolved")
        if res in self.p.bodies:
            targets = [res]
        elif c.get("krate") == self.p.crate:
            tr = c.get("trait")
            method = c["def"].rsplit("::", 1)[-1]
            targets = list(self.cg.trait_impls.get((tr, method), [])) if tr else []
        if not targets:
            # external callee given a container: transparent views keep it a container
            self.container_escapes.append((t, k, remaining))
            return True
        reads = set()
        for tg in targets:
            reads |= param_reads(self.p, self.cg, tg, k + 1)
        if TOP in reads or remaining[0] in reads:
            return True
        return False

    # ---- queries
    def local_tainted(self, l, f=None):
        return self._is_t(l, f)

    def uses(self):
        """statements/terminators that read a tainted value: (kind, bb, item)"""
        b = self.b
        out = []
        for bb, i, st in b.iter_stmts():
            if st["k"] == "assign" and self.rvalue_tainted(st["rv"]):
                out.append(("assign", bb, st))
        for bb, t in b.iter_terms():
            if t["k"] in ("call", "tailcall"):
                for k, a in enumerate(t["args"]):
                    if self._closure_of_operand(a) is None and self.operand_tainted(a):
                        out.append(("callarg", bb, t))
                        break
            elif t["k"] == "switch" and self.operand_tainted(t["discr"]):
                out.append(("switch", bb, t))
            elif t["k"] == "assert" and self.operand_tainted(t["cond"]):
                out.append(("assert", bb, t))
        return out

    def closure_subs(self):
        return list(self.sub.values())


# --------------------------------------------------------------------------------------
# access-path summary: which fields of *param does a function (transitively) read?

TOP = "<whole>"


def param_reads(p, cg, fn_path, param_local, _stack=None):
    """Set of first-level field names of the pointee of parameter `param_local` that `fn_path` may
    read, or {TOP} if the parameter is used wholesale / escapes to code we cannot see."""
    _stack = _stack or set()
    key = (fn_path, param_local)
    if key in _stack:
        return set()
    _stack = _stack | {key}
    b = p.bodies.get(fn_path)
    if b is None:
        return {TOP}
    out = set()
    # locals that alias the parameter (copies / reborrows)
    alias = {param_local}
    changed = True
    while changed:
        changed = False
        for bb, i, st in b.iter_stmts():
            if st["k"] != "assign" or st["place"]["proj"]:
                continue
            rv = st["rv"]
            src = None
            if rv["k"] in ("use", "cast") and rv.get("op", {}).get("k") in ("copy", "move"):
                src = rv["op"]["place"]
            elif rv["k"] in ("ref", "copyforderef", "rawptr"):
                src = rv["place"]
            if src and src["local"] in alias and all(e["k"] == "deref" for e in src["proj"]):
                if st["place"]["local"] not in alias:
                    alias.add(st["place"]["local"])
                    changed = True

    def first_field(pl):
        for e in pl["proj"]:
            if e["k"] == "deref":
                continue
            if e["k"] == "field":
                return e.get("name") or str(e["i"])
            return TOP
        return None  # whole

    for bb, i, st in b.iter_stmts():
        if st["k"] != "assign":
            continue
        rv = st["rv"]
        places = []
        if rv["k"] in ("ref", "copyforderef", "rawptr", "discriminant"):
            places.append(rv["place"])
        for o in rvalue_operands(rv):
            places.extend(operand_places(o))
        for pl in places:
            if pl["local"] in alias:
                f = first_field(pl)
                if f is None:
                    # whole-value copy/reborrow: alias (already handled) -- if the destination is
                    # not an alias (e.g. stored into an aggregate) the parameter escapes
                    if st["place"]["proj"] or st["place"]["local"] not in alias:
                        out.add(TOP)
                else:
                    out.add(f)
    for bb, t in b.iter_terms():
        if t["k"] not in ("call", "tailcall"):
            continue
        for k, a in enumerate(t["args"]):
            for pl in operand_places(a):
                if pl["local"] not in alias:
                    continue
                f = first_field(pl)
                if f is not None:
                    out.add(f)
                    continue
                # passed wholesale to a callee
                c = t["callee"]
                targets = []
                if c["k"] == "fndef":
                    res = c.get("resolved")
                    if res in p.bodies:
                        targets = [res]
                    elif c.get("krate") == p.crate:
                        tr = c.get("trait")
                        method = c["def"].rsplit("::", 1)[-1]
                        targets = list(cg.trait_impls.get((tr, method), [])) if tr else []
                        if c["def"] in p.bodies:
                            targets.append(c["def"])
                if not targets:
                    out.add(TOP)
                    continue
                for tg in targets:
                    out |= param_reads(p, cg, tg, k + 1, _stack)
    return out
