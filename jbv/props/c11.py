"""C11 - Voicing follows each stream's MSD threshold."""
from ..expr import ExprBuilder, show, walk, root_of, canon
from ..flow import condition_flow
from .. import paths
from . import common as cm

GEN = "engine::Engine::generator"
MANEW = "mlpg_adjust::MlpgAdjust::<'a>::new"
MACREATE = "mlpg_adjust::MlpgAdjust::<'a>::create"
STREAM_SINK = {0: "spectrum", 1: "lf0", 2: "lpf"}


def stream_origins(g, e):
    """model_stream(i) indices whose *values* (not merely lengths) flow into expression e;
    multi-definition locals are expanded through every definition"""
    eb = ExprBuilder(g)
    out = set()
    seen = set()
    work = [e]
    while work:
        cur = work.pop()
        t = cur[0]
        if t == "len":
            continue                      # a length carries no trajectory values
        if t == "call" and cur[1].endswith("from_elem") and len(cur[2]) == 2:
            work.append(cur[2][0])        # element value, not the count
            continue
        if t == "call" and cur[1] == "model::Models::<'a>::model_stream" and cur[2][1][0] == "c":
            out.add(cur[2][1][1])
            continue
        if t == "var" and isinstance(cur[1], int):
            if cur[1] in seen:
                continue
            seen.add(cur[1])
            work.extend(eb.def_exprs(cur[1]))
            continue
        if t in ("field", "variant", "discr", "repeat", "proj"):
            work.append(cur[1])
        elif t == "idx":
            work.extend([cur[1], cur[2]])
        elif t == "bin":
            work.extend([cur[2], cur[3]])
        elif t in ("un", "cast"):
            work.append(cur[2])
        elif t in ("call", "agg"):
            work.extend(cur[2])
        elif t == "icall":
            work.append(cur[1])
            work.extend(cur[2])
    return out


def mask_loop_form(mc):
    """loop form of Mask::create: for ((_, msd), &duration) in stream.iter().zip(durations) { for _ in
    0..duration { frames.push(*msd > threshold) } }  ->  (recognised, pushed value, guards)"""
    meb = ExprBuilder(mc)
    pushes = [(bb, t) for bb, t in mc.calls() if t["callee"]["k"] == "fndef" and cm.callee_name(t["callee"]).endswith("Vec::<T, A>::push")]
    if len(pushes) != 1:
        return None, None, None
    bb, t = pushes[0]
    v = meb.at(bb).op(t["args"][1])
    gs = paths.guards(mc, bb, meb)
    ok_pred = False
    if v[0] == "bin":
        op_, l_, r_ = v[1], v[2], v[3]
        if op_ == "Lt":
            op_, l_, r_ = "Gt", r_, l_
        txt_l = show(l_)
        ok_pred = (op_ == "Gt" and r_[0] == "arg" and show(r_) == "threshold" and l_[0] == "field" and l_[2] == "1" and
                   "Zip" in txt_l and "zip(stream, durations)" in txt_l.replace("std::iter::Iterator::", ""))
    zipg = [g for g in gs if g[0] == "some" and g[1][0] == "call" and "Zip" in g[1][1] and "zip(stream, durations)" in show(g[1]).replace("std::iter::Iterator::", "")]
    rng = [g for g in gs if g[0] == "some" and g[1][0] == "call" and "Range" in g[1][1]]
    other = [g for g in gs if g not in zipg and g not in rng]
    rng_ok = len(rng) == 1 and "start: 0" in show(rng[0][1]) and ".0.1" in show(rng[0][1]) and "Zip" in show(rng[0][1])
    return bool(ok_pred and len(zipg) == 1 and rng_ok and not other), v, gs


def run(ctx):
    ctx.rule("C11-R1", "mask element is `msd > threshold` (strict), msd = second tuple field of the stream element, threshold = the parameter: antitone in the threshold")
    ctx.rule("C11-R2", "per MlpgAdjust::new call in Engine::generator the indices of gv_weight[.], msd_threshold[.] and model_stream(.) agree (0, 1, 2) and the results reach SpeechGenerator's spectrum, lf0, lpf in that order")
    ctx.rule("C11-R3", "MlpgAdjust::new stores each f64 parameter in the field create() uses in that role (threshold -> Mask::create, weight -> MlpgMatrix::par)")
    ctx.rule("C11-R4", "non-interference: condition.msd_threshold[k] and condition.gv_weight[k] reach only stream k's trajectory")
    ctx.rule("C11-R5", "no-data marker: the fill value of MlpgAdjust::create and the constant Vocoder::synthesize compares log-F0 with are the same const item; that branch sets the period to 0; period 0 selects noise")
    ctx.rule("C11-R6", "non-MSD streams get a voicing sentinel > 1, above every clamped threshold")
    ctx.rule("C11-R7", "the voicing weight compared with the threshold is the interpolated one: the blend scales / accumulates msd with the voice weights like the other components (shared with C10-R2)")
    p = cm.program(ctx)
    cg = cm.callgraph(p)

    # ---- R1
    mc = cm.body_or_fail(ctx, p, "C11-R1", "mlpg_adjust::mask::Mask::create")
    if mc is not None:
        from ..expr import builder_with_collect_loops
        ret = builder_with_collect_loops(mc).local(0)      # `for x in it { v.push(x) }` reads as it.collect()
        clos = [x for x in walk(ret) if x[0] == "agg" and x[1].startswith("closure:")]
        loop_ok = None
        if len(clos) != 1:
            # loop form: for ((_, msd), &duration) in stream.iter().zip(durations) { for _ in 0..duration
            # { frames.push(*msd > threshold) } }
            loop_ok, v, gs = mask_loop_form(mc)
            if loop_ok is not None:
                if loop_ok:
                    ctx.ok("C11-R1", "mask predicate = (element.1 > threshold), strict; pushed `duration` times per state of `stream` (loop form), unconditionally", mc.loc())
                    ctx.ok("C11-R1", "the comparison uses Mask::create's threshold parameter", mc.loc())
                    ctx.ok("C11-R1", "one flag per state of `stream`, expanded by durations", mc.loc())
                else:
                    ctx.fail("C11-R1", mc.path, "predicate (loop form)", "the pushed flag is %s under guards %s; expected `element.1 > threshold` for every state of stream.zip(durations), repeated `duration` times" % (show(v)[:120], [(g[0], show(g[1])[:60]) for g in gs]), mc.loc())
        if len(clos) != 1 and loop_ok is None:
            ctx.fail("C11-R1", mc.path, "predicate closure", "expected one closure in Mask::create, found %d" % len(clos), mc.loc())
        elif len(clos) == 1:
            cb = p.bodies.get(clos[0][1][len("closure:"):])
            r = ExprBuilder(cb).local(0)
            good = False
            if r[0] == "bin":
                l, rr = r[2], r[3]
                if r[1] == "Gt" and l[0] == "field" and l[2] == "1" and root_of(l)[0][0] == "arg" and rr[0] == "upvar" and rr[1].lstrip("*") == "threshold":
                    good = True
                if r[1] == "Lt" and rr[0] == "field" and rr[2] == "1" and root_of(rr)[0][0] == "arg" and l[0] == "upvar" and l[1].lstrip("*") == "threshold":
                    good = True
            if good:
                ctx.ok("C11-R1", "mask predicate = (element.1 > threshold), strict", cb.loc())
            else:
                ctx.fail("C11-R1", cb.path, "predicate", "voicing predicate is %s, expected msd > threshold (strict)" % show(r), cb.loc())
            caps = clos[0][2]
            if any(show(c) == "threshold" for c in caps):
                ctx.ok("C11-R1", "the closure captures Mask::create's threshold parameter", mc.loc())
            else:
                ctx.fail("C11-R1", mc.path, "capture", "the predicate does not capture the threshold parameter: %s" % [show(c) for c in caps], mc.loc())
            s = show(ret)
            if "map(stream" in s and "filter" not in s:
                ctx.ok("C11-R1", "one flag per state of `stream`, expanded by durations", mc.loc())
            else:
                ctx.fail("C11-R1", mc.path, "pipeline", "mask pipeline is %s" % s[:160], mc.loc())

    # ---- R3
    mn = cm.body_or_fail(ctx, p, "C11-R3", MANEW)
    roles = {}
    if mn is not None:
        ret = ExprBuilder(mn).local(0)
        if ret[0] == "agg":
            fmap = dict(zip(ret[3], ret[2]))
            for fld in ("gv_weight", "msd_threshold"):
                v = fmap.get(fld)
                if v is not None and v[0] == "arg":
                    roles[fld] = v[1]
                    if v[2] == fld:
                        ctx.ok("C11-R3", "MlpgAdjust::new: parameter #%d (%s) -> field %s" % (v[1], v[2], fld), mn.loc())
                    else:
                        ctx.fail("C11-R3", mn.path, "field " + fld, "field %s is initialised from parameter `%s`" % (fld, v[2]), mn.loc())
                else:
                    ctx.fail("C11-R3", mn.path, "field " + fld, "field %s is initialised with %s" % (fld, show(v) if v else None), mn.loc())
            # model stream parts
            for fld in ("stream", "gv", "windows", "vector_length"):
                v = fmap.get(fld)
                if v is not None and v[0] == "field" and v[2] == fld and v[1][0] == "arg":
                    ctx.ok("C11-R3", "MlpgAdjust::new: field %s <- ModelStream.%s" % (fld, fld), mn.loc())
                else:
                    ctx.fail("C11-R3", mn.path, "field " + fld, "field %s is initialised with %s" % (fld, show(v) if v else None), mn.loc())
    cr = cm.body_or_fail(ctx, p, "C11-R3", MACREATE)
    if cr is not None:
        eb = ExprBuilder(cr)
        for bb, t in cm.local_calls(cr, p, exact="mlpg_adjust::mask::Mask::create"):
            a = [show(eb.at(bb).op(x)) for x in t["args"]]
            if a == ["self.stream", "self.msd_threshold", "durations"]:
                ctx.ok("C11-R3", "create(): Mask::create(self.stream, self.msd_threshold, durations)", cm.loc_of(t["span"]))
            else:
                ctx.fail("C11-R3", cr.path, "Mask::create arguments", "Mask::create receives %s" % a, cm.loc_of(t["span"]))
        pc = cm.local_calls(cr, p, exact="mlpg_adjust::mlpg::MlpgMatrix::par")
        parb = p.body("mlpg_adjust::mlpg::MlpgMatrix::par")
        for bb, t in pc:
            names = [parb.local_name(k + 1) for k in range(len(t["args"]))] if parb else []
            for k, a in enumerate(t["args"]):
                if names and names[k] == "gv_weight":
                    s = show(eb.at(bb).op(a))
                    if s == "self.gv_weight":
                        ctx.ok("C11-R3", "create(): MlpgMatrix::par(.., gv_weight = self.gv_weight, ..)", cm.loc_of(t["span"]))
                    else:
                        ctx.fail("C11-R3", cr.path, "par gv_weight argument", "par's gv_weight receives %s" % s, cm.loc_of(t["span"]))
                if names and names[k] == "gv":
                    s = show(eb.at(bb).op(a))
                    if s != "self.gv":
                        ctx.fail("C11-R3", cr.path, "par gv argument", "par's gv receives %s" % s, cm.loc_of(t["span"]))
        if not pc:
            ctx.fail("C11-R3", cr.path, "par call", "MlpgMatrix::par is not called", cr.loc())

    # ---- R2
    g = cm.body_or_fail(ctx, p, "C11-R2", GEN)
    if g is not None and mn is not None:
        eb = ExprBuilder(g)
        news = cm.local_calls(g, p, exact=MANEW)
        ctx.anchor("C11-R2", "MlpgAdjust::new call sites", len(news), 3, g.loc())
        site_index = {}
        for bb, t in news:
            eb.at(bb)
            idxs = {}
            for k, a in enumerate(t["args"]):
                e = eb.op(a)
                pname = mn.local_name(k + 1)
                if e[0] == "idx" and e[2][0] == "c":
                    base = show(e[1])
                    idxs[pname or k] = (base, e[2][1])
                else:
                    # model_stream(i) possibly wrapped in mutated(..)
                    ms = [x for x in walk(e) if x[0] == "call" and x[1] == "model::Models::<'a>::model_stream"]
                    if ms and ms[0][2][1][0] == "c":
                        idxs["model_stream"] = ("model_stream", ms[0][2][1][1])
            vals = {v[1] for v in idxs.values()}
            bases = {k: v[0] for k, v in idxs.items()}
            okb = bases.get("gv_weight", "").endswith("condition.gv_weight") and bases.get("msd_threshold", "").endswith("condition.msd_threshold") and "model_stream" in idxs
            if len(vals) == 1 and okb:
                i = vals.pop()
                site_index[t["dest"]["local"]] = i
                ctx.ok("C11-R2", "MlpgAdjust::new(gv_weight[%d], msd_threshold[%d], model_stream(%d))" % (i, i, i), cm.loc_of(t["span"]))
            else:
                ctx.fail("C11-R2", g.path, "index agreement", "stream indices disagree or wrong vectors at one MlpgAdjust::new call: %s" % idxs, cm.loc_of(t["span"]))
        # results reach the right SpeechGenerator parameter
        nb = p.body("speech::SpeechGenerator::new")
        for bb, t in cm.local_calls(g, p, exact="speech::SpeechGenerator::new"):
            for k, a in enumerate(t["args"]):
                nm = nb.local_name(k + 1) if nb else None
                if nm in ("spectrum", "lf0", "lpf"):
                    want = {v: k2 for k2, v in STREAM_SINK.items()}[nm]
                    ms = stream_origins(g, eb.at(bb).op(a))
                    if ms == {want}:
                        ctx.ok("C11-R2", "SpeechGenerator::new parameter `%s` <- trajectory of stream %d" % (nm, want), cm.loc_of(t["span"]))
                    else:
                        ctx.fail("C11-R2", g.path, "parameter " + nm, "parameter `%s` receives the trajectory of stream(s) %s, expected %d" % (nm, sorted(ms), want), cm.loc_of(t["span"]))

    # ---- R4
    for fld in ("msd_threshold", "gv_weight"):
        for k in (0, 1, 2):
            tn, res = condition_flow(p, cg, ["condition", fld], k)
            if tn is None:
                ctx.fail("C11-R4", GEN, "anchor", "flow analysis anchors missing")
                continue
            reached = sorted(x for x, v in res.items() if v and not x.startswith("_"))
            ctx.sample({"source": "condition.%s[%d]" % (fld, k), "reaches": reached})
            if reached == [STREAM_SINK[k]] and not res["_branches"]:
                ctx.ok("C11-R4", "condition.%s[%d] reaches only `%s`" % (fld, k, STREAM_SINK[k]))
            else:
                for r in reached:
                    if r != STREAM_SINK[k]:
                        ctx.fail("C11-R4", GEN, "%s[%d] -> %s" % (fld, k, r), "condition.%s[%d] influences `%s` (another stream's trajectory, the durations or the vocoder)" % (fld, k, r))
                if STREAM_SINK[k] not in reached:
                    ctx.fail("C11-R4", GEN, "%s[%d] -> nothing" % (fld, k), "condition.%s[%d] does not reach stream %d's trajectory" % (fld, k, k))
                if res["_branches"]:
                    ctx.fail("C11-R4", GEN, "%s[%d] branch" % (fld, k), "control flow in Engine::generator depends on condition.%s[%d]" % (fld, k))

    # ---- R5
    if cr is not None:
        eb = ExprBuilder(cr)
        fills = cm.local_calls(cr, p, exact="mlpg_adjust::mask::Mask::fill")
        okf = False
        for bb, t in fills:
            d = eb.at(bb).op(t["args"][2])
            if d[0] == "c" and d[3] == "constants::NODATA":
                okf = True
            else:
                ctx.fail("C11-R5", cr.path, "fill value", "masked-out frames are filled with %s, expected the NODATA constant" % show(d), cm.loc_of(t["span"]))
        if okf:
            ctx.ok("C11-R5", "masked-out frames are filled with constants::NODATA", cr.loc())
            # ... on every path: no return of create() skips the fill
            from .c05 import no_early_return
            no_early_return(ctx, p, cr, "C11-R5")
        elif not fills:
            ctx.fail("C11-R5", cr.path, "fill", "Mask::fill is not called", cr.loc())
    fb = p.body("mlpg_adjust::mask::Mask::fill::{closure#0}")
    if fb is not None:
        eb = ExprBuilder(fb)
        # on the mask == false edge the default is produced
        okd = False
        for bb, e, item in paths.return_exprs(fb, eb):
            if "default" in show(e):
                for gd in paths.guards(fb, bb, eb):
                    if gd[0] == "false" and (gd[1][0] == "arg" and gd[1][1] == 2 or "mask" in show(gd[1])):
                        okd = True
        if okd:
            ctx.ok("C11-R5", "Mask::fill yields the default exactly where the mask is false", fb.loc())
        else:
            ctx.fail("C11-R5", fb.path, "fill branch", "Mask::fill does not yield the default on the mask-false edge", fb.loc())
    vs = cm.body_or_fail(ctx, p, "C11-R5", "vocoder::Vocoder::synthesize")
    if vs is not None:
        eb = ExprBuilder(vs)
        found = False
        for sb, t, arms in vs.switch_edges():
            d = eb.at(sb).op(t["discr"])
            if d[0] == "bin" and d[1] in ("Eq", "Ne") and any(x[0] == "c" and x[3] == "constants::NODATA" for x in (d[2], d[3])) and any(x[0] == "arg" and x[2] == "lf0" for x in (d[2], d[3])):
                found = True
                # the variable assigned on the equal edge is constant 0 and is the one passed to Excitation::start
                eq_tg = None
                for v, tg in arms:
                    if (d[1] == "Eq" and (v is None or v == 1)) or (d[1] == "Ne" and v == 0):
                        eq_tg = tg
                zero_local = None
                for st in vs.stmts(eq_tg):
                    if st["k"] == "assign" and not st["place"]["proj"] and st["rv"]["k"] == "use" and st["rv"]["op"].get("f64") in ("0.0", "-0.0"):
                        zero_local = st["place"]["local"]
                if zero_local is None:
                    ctx.fail("C11-R5", vs.path, "no-data branch", "the lf0 == NODATA branch does not set the period to 0", cm.loc_of(t["span"]))
                else:
                    starts = []
                    for cb in [vs] + p.nested(vs.path):
                        for bb2, t2 in cm.local_calls(cb, p, exact="vocoder::excitation::Excitation::start"):
                            a = t2["args"][1]
                            al = a.get("place", {}).get("local")
                            # copy chain back to the variable: `_89 = copy p`, `p = move _267` (merged
                            # result of an if-expression or of an inlined helper), ..
                            chain = {al}
                            for _ in range(6):
                                nxt = None
                                for dbb, didx, ditem in cb.defs().get(al, []):
                                    if didx != "term" and ditem["rv"]["k"] == "use" and ditem["rv"]["op"].get("k") in ("copy", "move") \
                                            and not ditem["rv"]["op"]["place"]["proj"]:
                                        nxt = ditem["rv"]["op"]["place"]["local"]
                                if nxt is None or nxt in chain:
                                    break
                                al = nxt
                                chain.add(al)
                            starts.append(zero_local in chain and cb is vs)
                    if starts and all(starts):
                        ctx.ok("C11-R5", "lf0 == NODATA => p = 0, and p is the pitch passed to every Excitation::start (%d calls)" % len(starts), cm.loc_of(t["span"]))
                    else:
                        ctx.fail("C11-R5", vs.path, "pitch plumbing", "the period set on the no-data branch is not what Excitation::start receives", cm.loc_of(t["span"]))
        if not found:
            ctx.fail("C11-R5", vs.path, "NODATA comparison", "Vocoder::synthesize does not compare lf0 with the NODATA constant item", vs.loc())
    eg = p.body("vocoder::excitation::Excitation::get")
    if eg is not None:
        eb = ExprBuilder(eg)
        wn = cm.local_calls(eg, p, exact="vocoder::excitation::Excitation::white_noise")
        if not wn and p.body("vocoder::excitation::Excitation::white_noise") is None:
            wn = cm.local_calls(eg, p, exact="vocoder::excitation::Random::nrandom")
        unv = cm.local_calls(eg, p, exact="vocoder::excitation::Excitation::unvoiced_frame")
        okn = 0
        for bb, t in unv + [c for c in wn]:
            for gd in paths.guards(eg, bb, eb):
                if gd[0] == "true":
                    pos, c = paths.bool_atoms(gd)
                    if c[0] == "bin" and c[1] == "Eq" and "pitch_of_curr_point" in show(c[2]) and c[3][0] == "c" and float(c[3][1]) == 0.0:
                        okn += 1
        if okn >= 2:
            ctx.ok("C11-R5", "Excitation::get selects noise on pitch_of_curr_point == 0 in both the LPF and the no-LPF branch", eg.loc())
        else:
            ctx.fail("C11-R5", eg.path, "noise selection", "period 0 does not select the noise path in both branches (found %d)" % okn, eg.loc())
    st = p.body("vocoder::excitation::Excitation::start")
    if st is not None:
        from ..expr import stores
        eb = ExprBuilder(st)
        good = False
        for bb, i, s_, tgt, root, chain, val in stores(st, eb):
            if chain == ["pitch_of_curr_point"] and show(val) == "pitch":
                good = True
        if good:
            ctx.ok("C11-R5", "Excitation::start stores the given pitch as the current period when starting from / going to 0", st.loc())
        else:
            ctx.fail("C11-R5", st.path, "pitch store", "Excitation::start does not store the pitch", st.loc())

    # ---- R7
    from .c10 import r2_blend
    r2_blend(ctx, p, "C11-R7")

    # ---- R6
    ms = cm.body_or_fail(ctx, p, "C11-R6", "model::Models::<'a>::stream")
    if ms is not None:
        okk = False
        for cb in [ms] + list(p.nested(ms.path)):
            ceb = ExprBuilder(cb)
            for bb, t in cb.calls():
                c = t["callee"]
                if c["k"] == "fndef" and cm.callee_name(c).endswith("Option::<T>::unwrap_or"):
                    d = ceb.at(bb).op(t["args"][1])
                    if d[0] == "c" and isinstance(d[1], (int, float)) or d[0] == "c":
                        v = float(d[1])
                        if v > 1.0:
                            okk = True
                            ctx.ok("C11-R6", "non-MSD streams: msd.unwrap_or(%g) > 1 >= every clamped threshold" % v, cm.loc_of(t["span"]))
                        else:
                            ctx.fail("C11-R6", cb.path, "sentinel", "non-MSD sentinel %g is not above the threshold range [0,1]" % v, cm.loc_of(t["span"]))
                            okk = True
        if not okk:
            # match form: `match msd { Some(w) => w, None => SENTINEL }` - the second component of the
            # per-state tuple is a merged temporary whose definitions are the msd payload and a constant
            from ..expr import alternatives
            for cb in p.nested(ms.path):
                ceb = ExprBuilder(cb)
                r = ceb.local(0)
                if not (r[0] == "agg" and r[1] == "tuple" and len(r[2]) == 2):
                    continue
                alts = alternatives(ceb, r[2][1])
                consts = [a for a in alts if a[0] == "c" and not isinstance(a[1], (bool, str)) and a[1] is not None]
                rest = [a for a in alts if a not in consts]
                if len(consts) == 1 and rest and all("msd" in show(a) for a in rest):
                    v = float(consts[0][1])
                    okk = True
                    if v > 1.0:
                        ctx.ok("C11-R6", "non-MSD streams: the voicing weight is the msd value or the constant %g > 1 >= every clamped threshold (match form)" % v, cb.loc())
                    else:
                        ctx.fail("C11-R6", cb.path, "sentinel", "non-MSD sentinel %g is not above the threshold range [0,1]" % v, cb.loc())
        if not okk:
            # loop form: the per-state tuple is pushed in stream() itself (possibly built by a helper
            # that was folded in): every tuple that can reach a push has the msd payload or one
            # constant as its second component
            from ..expr import alternatives
            meb = ExprBuilder(ms)
            seen_c, bad_, ntup = set(), [], 0
            for pbb, pt in ms.calls():
                pc = pt["callee"]
                if pc["k"] != "fndef" or not cm.callee_name(pc).endswith("Vec::<T, A>::push") or len(pt["args"]) != 2:
                    continue
                for tup in alternatives(meb, meb.at(pbb).op(pt["args"][1])):
                    if not (tup[0] == "agg" and tup[1] == "tuple" and len(tup[2]) == 2):
                        bad_.append(show(tup)[:60])
                        continue
                    ntup += 1
                    for a in alternatives(meb, tup[2][1]):
                        if a[0] == "c" and not isinstance(a[1], (bool, str)) and a[1] is not None:
                            seen_c.add(float(a[1]))
                        elif "msd" not in show(a):
                            bad_.append(show(a)[:60])
            if ntup and not bad_ and len(seen_c) == 1:
                v = seen_c.pop()
                okk = True
                if v > 1.0:
                    ctx.ok("C11-R6", "non-MSD streams: the voicing weight pushed per state is the msd value or the constant %g > 1 >= every clamped threshold (loop form)" % v, ms.loc())
                else:
                    ctx.fail("C11-R6", ms.path, "sentinel", "non-MSD sentinel %g is not above the threshold range [0,1]" % v, ms.loc())
        if not okk:
            ctx.fail("C11-R6", ms.path, "sentinel", "no `msd.unwrap_or(sentinel)` found", ms.loc())
    ctx.assume("thresholds are clamped to [0,1] (C20-R1)")
    # ---- R8: the threshold the pipeline reads is the one the user set
    ctx.rule("C11-R8", "set_msd_threshold(i, f) stores clamp(f, 0, 1) into msd_threshold[i] for every f (one unconditional store; shared with C20-R1) and get_msd_threshold(i) returns that element - so every threshold in [0, 1], the limits included, takes effect")
    from .c20 import check_setter
    check_setter(ctx, p, "C11-R8", "set_msd_threshold")
    gb = cm.body_or_fail(ctx, p, "C11-R8", "engine::Condition::get_msd_threshold")
    if gb is not None:
        gr = ExprBuilder(gb).local(0)
        if gr[0] == "idx" and show(gr[1]) == "self.msd_threshold" and gr[2][0] == "arg" and gr[2][1] == 2:
            ctx.ok("C11-R8", "get_msd_threshold(i) returns self.msd_threshold[i]", gb.loc())
        else:
            ctx.fail("C11-R8", gb.path, "getter", "get_msd_threshold returns %s" % show(gr)[:80], gb.loc())
    expl = ("Normal form of the voicing predicate, index agreement at the three MlpgAdjust::new call sites with parameter->field roles "
            "read from the constructor, access-path taint from condition.msd_threshold[k] / gv_weight[k] through Engine::generator "
            "(6 sources) showing each reaches only stream k's trajectory, identity of the no-data const item between writer and reader, "
            "and the period-0 => noise chain.")
    return expl, ["rustc MIR", "C01-R1 (row count depends on durations only) for the len() declassification in the flow analysis"]
