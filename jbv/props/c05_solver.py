"""C05 (first sentence, structural part): the banded LDL^T solver.

The generated sequence solves W'U^-1 W c = W'U^-1 mu.  Whether the floating-point result is
accurate is not a static question; what is decided here is that the code *is* the band LDL^T
algorithm: the factorisation recurrence, the two substitutions and their order, stated as index
polynomials over the loop variables.  With A[t][k] holding entry (t, t+k) of the symmetric band
matrix (k < width) the identities are

  D[t]      = A[t][0] - sum_{k>=1} L[t,t-k]^2 D[t-k]                 L[t+k,t] is kept in A[t][k]
  A[t][i]   = (A[t][i] - sum_{k>=1} A[t-k][k] A[t-k][i+k] A[t-k][0]) / A[t][0]
  g[t]      = b[t] - sum_{k>=1} A[t-k][k] g[t-k]                      (forward,  t ascending)
  c[t]      = g[t]/A[t][0] - sum_{k>=1} A[t][k] c[t+k]                (backward, t descending)

so a product whose row/column polynomials differ from these (e.g. A[t-k][i] for A[t-k][k]) is a
different algorithm whose result differs as soon as the band is wider than the tested windows.
"""
from ..expr import ExprBuilder, show, stores, Poly, root_of, walk
from ..loops import LoopSyms, factors, band_entry, vec_entry, loop_var_parts, resolve_splits
from .. import paths
from . import common as cm

M = "mlpg_adjust::mlpg::MlpgMatrix::"


def _self_field(e, name):
    return e[0] == "field" and e[1][0] == "arg" and e[1][1] == 1 and e[2] == name


def _mk(b):
    def atomize(e):
        if _self_field(e, "length"):
            return ("sym", "L")
        if _self_field(e, "width"):
            return ("sym", "W")
        return None
    syms = LoopSyms(atomize)

    named = {}

    def hook(pl, bb):
        l = pl["local"]
        if l <= b.argc:
            return None
        nm = b.local_name(l) or b.locals[l].get("inlined_name") or ("v%d" % l)
        if l not in named:
            ds = [d for d in b.defs().get(l, []) if not b.is_cleanup(d[0])]
            named[l] = len(ds) == 1 and ds[0][1] == "term" and "from_elem" in (cm.callee_name(ds[0][2]["callee"]) or "")
        if named[l]:
            return eb.project(("var", l, nm), pl["proj"])
        return None
    eb = ExprBuilder(b, place_hook=hook)
    return eb, syms


def _guard_lvs(b, bb, eb, syms):
    """loop-variable ids of the range loops whose body (some) / exit (none) encloses block bb"""
    some, none, other = [], [], []
    for g in paths.guards(b, bb, eb):
        if g[0] in ("some", "none") and len(g) > 1 and isinstance(g[1], tuple):
            lv = ("field", ("variant", g[1], "Some"), "0")
            if loop_var_parts(lv) is not None:
                a = syms.atomize(lv)
                (some if g[0] == "some" else none).append(a[1])
                continue
            # an enumerate().take().skip() loop: its index is the range variable
            from ..loops import enumerate_as_range
            lv2 = enumerate_as_range(("field", lv, "0"))
            if loop_var_parts(lv2) is not None:
                a = syms.atomize(lv2)
                (some if g[0] == "some" else none).append(a[1])
                continue
        other.append(g)
    return some, none, other


def _single_lv(poly):
    """n if poly == lv(n) exactly"""
    ats = list(poly.atoms())
    if len(ats) == 1 and ats[0][0] == "lv" and poly == Poly.atom(ats[0]):
        return ats[0][1]
    return None


def check(ctx, p):
    ctx.rule("C05-R4", "ldl_factorization is the band LDL^T recurrence: A[t][0] -= A[t-k][k]^2 A[t-k][0]; A[t][i] -= A[t-k][k] A[t-k][i+k] A[t-k][0] (k in 1..min(width-i, t+1)); A[t][i] /= A[t][0] after both sums; t ascending over 0..length; no other store")
    ctx.rule("C05-R5", "substitutions: g[t] = wum[t] - sum A[t-k][k] g[t-k] (t ascending), c[t] = g[t]/A[t][0] - sum A[t][k] c[t+k] (t descending, k in 1..min(width, length-t)), c is returned; solve() factorises before substituting")
    L, W, one = Poly.atom(("sym", "L")), Poly.atom(("sym", "W")), Poly.const(1)
    zero = Poly.const(0)

    # ---------------- R4
    b = cm.body_or_fail(ctx, p, "C05-R4", M + "ldl_factorization")
    if b is not None:
        eb, syms = _mk(b)
        is_m = lambda e: _self_field(e, "wuw")
        sts = stores(b, eb)
        ctx.anchor("C05-R4", "stores in ldl_factorization", len(sts), 3, b.loc())
        kinds = {"diag": [], "off": [], "norm": []}
        for bb, i, st, tgt, root, chain, val in sts:
            loc = cm.loc_of(st["span"])
            tgt, val = resolve_splits(tgt), resolve_splits(val)
            te = band_entry(tgt, is_m, syms)
            if te is None:
                ctx.fail("C05-R4", b.path, "store " + show(tgt)[:60], "ldl_factorization stores to %s, expected only self.wuw[t][k]" % show(tgt)[:160], loc)
                continue
            r, c = te
            T = _single_lv(r)
            if T is None or syms.info[T]["dir"] != "up" or syms.info[T]["start"] != zero or syms.info[T]["end"] != frozenset([L]):
                ctx.fail("C05-R4", b.path, "row", "the updated row index is %s, expected the loop variable t ascending over 0..self.length" % r, loc)
                continue
            some, none, other = _guard_lvs(b, bb, eb, syms)
            if other:
                ctx.fail("C05-R4", b.path, "conditional update", "a factorisation update is guarded by %s" % [(g[0], show(g[1])[:80]) for g in other], loc)
                continue
            I = None
            if c != zero:
                I = _single_lv(c)
                if I is None or syms.info[I]["dir"] != "up" or syms.info[I]["start"] != one or syms.info[I]["end"] != frozenset([W]):
                    ctx.fail("C05-R4", b.path, "column", "the updated column is %s, expected 0 or the loop variable i in 1..self.width" % c, loc)
                    continue
            if val[0] == "bin" and val[1] == "Sub" and band_entry(val[2], is_m, syms) == te:
                fs = [band_entry(f, is_m, syms) for f in factors(val[3])]
                if any(f is None for f in fs) or len(fs) != 3:
                    ctx.fail("C05-R4", b.path, "product", "the subtracted term %s is not a product of three band entries" % show(val[3])[:200], loc)
                    continue
                rows = set(f[0] for f in fs)
                K = _single_lv(r - fs[0][0]) if len(rows) == 1 else None
                if K is None:
                    ctx.fail("C05-R4", b.path, "product rows", "the three factors are not taken from one earlier row t-k: rows %s" % sorted(str(x) for x in rows), loc)
                    continue
                k = syms.lv(K)
                want = sorted([str(k), str(c + k), str(zero)])
                got = sorted(str(f[1]) for f in fs)
                want_end = frozenset([W - c, r + one])
                ki = syms.info[K]
                what = "diag" if I is None else "off"
                if got != want:
                    ctx.fail("C05-R4", b.path, what + " product columns", "A[t][%s] -= product of A[t-k][%s]; the band LDL^T recurrence needs columns {k, %s, 0}" % (c, ", ".join(got), c + k), loc)
                elif ki["dir"] != "up" or ki["start"] != one or ki["end"] != want_end:
                    ctx.fail("C05-R4", b.path, what + " sum range", "k ranges over %s, expected 1..min(%s, t+1)" % (syms.describe(K), W - c), loc)
                elif K not in some or T not in some or (I is not None and I not in some):
                    ctx.fail("C05-R4", b.path, what + " nesting", "the update is not inside the t%s and k loops" % (", i" if I is not None else ""), loc)
                else:
                    kinds[what].append((bb, K))
                    ctx.ok("C05-R4", "A[t][%s] -= A[t-k][k] * A[t-k][%s] * A[t-k][0], k in 1..min(%s, t+1)" % (c, c + k, W - c), loc)
            elif val[0] == "bin" and val[1] == "Div" and band_entry(val[2], is_m, syms) == te and I is not None and band_entry(val[3], is_m, syms) == (r, zero):
                kinds["norm"].append((bb, none, some))
            else:
                ctx.fail("C05-R4", b.path, "update form", "unrecognised update A[t][%s] = %s" % (c, show(val)[:200]), loc)
        if len(kinds["diag"]) == 1 and len(kinds["off"]) == 1 and len(kinds["norm"]) == 1:
            bbn, none, some = kinds["norm"][0]
            kd, ko = kinds["diag"][0][1], kinds["off"][0][1]
            if kd in none and ko in none and ko not in some:
                ctx.ok("C05-R4", "A[t][i] /= A[t][0] runs once per i after the diagonal sum and after the k-sum of that i", b.loc())
            else:
                ctx.fail("C05-R4", b.path, "normalisation order", "A[t][i] /= A[t][0] is not placed after the completed diagonal sum and the completed k-sum (loops finished before it: %s)" % [syms.describe(n) for n in none], b.loc())
        else:
            ctx.fail("C05-R4", b.path, "update set", "expected one diagonal sum, one off-diagonal sum and one normalisation; recognised %s" % {k: len(v) for k, v in kinds.items()}, b.loc())
        # no call that mutates self other than indexing
        from ..expr import mut_arg_calls
        for cbb, t, cname, kx, ref in mut_arg_calls(b, eb):
            rr, _ch = root_of(ref)
            if rr[0] == "arg" and rr[1] == 1 and not any(s in cname for s in ("index_mut", "IndexMut", "deref_mut", "Iterator>::next", "into_iter", "split_at_mut")):
                ctx.fail("C05-R4", b.path, "call " + cname, "the matrix is passed mutably to %s inside the factorisation" % cname, cm.loc_of(t["span"]))

    # ---------------- R5
    b = cm.body_or_fail(ctx, p, "C05-R5", M + "substitutions")
    if b is not None:
        eb, syms = _mk(b)
        is_m = lambda e: _self_field(e, "wuw")
        sts = stores(b, eb)
        ctx.anchor("C05-R5", "stores in substitutions", len(sts), 4, b.loc())
        ret = eb.local(0)
        found = {}
        for bb, i, st, tgt, root, chain, val in sts:
            loc = cm.loc_of(st["span"])
            if root[0] != "var" or tgt[0] != "idx" or tgt[1] != root:
                ctx.fail("C05-R5", b.path, "store " + show(tgt)[:60], "substitutions stores to %s" % show(tgt)[:160], loc)
                continue
            is_v = lambda e, root=root: e == root
            ti = syms.poly(tgt[2])
            T = _single_lv(ti)
            some, none, other = _guard_lvs(b, bb, eb, syms)
            if T is None or other:
                ctx.fail("C05-R5", b.path, "store index", "vector element %s[%s] written under guards %s" % (root[2], ti, [(g[0], show(g[1])[:60]) for g in other]), loc)
                continue
            ti_info = syms.info[T]
            full = ti_info["start"] == zero and ti_info["end"] == frozenset([L])
            rec = None
            if val[0] == "bin" and val[1] == "Sub" and val[2] == tgt:
                fs = factors(val[3])
                be = [band_entry(f, is_m, syms) for f in fs]
                ve = [vec_entry(f, is_v, syms) for f in fs]
                if len(fs) == 2 and sum(x is not None for x in be) == 1 and sum(x is not None for x in ve) == 1:
                    (mr, mc) = [x for x in be if x is not None][0]
                    vi = [x for x in ve if x is not None][0]
                    rec = (mr, mc, vi)
            if rec is not None:
                mr, mc, vi = rec
                K = _single_lv(mc)
                if K is None or K not in some or T not in some:
                    ctx.fail("C05-R5", b.path, "sum variable", "%s[t] -= A[%s][%s] * %s[%s]: the column is not the inner loop variable" % (root[2], mr, mc, root[2], vi), loc)
                    continue
                k = syms.lv(K)
                ki = syms.info[K]
                if ti_info["dir"] == "up":
                    okf = full and mr == ti - k and vi == ti - k and ki["dir"] == "up" and ki["start"] == one and ki["end"] == frozenset([W, ti + one])
                    found.setdefault(root, {})["fwd_rec"] = okf
                    msg = "g[t] -= A[t-k][k] * g[t-k], k in 1..min(width, t+1), t ascending"
                else:
                    okf = full and mr == ti and vi == ti + k and ki["dir"] == "up" and ki["start"] == one and ki["end"] == frozenset([W, L - ti])
                    found.setdefault(root, {})["bwd_rec"] = okf
                    msg = "c[t] -= A[t][k] * c[t+k], k in 1..min(width, length-t), t descending"
                if okf:
                    ctx.ok("C05-R5", msg, loc)
                else:
                    ctx.fail("C05-R5", b.path, "recurrence " + root[2], "%s[%s] -= A[%s][%s] * %s[%s] with k %s, t %s; expected %s" % (root[2], ti, mr, mc, root[2], vi, syms.describe(K), syms.describe(T), msg), loc)
                continue
            # initialisations
            if val[0] == "idx" and _self_field(val[1], "wum") and syms.poly(val[2]) == ti and ti_info["dir"] == "up" and full and T in some:
                found.setdefault(root, {})["fwd_init"] = True
                ctx.ok("C05-R5", "g[t] = wum[t]", loc)
                continue
            if val[0] == "bin" and val[1] == "Div" and val[2][0] == "idx" and val[2][1][0] == "var" and syms.poly(val[2][2]) == ti and band_entry(val[3], is_m, syms) == (ti, zero) and ti_info["dir"] == "down" and full and T in some:
                found.setdefault(root, {})["bwd_init"] = val[2][1]
                ctx.ok("C05-R5", "c[t] = g[t] / A[t][0]", loc)
                continue
            ctx.fail("C05-R5", b.path, "update form", "unrecognised update %s = %s" % (show(tgt)[:80], show(val)[:200]), loc)
        fwd = [v for v, d in found.items() if d.get("fwd_init") and d.get("fwd_rec")]
        bwd = [v for v, d in found.items() if d.get("bwd_init") and d.get("bwd_rec")]
        if len(fwd) == 1 and len(bwd) == 1 and found[bwd[0]]["bwd_init"] == fwd[0] and ret == bwd[0] and len(found) == 2:
            ctx.ok("C05-R5", "the backward pass starts from the forward result and its vector `%s` is returned" % bwd[0][2], b.loc())
        else:
            ctx.fail("C05-R5", b.path, "pass structure", "expected forward vector (init + recurrence), backward vector initialised from it and returned; found %s, returns %s" % ({v[2]: {k: (x if isinstance(x, bool) else show(x)) for k, x in d.items()} for v, d in found.items()}, show(ret)[:80]), b.loc())
    s = cm.body_or_fail(ctx, p, "C05-R5", M + "solve")
    if s is not None:
        eb = ExprBuilder(s)
        c1 = cm.local_calls(s, p, exact=M + "ldl_factorization")
        c2 = cm.local_calls(s, p, exact=M + "substitutions")
        ret = eb.local(0)
        if len(c1) == 1 and len(c2) == 1 and c1[0][0] in s.dominators().get(c2[0][0], ()) and c1[0][0] != c2[0][0] and ret[0] == "call" and ret[1] == M + "substitutions":
            ctx.ok("C05-R5", "solve(): ldl_factorization(self) dominates substitutions(self), whose result is returned", s.loc())
        else:
            ctx.fail("C05-R5", s.path, "order", "solve() does not factorise exactly once before substituting (ldl calls %d, substitution calls %d, returns %s)" % (len(c1), len(c2), show(ret)[:80]), s.loc())
    # who may substitute: the substitutions are meaningful only on a factorised matrix, so every
    # call site in the crate sits behind a factorisation of the same receiver in the same body
    nsub = 0
    for path, b2 in p.bodies.items():
        cs = cm.local_calls(b2, p, exact=M + "substitutions")
        if not cs:
            continue
        eb2 = ExprBuilder(b2)
        fs = cm.local_calls(b2, p, exact=M + "ldl_factorization")
        for cbb, ct in cs:
            nsub += 1
            recv = show(eb2.at(cbb).op(ct["args"][0]))
            okf = any(fbb in b2.dominators().get(cbb, ()) and fbb != cbb and show(eb2.at(fbb).op(ft["args"][0])) == recv for fbb, ft in fs)
            if okf:
                ctx.ok("C05-R5", "%s: substitutions(%s) behind ldl_factorization(%s)" % (cm.short(path), recv, recv), cm.loc_of(ct["span"]))
            else:
                ctx.fail("C05-R5", path, "substitution without factorisation", "substitutions(%s) is called on a matrix that was not factorised on this path: the result solves a different system unless the matrix is diagonal" % recv, cm.loc_of(ct["span"]))
    ctx.anchor("C05-R5", "call sites of substitutions", nsub, 1, None)
    # every trajectory comes out of solve(): no path of par() returns without it
    pb = cm.body_or_fail(ctx, p, "C05-R5", M + "par")
    if pb is not None:
        # (a substitution call counts as well: the rule above puts a factorisation in front of it)
        sv = [bb for bb, t in cm.local_calls(pb, p, exact=M + "solve")] + [bb for bb, t in cm.local_calls(pb, p, exact=M + "substitutions")]
        rets = [bb for bb in range(len(pb.blocks)) if not pb.is_cleanup(bb) and pb.blocks[bb]["term"]["k"] == "return"]
        leak = [r for r in rets if pb.can_reach(0, r, avoid=set(sv))]
        if sv and not leak:
            ctx.ok("C05-R5", "par(): every path to the return passes through the solver (%d call sites)" % len(sv), pb.loc())
        else:
            ctx.fail("C05-R5", pb.path, "unsolved path", "par() can return without going through solve() (factorise + substitute)", pb.loc())


# ---------------------------------------------------------------------------------------------
# R6: assembly of W'U^-1 W and W'U^-1 mu


def _item_of(n):
    if n[0] == "field" and n[2] == "0" and n[1][0] == "variant" and n[1][2] == "Some" and n[1][1][0] == "call" and n[1][1][1].endswith("::next"):
        return n[1][1]
    return None


def _strip_iter(e):
    while e[0] == "call" and len(e[2]) == 1 and e[1].rsplit("::", 1)[-1] in ("iter", "into_iter", "deref", "as_slice"):
        e = e[2][0]
    return e


def _is_window_zip(c):
    """`next(zip(Windows::iter(windows), parameters / parameters.iter()))`"""
    if not (c[0] == "call" and "Zip" in c[1] and c[1].endswith("::next") and c[2]):
        return False
    a = c[2][0]
    return a[0] == "call" and a[1].endswith("Iterator::zip") and len(a[2]) == 2 and \
        show(a[2][0]) == "model::voice::window::Windows::iter(windows)" and show(_strip_iter(a[2][1])) == "parameters"


def _symbolise(e):
    """name the iterator items of calc_wuw_and_wum: T (frame), E = (window index, window),
    O = outer tap (WindowIndex, coefficient) of E.1 from index 0, IN = inner tap from index(O)"""
    from ..loops import rewrite

    params = {}

    def f(n):
        # zipped form `for (window, row) in windows.iter().zip(&parameters)`: the pair is read as
        # the enumerate form - window = E.1, row[k] = parameters[E.0][k] (zip pairs both from the
        # start, in order)
        if n == ("field", ("sym", "EZ"), "0"):
            return ("field", ("sym", "E"), "1")
        if n[0] == "idx" and n[1] == ("field", ("sym", "EZ"), "1") and "p" in params:
            return ("idx", ("idx", params["p"], ("field", ("sym", "E"), "0")), n[2])
        c = _item_of(n)
        if c is None:
            return None
        nm, a = c[1], c[2][0]
        if "Enumerate" in nm and a[0] == "call" and a[1].endswith("Iterator::enumerate") and show(a[2][0]) == "model::voice::window::Windows::iter(windows)":
            return ("sym", "E")
        if _is_window_zip(c):
            params["p"] = _strip_iter(a[2][1])
            return ("sym", "EZ")
        if a[0] == "call" and a[1].endswith("Window::iter_rev") and len(a[2]) == 2:
            w, s = a[2]
            if w == ("field", ("sym", "E"), "1"):
                if s[0] == "c" and s[1] == 0:
                    return ("sym", "O")
                if s[0] == "call" and s[1].endswith("WindowIndex::index") and s[2][0] == ("field", ("sym", "O"), "0"):
                    return ("sym", "IN")
        lv = loop_var_parts(n)
        if lv and lv[0] == "up" and show(lv[1]) == "0" and show(lv[2]) == "len(parameters[0])":
            return ("sym", "T")
        return None
    return rewrite(e, f)


def check_assembly(ctx, p):
    ctx.rule("C05-R6", "assembly of the normal equations in calc_wuw_and_wum: wum[t] += w_i(o) * ivar_i[t - pos(o)] * mean_i[t - pos(o)] and wuw[t][idx(o') - idx(o)] += w_i(o) * ivar_i[t - pos(o)] * w_i(o') for every window i, every tap o and every tap o' at or after o, under 0 <= t - pos(o) < length and t + (idx(o') - idx(o)) < length; iter_rev yields (WindowIndex(start + k, width), coefficients[start + k]); position = index - width/2")
    fn = M + "calc_wuw_and_wum"
    b = cm.body_or_fail(ctx, p, "C05-R6", fn)
    if b is None:
        return
    eb = ExprBuilder(b)
    T, POS, IO, II, CO, CI, L = (Poly.atom((x,)) for x in ("T", "POS", "IDXO", "IDXI", "CO", "CI", "L"))
    SO, SI, SE = ("sym", "O"), ("sym", "IN"), ("sym", "E")

    def atomize(e):
        if e == ("sym", "T"):
            return ("T",)
        if e[0] == "call" and e[1].endswith("WindowIndex::position") and e[2][0] == ("field", SO, "0"):
            return ("POS",)
        if e[0] == "call" and e[1].endswith("WindowIndex::index") and e[2][0] == ("field", SO, "0"):
            return ("IDXO",)
        if e[0] == "call" and e[1].endswith("WindowIndex::index") and e[2][0] == ("field", SI, "0"):
            return ("IDXI",)
        if e == ("field", SO, "1"):
            return ("CO",)
        if e == ("field", SI, "1"):
            return ("CI",)
        if e[0] == "len" and show(e[1]) == "parameters[0]":
            return ("L",)
        # parameters[E.0][k].c
        if e[0] == "field" and e[2] in ("0", "1") and e[1][0] == "idx" and e[1][1][0] == "idx" and show(e[1][1][1]) == "parameters" and e[1][1][2] == ("field", SE, "0"):
            return ("P", to_poly(e[1][2], atomize).key(), e[2])
        return None
    from ..expr import to_poly
    k = T - POS
    kkey = k.key()
    sts = stores(b, eb)
    ctx.anchor("C05-R6", "stores in calc_wuw_and_wum", len(sts), 2, b.loc())
    seen = set()
    for bb, i, st, tgt, root, chain, val in sts:
        loc = cm.loc_of(st["span"])
        tg, vl = _symbolise(tgt), _symbolise(val)
        gl = [(g[0], _symbolise(g[1])) for g in paths.guards(b, bb, eb) if len(g) > 1 and isinstance(g[1], tuple)]
        if not (vl[0] == "bin" and vl[1] == "Add" and vl[2] == tg):
            ctx.fail("C05-R6", fn, "store form", "an assembly store is not an accumulation `x += term`: %s" % show(vl)[:160], loc)
            continue
        term = to_poly(vl[3], atomize)
        is_vec = tg[0] == "idx" and tg[1][0] != "idx"
        row = to_poly(tg[2] if is_vec else tg[1][2], atomize)
        # loops and bounds that must enclose the store
        need = {"t-loop": False, "windows": False, "outer taps": False, "k>=0": False, "k<len": False}
        extra = []
        inner_need = {"inner taps": False, "t+j<len": False}
        for kind, ge in gl:
            c = ge
            if kind == "some" and c[0] == "call" and "Range" in c[1] and show(c[2][0]) == "std::ops::Range::Range{start: 0, end: len(parameters[0])}":
                need["t-loop"] = True
            elif kind == "some" and c[0] == "call" and "Enumerate" in c[1] and show(c[2][0]) == "std::iter::Iterator::enumerate(model::voice::window::Windows::iter(windows))":
                need["windows"] = True
            elif kind == "some" and _is_window_zip(c):
                need["windows"] = True
            elif kind == "some" and c[0] == "call" and c[2][0][0] == "call" and c[2][0][1].endswith("Window::iter_rev") and c[2][0][2][0] == ("field", SE, "1"):
                s = c[2][0][2][1]
                if s[0] == "c" and s[1] == 0:
                    need["outer taps"] = True
                elif to_poly(s, atomize) == IO:
                    inner_need["inner taps"] = True
                else:
                    extra.append((kind, show(c)[:80]))
            elif kind in ("true", "false") and c[0] == "bin":
                pos = kind == "true"
                a_, b_ = to_poly(c[2], atomize), to_poly(c[3], atomize)
                op = c[1]
                if a_ in (CO, CI) and b_ == Poly.const(0) and ((op == "Eq" and not pos) or (op == "Ne" and pos)):
                    continue  # skipping zero coefficients changes nothing
                if a_ == k and b_ == Poly.const(0) and ((op == "Lt" and not pos) or (op == "Ge" and pos)):
                    need["k>=0"] = True
                elif a_ == k and b_ == L and ((op == "Ge" and not pos) or (op == "Lt" and pos)):
                    need["k<len"] = True
                elif a_ == T + II - IO and b_ == L and ((op == "Ge" and not pos) or (op == "Lt" and pos)):
                    inner_need["t+j<len"] = True
                else:
                    extra.append((kind, show(c)[:80]))
            else:
                extra.append((kind, show(c)[:80]))
        PV = Poly.atom(("P", kkey, "1"))
        PM = Poly.atom(("P", kkey, "0"))
        if is_vec:
            want, name = CO * PV * PM, "wum[t] += w(o) * ivar[t - pos(o)] * mean[t - pos(o)]"
            okshape = row == T
            missing = [n for n, v in need.items() if not v]
        else:
            want, name = CO * PV * CI, "wuw[t][idx(o') - idx(o)] += w(o) * ivar[t - pos(o)] * w(o')"
            col = to_poly(tg[2], atomize)
            okshape = row == T and col == II - IO
            missing = [n for n, v in list(need.items()) + list(inner_need.items()) if not v]
        # "for every tap": past its last dominating test the accumulation cannot be skipped - a
        # skip written as `a && b` (or any other merge) leaves no dominating guard, so this is a
        # path question: from the target of that last test, the way back to the tap loop's
        # `next()` test must pass the store (seed C05j: `if i != 0 && mean == 0.0 { continue }`)
        skippable = None
        raw = [r for r in b.guards(bb)]
        if raw:
            dom_ = b.dominators()
            last = max(raw, key=lambda r: len(dom_.get(r[0], ())))
            lsb, lterm, lval = last
            if isinstance(lval, tuple) and lval and lval[0] == "not":
                ltg = lterm.get("otherwise")
            else:
                ltg = next((tg for v_, tg in lterm.get("targets", []) if v_ == lval), lterm.get("otherwise"))
            # the innermost tap loop: the deepest `some` guard on an iter_rev item
            heads = [r[0] for r, g_ in zip(raw, gl) if g_[0] == "some" and g_[1][0] == "call" and g_[1][2] and g_[1][2][0][0] == "call" and g_[1][2][0][1].endswith("Window::iter_rev")]
            if heads and ltg is not None:
                head = max(heads, key=lambda x: len(dom_.get(x, ())))
                if head != lsb and b.can_reach(ltg, head, avoid={bb}):
                    skippable = cm.loc_of(lterm.get("span") or st["span"])
        if skippable is not None:
            ctx.fail("C05-R6", fn, ("wum" if is_vec else "wuw") + " accumulation skipped", "after its last dominating test the accumulation into %s can still be skipped (a further condition joined with && / || or a merged branch): a tap that has to contribute is left out" % ("wum" if is_vec else "wuw"), loc)
            continue
        if term == want and okshape and not missing and not extra:
            seen.add("wum" if is_vec else "wuw")
            ctx.ok("C05-R6", name + "  (window i = enumerate index; guards: every frame, window and tap; 0 <= t - pos(o) < length%s)" % ("" if is_vec else "; t + j < length"), loc)
        else:
            ctx.fail("C05-R6", fn, "wum term" if is_vec else "wuw term",
                     "expected %s; term matches=%s, target index matches=%s, missing enclosing loops/bounds=%s, unexpected guards=%s" % (name, term == want, okshape, missing, extra), loc)
    if seen != {"wum", "wuw"}:
        ctx.fail("C05-R6", fn, "store set", "expected one accumulation into wum and one into wuw; recognised %s" % sorted(seen), b.loc())
    # the iterator and index semantics the formulas rely on
    pos_b = cm.body_or_fail(ctx, p, "C05-R6", "model::voice::window::WindowIndex::position")
    if pos_b is not None:
        r = show(ExprBuilder(pos_b).local(0))
        if r == "Sub((self.index as isize), (Div(self.width, 2) as isize))":
            ctx.ok("C05-R6", "WindowIndex::position = index - width/2", pos_b.loc())
        else:
            ctx.fail("C05-R6", pos_b.path, "position", "position = %s, expected index - width/2" % r, pos_b.loc())
    idx_b = cm.body_or_fail(ctx, p, "C05-R6", "model::voice::window::WindowIndex::index")
    if idx_b is not None:
        r = show(ExprBuilder(idx_b).local(0))
        if r == "self.index":
            ctx.ok("C05-R6", "WindowIndex::index = the stored index", idx_b.loc())
        else:
            ctx.fail("C05-R6", idx_b.path, "index", "index() = %s" % r, idx_b.loc())
    ir = cm.body_or_fail(ctx, p, "C05-R6", "model::voice::window::Window::iter_rev")
    if ir is not None:
        from ..expr import resolve_upvars
        from ..loops import rewrite
        r = ExprBuilder(ir).local(0)
        txt = show(r)
        # the (start, width) pair may travel with the items as `zip(repeat((start, width)))` or be
        # captured by a `move` closure: both are resolved to the values themselves
        rep = None
        for x in walk(r):
            if x[0] == "call" and x[1].endswith("iter::repeat") and x[2] and x[2][0][0] == "agg" and len(x[2][0][2]) == 2:
                rep = x[2][0][2]
        zipped = rep is not None and "Iterator::zip(" in txt
        item = ("field", ("arg", 2, None), "0") if zipped else ("arg", 2, None)
        okc = False
        seen_cl = None
        for cl in [x for x in walk(r) if x[0] == "agg" and x[1].startswith("closure:")]:
            cb = p.bodies.get(cl[1][len("closure:"):])
            if cb is None:
                continue
            cr = resolve_upvars(p, cb, ExprBuilder(cb).local(0))

            def f(n):
                # own parameter (tuple pattern): arg2 ; zipped pair: arg2.1.0 / arg2.1.1 -> repeat values
                if zipped and n[0] == "field" and n[1][0] == "field" and n[1][1][0] == "arg" and n[1][1][1] == 2 and n[1][2] == "1" and n[2] in ("0", "1"):
                    return rep[int(n[2])]
                return None
            cr = rewrite(cr, f)
            seen_cl = show(cr)[:200]

            def is_item(e, k):
                base = e[1] if e[0] == "field" and e[2] == k else None
                if base is None:
                    return False
                if zipped:
                    return base[0] == "field" and base[2] == "0" and base[1][0] == "arg" and base[1][1] == 2
                return base[0] == "arg" and base[1] == 2
            if cr[0] == "agg" and len(cr[2]) == 2 and cr[2][0][0] == "call" and cr[2][0][1].endswith("WindowIndex::new"):
                a0, a1 = cr[2][0][2]
                parts = [a0[2], a0[3]] if a0[0] == "bin" and a0[1] == "Add" else []
                has_start = any(x[0] == "arg" and show(x) == "start" for x in parts)
                has_idx = any(is_item(x, "0") for x in parts)
                w_ok = show(a1) in ("model::voice::window::Window::width(self)", "len(self.coefficients)")
                if has_start and has_idx and w_ok and is_item(cr[2][1], "1"):
                    okc = True
        chain_ok = ("Iterator::enumerate(" in txt and "self.coefficients" in txt and "RangeFrom{start: start}" in txt and
                    not any(s_ in txt for s_ in ("::skip(", "::take(", "::filter(", "::step_by(")))
        if okc and chain_ok:
            ctx.ok("C05-R6", "iter_rev(start) yields (WindowIndex(start + k, width), coefficients[start + k]) for every k (order irrelevant to the sums)", ir.loc())
        else:
            ctx.fail("C05-R6", ir.path, "tap iterator", "iter_rev no longer pairs coefficient start+k with WindowIndex(start+k, width) over all of coefficients[start..]: closure ok=%s (%s), chain ok=%s (%s)" % (okc, seen_cl, chain_ok, txt[:160]), ir.loc())
    wd = cm.body_or_fail(ctx, p, "C05-R6", "model::voice::window::Window::width")
    if wd is not None:
        r = show(ExprBuilder(wd).local(0))
        if r == "len(self.coefficients)":
            ctx.ok("C05-R6", "Window::width = coefficients.len()", wd.loc())
        else:
            ctx.fail("C05-R6", wd.path, "width", "width() = %s" % r, wd.loc())
