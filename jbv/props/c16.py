"""C16 - Volume is a pure gain in decibels."""
import math
from fractions import Fraction

from ..expr import ExprBuilder, to_poly, Poly, show, stores, root_of, walk, canon, mut_arg_calls
from ..taint import Taint
from . import common as cm

LN10_20 = math.log(10.0) / 20.0


def ulps(a, b):
    if a == b:
        return 0
    return abs(a - b) / (abs(b) * 2.0 ** -52)


def loglinear(e):
    """(a, base_expr) such that ln(e) = a * base for e = exp(a*v) or c^(v/k); else None"""
    if e[0] != "call":
        return None
    if e[1] == "f64::exp":
        return to_poly(e[2][0])
    if e[1] == "f64::powf" and e[2][0][0] == "c":
        c = float(e[2][0][1])
        if c > 0:
            return to_poly(e[2][1]) * Poly.const(Fraction(math.log(c)))
    if e[1] == "f64::exp2":
        return to_poly(e[2][0]) * Poly.const(Fraction(math.log(2.0)))
    return None


def is_output_place(tn, b, pl):
    """the stored-to place lies inside the output buffer: every points-to target of the place is
    the `rawdata` parameter (or the captured `rawdata` of a closure of synthesize)"""
    tgs = tn._targets(pl)
    if not tgs or not any(e["k"] == "deref" for e in pl["proj"]):
        return False
    for (l, f) in tgs:
        if b.kind == "Closure":
            if not (l == 1 and (f or "").lstrip("*") == "rawdata"):
                return False
        else:
            if not (1 <= l <= b.argc and b.local_name(l) == "rawdata"):
                return False
    return True


def volume_reads(p):
    """every read of Vocoder::volume in the crate: (body, 'field'|'upvar')"""
    out = []
    for path, b in p.bodies.items():
        if b.is_derived():
            continue
        txt = None
        hit = False
        for bb, blk in enumerate(b.blocks):
            if blk["cleanup"]:
                continue
            js = blk  # search projections
            s = repr(js)
            if "'name': 'volume', 'of': 'vocoder::Vocoder'" in s:
                hit = "field"
            if "self.volume'" in s and b.kind == "Closure" and (b.parent or "").startswith("vocoder::Vocoder::"):
                hit = hit or "upvar"
        if hit:
            out.append((b, hit))
    return out


def run(ctx):
    ctx.rule("C16-R1", "set_volume/get_volume are an inverse pair: ln(stored) = a*v with a = ln10/20 and no offset; get = g*ln(field) with g*a = 1")
    ctx.rule("C16-R2", "Vocoder::volume is read only where an output sample is formed; the sample is x*volume with x independent of volume; volume reaches no filter/excitation/coefficients state (both filter families)")
    ctx.rule("C16-R3", "plumbing: Condition::volume is written only by set_volume and default; it is the Vocoder::new argument stored in Vocoder::volume")
    p = cm.program(ctx)

    # ---- R1
    a_coeff = None
    b = cm.body_or_fail(ctx, p, "C16-R1", "engine::Condition::set_volume")
    if b is not None:
        eb = ExprBuilder(b)
        sts = [s for s in stores(b, eb) if s[4][0] == "arg" and s[4][1] == 1]
        if len(sts) != 1 or sts[0][5] != ["volume"]:
            ctx.fail("C16-R1", b.path, "stores", "expected a single store into self.volume, found %s" % [s[5] for s in sts], b.loc())
        else:
            val = sts[0][6]
            ll = loglinear(val)
            varg = ("arg", b.local_name(2) or 2)
            if ll is None:
                ctx.fail("C16-R1", b.path, "stored value", "stored value %s is not of the form exp(a*v) / c^(v/k)" % show(val), b.loc())
            else:
                terms = ll.t
                mono = ((varg, 1),)
                if set(terms) != {mono}:
                    ctx.fail("C16-R1", b.path, "stored value", "ln(stored) = %s is not a*v with no offset" % ll, b.loc())
                else:
                    a_coeff = float(terms[mono])
                    u = ulps(a_coeff, LN10_20)
                    if u <= 2:
                        ctx.ok("C16-R1", "set_volume: ln(stored) = %.17g * v; ln10/20 = %.17g (%.1f ulp)" % (a_coeff, LN10_20, u), b.loc())
                    else:
                        ctx.fail("C16-R1", b.path, "dB constant", "ln(stored) = %.17g * v but ln10/20 = %.17g (%.3g ulp apart): v dB would not be 10^(v/20)" % (a_coeff, LN10_20, u), b.loc())
    b = cm.body_or_fail(ctx, p, "C16-R1", "engine::Condition::get_volume")
    if b is not None and a_coeff is not None:
        eb = ExprBuilder(b)
        ret = eb.local(0)
        pol = to_poly(ret)
        # expect g * ln(self.volume)
        ok = False
        if len(pol.t) == 1:
            (mono, g), = pol.t.items()
            if len(mono) == 1 and mono[0][1] == 1:
                atom = mono[0][0]
                lnname = atom[1] if atom[0] == "call" else None
                if lnname in ("f64::ln", "f64::log10", "f64::log2"):
                    scale = {"f64::ln": 1.0, "f64::log10": 1 / math.log(10.0), "f64::log2": 1 / math.log(2.0)}[lnname]
                    inner = atom[2][0]
                    # inner is a poly key of self.volume
                    want = to_poly(("field", ("arg", 1, "self"), "volume")).key()
                    if inner == want:
                        prod = float(g) * scale * a_coeff
                        if abs(prod - 1.0) <= 4 * 2.0 ** -52:
                            ok = True
                            ctx.ok("C16-R1", "get_volume = %.17g * ln(self.volume); g*a = %.17g" % (float(g) * scale, prod), b.loc())
                        else:
                            ctx.fail("C16-R1", b.path, "return value", "get_volume = %.17g*ln(volume) is not the inverse of set_volume (g*a = %.17g != 1)" % (float(g) * scale, prod), b.loc())
                            ok = True
        if not ok:
            ctx.fail("C16-R1", b.path, "return value", "get_volume returns %s, expected g*ln(self.volume)" % show(ret), b.loc())

    # ---- R2
    reads = volume_reads(p)
    state = {"sample_stores": 0}

    def vol_atomize(e):
        if e[0] == "upvar" and e[1].lstrip("*") == "self.volume":
            return ("VOL",)
        if e[0] == "field" and e[2] == "volume":
            return ("VOL",)
        return None

    judged = set()

    def judge(tn, top):
        """inspect one taint result (a body or a closure body)"""
        b = tn.b
        sig = (b.path, tuple(sorted(map(str, tn.T))))
        if sig in judged:
            return
        judged.add(sig)
        eb = ExprBuilder(b)
        for k, bb, item in tn.uses():
            if k == "assign":
                st = item
                if not st["place"]["proj"]:
                    continue  # temporaries; judged where they are stored / passed / branched on
                tgt = eb.place(st["place"])
                root, chain = root_of(tgt)
                val = eb.rvalue(st["rv"])
                is_out = (root[0] == "upvar" and root[1].lstrip("*") == "rawdata") or (root[0] == "arg" and (root[2] or "") == "rawdata") \
                    or is_output_place(tn, b, st["place"])
                if not is_out:
                    ctx.fail("C16-R2", b.path, "store " + show(tgt)[:80], "volume flows into a store other than the output buffer: %s = %s" % (show(tgt)[:120], show(val)[:160]), cm.loc_of(st["span"]))
                    continue
                continue  # output-buffer stores are judged exhaustively below
            elif k == "callarg":
                t = item
                nm = cm.callee_name(t["callee"]) if t["callee"]["k"] == "fndef" else "indirect call"
                ctx.fail("C16-R2", b.path, "call " + nm, "a volume-dependent value is passed to a call: it could reach filter/excitation state", cm.loc_of(t["span"]))
            elif k == "switch":
                ctx.fail("C16-R2", b.path, "branch", "control flow depends on volume", cm.loc_of(item["span"]))
        # no field of self may become volume-dependent
        if top:
            for (l, f) in sorted(tn.T, key=str):
                if l == 1 and f not in (None, "volume"):
                    ctx.fail("C16-R2", b.path, "self." + str(f), "vocoder state `%s` becomes volume-dependent" % f, b.loc())
                if l == 1 and f is None:
                    ctx.fail("C16-R2", b.path, "self", "the whole vocoder becomes volume-dependent", b.loc())
        for sub in tn.closure_subs():
            judge(sub, False)

    for b, kind in reads:
        if b.path == "vocoder::Vocoder::new" or kind == "upvar":
            continue  # closures are analysed from their constructing body
        tn = Taint(b, is_source_place=lambda pl, ex: any(
            e["k"] == "field" and e.get("name") == "volume" and e.get("of") == "vocoder::Vocoder" for e in pl["proj"]), program=p)
        judge(tn, True)
        ctx.sample({"body": b.path, "tainted_locations": sorted(map(str, tn.T))[:20]})
    # every store into the output buffer, in synthesize and its closures, is (volume-free) * volume
    syn = "vocoder::Vocoder::synthesize"
    for b in [p.bodies[x] for x in sorted(p.bodies) if x == syn or x.startswith(syn + "::")]:
        eb = ExprBuilder(b)
        tn0 = Taint(b, program=p)
        for bb, i, st, tgt, root, chain, val in stores(b, eb):
            is_out = (root[0] == "upvar" and root[1].lstrip("*") == "rawdata") or (root[0] == "arg" and (root[2] or "") == "rawdata") \
                or is_output_place(tn0, b, st["place"])
            if not is_out:
                continue
            pol = to_poly(val, vol_atomize)
            good = bool(pol.t) and all(sum(ex for at, ex in mono if at == ("VOL",)) == 1 for mono in pol.t)
            if good:
                state["sample_stores"] += 1
                ctx.ok("C16-R2", "%s: output sample = %s (degree exactly 1 in volume in every term)" % (b.path, show(val)), cm.loc_of(st["span"]))
            else:
                ctx.fail("C16-R2", b.path, "output sample", "output sample %s is not (volume-independent value) * volume" % show(val), cm.loc_of(st["span"]))
        for cbb, t, cname, k, ref in mut_arg_calls(b, eb):
            r, ch = root_of(ref)
            is_out = (r[0] == "upvar" and r[1].lstrip("*") == "rawdata") or (r[0] == "arg" and (r[2] or "") == "rawdata")
            if is_out and "index_mut" not in cname and not cname.endswith("for_each"):
                ctx.fail("C16-R2", b.path, "call " + cname, "the output buffer is written by a callee that bypasses the volume gain", cm.loc_of(t["span"]))
    sample_stores = state["sample_stores"]
    ctx.anchor("C16-R2", "output-sample stores scaled by volume (one per filter family)", sample_stores, 2)

    # ---- R3
    b = cm.body_or_fail(ctx, p, "C16-R3", "vocoder::Vocoder::new")
    vol_param = None
    if b is not None:
        ret = ExprBuilder(b).local(0)
        if ret[0] == "agg" and "volume" in ret[3]:
            v = ret[2][ret[3].index("volume")]
            if v[0] == "arg":
                vol_param = v[1]
                ctx.ok("C16-R3", "Vocoder::new stores parameter #%d (%s) in field volume" % (v[1], v[2]), b.loc())
            else:
                ctx.fail("C16-R3", b.path, "field volume", "Vocoder::volume is initialised with %s, not a parameter" % show(v), b.loc())
    g = cm.body_or_fail(ctx, p, "C16-R3", "engine::Engine::generator")
    if g is not None and vol_param is not None:
        eb = ExprBuilder(g)
        calls = cm.local_calls(g, p, exact="vocoder::Vocoder::new")
        if len(calls) != 1:
            ctx.fail("C16-R3", g.path, "call Vocoder::new", "expected exactly one call, found %d" % len(calls), g.loc())
        else:
            bb, t = calls[0]
            a = eb.op(t["args"][vol_param - 1])
            root, chain = root_of(a)
            if root[0] == "arg" and root[1] == 1 and chain == ["condition", "volume"]:
                ctx.ok("C16-R3", "Engine::generator passes self.condition.volume as the volume argument", cm.loc_of(t["span"]))
            else:
                ctx.fail("C16-R3", g.path, "Vocoder::new volume argument", "the volume parameter receives %s, expected self.condition.volume" % show(a), cm.loc_of(t["span"]))
    # writers of Condition::volume
    writers = []
    for path, bd in p.bodies.items():
        if bd.is_derived():
            continue
        for bb, i, st in bd.iter_stmts():
            if st["k"] == "assign":
                for e in st["place"]["proj"]:
                    if e["k"] == "field" and e.get("name") == "volume" and e.get("of") == "engine::Condition":
                        writers.append(path)
                if st["rv"]["k"] == "aggregate" and st["rv"]["kind"].get("def") == "engine::Condition":
                    writers.append(path)
    allowed = {"engine::Condition::set_volume", "<engine::Condition as std::default::Default>::default"}
    extra = sorted(set(writers) - allowed)
    if extra:
        for w in extra:
            ctx.fail("C16-R3", w, "store Condition::volume", "Condition::volume is written outside set_volume/default", p.bodies[w].loc())
    else:
        ctx.ok("C16-R3", "Condition::volume written only by %s" % sorted(set(writers)))
    # volume unused elsewhere in K (Vocoder.volume field is private; reads enumerated above)
    ctx.units["volume_read_sites"] = [bd.path for bd, _ in reads]

    ctx.assume("x (the filter output) is independent of volume: established by R2's taint pass (volume reaches no other store, call or branch)")
    expl = ("D-poly normal form of the stored volume (log-linear form, slope compared with ln10/20 to 2 ulp) and of the getter "
            "(inverse slope); forward taint from every read of Vocoder::volume: the only sinks are the two output-sample stores, "
            "each of degree exactly one in volume; parameter->field plumbing from Condition::volume to Vocoder::volume.")
    return expl, ["rustc MIR", "f64::exp/ln are inverse functions (std)"]
