"""C14 (energy clause, structural part): what `b2en` measures.

The postfilter shifts order 0 by ln(e1/e2)/2 with e = b2en(b, alpha); the clause "the energy of
the filter's impulse response stays the same" therefore holds only if b2en *is* that energy:
    b2en(b) = sum ir[n]^2,  ir = c2ir(freqt(b2mc(b, alpha), N-1, -alpha), N)
with freqt the frequency-transformation recursion (Oppenheim), which must be fed the input
cepstrum from its highest order down to order 0:
    for c_in in c[m], c[m-1], .., c[0]:
        d[0] = g[0];  g[0] = c_in + a*g[0]
        d[1] = g[1];  g[1] = (1-a^2)*d[0] + a*g[1]
        d[j] = g[j];  g[j] = d[j-1] + a*(g[j] - g[j-1])        j = 2..=m2     (g starts at zero)
and c2ir the cepstrum -> impulse response recursion
    h[0] = exp(c[0]);  h[n] = (sum_{k=1}^{min(len, n+1)-1} k*c[k]*h[n-k]) / n.
(Feeding freqt in ascending order computes the transform of the reversed cepstrum: this was a
genuine defect of the pinned tree, repaired by /repo 7441ce5.)
"""
from ..expr import ExprBuilder, show, stores, Poly, to_poly
from ..loops import LoopSyms, loop_var_parts, factors
from .. import paths
from . import common as cm
from .c05_solver import _guard_lvs, _single_lv

FREQT = "vocoder::cepstrum::CepstrumT::freqt"
C2IR = "vocoder::cepstrum::CepstrumT::c2ir"
B2EN = "vocoder::coefficients::CoefficientsT::b2en"


def _is_self(e):
    return e[0] == "arg" and e[1] == 1


def _before(b, a, c):
    """program point a = (bb, i) strictly precedes c on every path to c"""
    (ab, ai), (cb, ci) = a, c
    if ab == cb:
        return ai < ci
    return ab in b.dominators().get(cb, ())


def check(ctx, p):
    ctx.rule("C14-R4", "freqt is the frequency-transformation recursion fed from the highest input order down to order 0, on a zero-initialised output: g0 = c_in + a*g0; g1 = (1-a^2)*d0 + a*g1; gj = d[j-1] + a*(gj - g[j-1]) for j in 2..len; d[k] saved before g[k] is overwritten")
    ctx.rule("C14-R5", "b2en = sum of squares of c2ir(freqt(b2mc(b, alpha), N-1, -alpha), N); c2ir: h0 = exp(c0), h[n] = (sum_{k=1..min(len, n+1)} k*c[k]*h[n-k]) / n")
    one, zero = Poly.const(1), Poly.const(0)

    b = cm.body_or_fail(ctx, p, "C14-R4", FREQT)
    if b is not None:
        eb = ExprBuilder(b)
        ret = eb.local(0)
        G = ret if ret[0] == "call" and ret[1].endswith("clone_with_size") else None
        if G is None:
            ctx.fail("C14-R4", FREQT, "output buffer", "freqt does not return a buffer made by clone_with_size: %s" % show(ret)[:120], b.loc())
        else:
            if show(G[2][1]) in ("Add(m2, 1)", "Add(1, m2)"):
                ctx.ok("C14-R4", "the output has m2 + 1 coefficients", b.loc())
            else:
                ctx.fail("C14-R4", FREQT, "output size", "the output buffer has %s coefficients, expected m2 + 1" % show(G[2][1]), b.loc())

            def atomize(e):
                if e[0] == "len" and e[1] == G:
                    return ("sym", "LG")
                if e[0] == "len" and _is_self(e[1]):
                    return ("sym", "LS")
                if e[0] == "arg" and e[2] == "alpha":
                    return ("sym", "a")
                return None
            syms = LoopSyms(atomize)
            LS, LG, a = (Poly.atom(("sym", x)) for x in ("LS", "LG", "a"))
            sts = stores(b, eb)
            ctx.anchor("C14-R4", "stores in freqt", len(sts), 6, b.loc())
            D = None
            recs = {}
            saves = {}
            n_in = None
            for bb, i, st, tgt, root, chain, val in sts:
                loc = cm.loc_of(st["span"])
                if tgt[0] != "idx":
                    ctx.fail("C14-R4", FREQT, "store " + show(tgt)[:40], "unexpected store to %s" % show(tgt)[:120], loc)
                    continue
                k = syms.poly(tgt[2])
                some, none, other = _guard_lvs(b, bb, eb, syms)
                if tgt[1] != G:
                    # save d[k] = g[k]
                    if val[0] == "idx" and val[1] == G and syms.poly(val[2]) == k and (D is None or D == tgt[1]):
                        D = tgt[1]
                        saves[str(k)] = (bb, i)
                    else:
                        ctx.fail("C14-R4", FREQT, "store " + show(tgt)[:40], "unexpected store %s = %s (expected the save d[k] = g[k])" % (show(tgt)[:80], show(val)[:120]), loc)
                    continue
                recs[str(k)] = (bb, i, k, val, some, loc)
            # evaluate each recurrence as a polynomial over g[.], d[.], input
            for key, (bb, i, k, val, some, loc) in sorted(recs.items()):
                ins = []

                def at2(e, k=k):
                    r = atomize(e)
                    if r is not None:
                        return r
                    lv = syms.atomize(e)
                    if lv is not None:
                        return lv
                    if e[0] == "idx" and e[1] == G:
                        return ("g", syms.poly(e[2]) - k)
                    if D is not None and e[0] == "idx" and e[1] == D:
                        return ("d", syms.poly(e[2]) - k)
                    if e[0] == "idx" and _is_self(e[1]):
                        ins.append(e[2])
                        return ("in",)
                    # iterator form: `for &c in self.iter().rev()` - the item of an iterator over self
                    if e[0] == "field" and e[2] == "0" and e[1][0] == "variant" and e[1][2] == "Some" and e[1][1][0] == "call" and e[1][1][1].endswith("::next"):
                        it = e[1][1][2][0]
                        if it[0] == "call" and it[1].endswith("Iterator::rev") and _is_self(it[2][0]):
                            ins.append(("iter", "down"))
                            return ("in",)
                        if _is_self(it):
                            ins.append(("iter", "up"))
                            return ("in",)
                    return None
                pol = to_poly(val, at2)
                g = lambda o: Poly.atom(("g", Poly.const(o)))
                d = lambda o: Poly.atom(("d", Poly.const(o)))
                if k == zero:
                    want = Poly.atom(("in",)) + a * g(0)
                    name = "g0 = c_in + a*g0"
                elif k == one:
                    want = (one - a * a) * d(-1) + a * g(0)
                    name = "g1 = (1 - a^2)*d0 + a*g1"
                else:
                    J = _single_lv(k)
                    ji = syms.info.get(J) if J is not None else None
                    if ji is None or ji["dir"] != "up" or ji["start"] != Poly.const(2) or ji["end"] != frozenset([LG]) or J not in some:
                        ctx.fail("C14-R4", FREQT, "index g[%s]" % k, "g[%s] is updated; expected indices 0, 1 and j in 2..len(g)" % k, loc)
                        continue
                    want = d(-1) + a * (g(0) - g(-1))
                    name = "g[j] = d[j-1] + a*(g[j] - g[j-1]), j in 2..len(g)"
                if pol == want:
                    ctx.ok("C14-R4", name, loc)
                else:
                    ctx.fail("C14-R4", FREQT, "recurrence g[%s]" % k, "g[%s] = %s, expected %s" % (k, pol, name), loc)
                if ins:
                    n_in = (ins[0], some)
                sv = saves.get(key)
                if sv is None or not _before(b, sv, (bb, i)):
                    ctx.fail("C14-R4", FREQT, "save d[%s]" % k, "the old g[%s] is not saved into d[%s] before it is overwritten" % (k, k), loc)
            if set(recs) >= {str(zero), str(one)} and len(recs) == 3:
                o0, o1 = recs[str(zero)], recs[str(one)]
                oj = [v for kk, v in recs.items() if kk not in (str(zero), str(one))][0]
                # outermost loop containing all three updates = the per-input step
                hdrs = [h for h, body in b.natural_loops() if {o0[0], o1[0], oj[0]} <= body]
                hdr = max(hdrs, key=lambda h: len(dict(b.natural_loops())[h])) if hdrs else None

                def seq(x, y):
                    if x[0] == y[0]:
                        return x[1] < y[1]
                    av = (hdr,) if hdr is not None else ()
                    return b.can_reach(x[0], y[0], avoid=av) and not b.can_reach(y[0], x[0], avoid=av)
                if hdr is not None and seq(o0, o1) and seq(o1, oj) and seq(o0, oj):
                    ctx.ok("C14-R4", "per input coefficient the updates run in the order g0, g1, g2.. (g[j-1] read by g[j] is the new value)", b.loc())
                else:
                    ctx.fail("C14-R4", FREQT, "update order", "g0, g1, g[j] are not updated in ascending order within one step", b.loc())
            else:
                ctx.fail("C14-R4", FREQT, "recurrence set", "expected updates of g[0], g[1] and g[j]; found %s" % sorted(recs), b.loc())
            # input order
            if n_in is None:
                ctx.fail("C14-R4", FREQT, "input", "no read of the input cepstrum feeds g[0]", b.loc())
            else:
                idx, some = n_in
                if isinstance(idx, tuple) and idx and idx[0] == "iter":
                    if idx[1] == "down":
                        ctx.ok("C14-R4", "the input is consumed from order len-1 down to 0 (`self.iter().rev()`)", b.loc())
                    else:
                        ctx.fail("C14-R4", FREQT, "input order", "the recursion is fed by a forward iteration over the input cepstrum: it must be consumed from the highest order down to order 0 (otherwise the transform of the reversed cepstrum is computed)", b.loc())
                    idx = None
                ip = syms.poly(idx) if idx is not None else None
                N = None
                for n in (some if idx is not None else []):
                    inf = syms.info[n]
                    if inf["start"] == zero and inf["end"] == frozenset([LS]):
                        N = n
                if idx is None:
                    pass
                elif N is None:
                    ctx.fail("C14-R4", FREQT, "input loop", "the step loop does not run over 0..len(self)", b.loc())
                else:
                    nv = syms.lv(N)
                    desc = (syms.info[N]["dir"] == "down" and ip == nv) or (syms.info[N]["dir"] == "up" and ip == LS - one - nv)
                    if desc:
                        ctx.ok("C14-R4", "the input is consumed from order len-1 down to 0 (%s loop, index %s)" % (syms.info[N]["dir"], ip), b.loc())
                    else:
                        ctx.fail("C14-R4", FREQT, "input order", "the recursion is fed self[%s] in a loop running %s over 0..len: the input cepstrum must be consumed from the highest order down to order 0 (otherwise the transform of the reversed cepstrum is computed)" % (ip, syms.info[N]["dir"]), b.loc())
        # zero initialisation of the output: every clone_with_size impl builds vec![0.0; size]
        impls = [bd for path, bd in p.bodies.items() if path.endswith("CepstrumT>::clone_with_size")]
        ctx.anchor("C14-R4", "clone_with_size impls", len(impls), 2, b.loc())
        for bd in impls:
            r = ExprBuilder(bd).local(0)
            okz = False
            if r[0] == "agg" and r[3] and "buffer" in r[3]:
                bf = r[2][r[3].index("buffer")]
                okz = bf[0] == "call" and bf[1].endswith("from_elem") and bf[2][0][0] == "c" and float(bf[2][0][1]) == 0.0 and show(bf[2][1]) == "size"
            if okz:
                ctx.ok("C14-R4", "%s: buffer = vec![0.0; size]" % cm.short(bd.path), bd.loc())
            else:
                ctx.fail("C14-R4", bd.path, "zero buffer", "clone_with_size does not return a zero-filled buffer of `size`: %s" % show(r)[:160], bd.loc())

    # ---------------- R5
    b = cm.body_or_fail(ctx, p, "C14-R5", B2EN)
    if b is not None:
        eb = ExprBuilder(b)
        r = eb.local(0)
        ok5 = False
        why = show(r)[:300]
        if r[0] == "call" and r[1].endswith("Iterator::sum") and r[2][0][0] == "call" and r[2][0][1].endswith("Iterator::map"):
            src, clo = r[2][0][2][0], r[2][0][2][1]
            sq = False
            for cb in p.nested(B2EN):
                cr = ExprBuilder(cb).local(0)
                if cr[0] == "bin" and cr[1] == "Mul" and cr[2] == cr[3] and cr[2][0] in ("arg", "var", "field", "idx"):
                    sq = True
            if src[0] == "call" and src[1] == C2IR and sq:
                n_ir = src[2][1]
                fq = src[2][0]
                if fq[0] == "call" and fq[1] == FREQT:
                    mc, m2, al = fq[2]
                    okm = mc[0] == "call" and mc[1].endswith("CoefficientsT::b2mc") and _is_self(mc[2][0]) and show(mc[2][1]) == "alpha"
                    oka = al[0] == "un" and al[1] == "Neg" and show(al[2]) == "alpha"
                    okn = to_poly(m2) + Poly.const(1) == to_poly(n_ir) and to_poly(n_ir).is_const() and to_poly(n_ir).const_value() >= 256
                    if okm and oka and okn:
                        ok5 = True
                    else:
                        why = "b2mc(self, alpha)=%s, warped back with -alpha=%s, transform length + 1 == response length (>= 256)=%s" % (okm, oka, okn)
        if ok5:
            ctx.ok("C14-R5", "b2en = sum(x*x for x in c2ir(freqt(b2mc(self, alpha), N-1, -alpha), N)), N = %s" % show(n_ir), b.loc())
        else:
            ctx.fail("C14-R5", B2EN, "composition", "b2en is not the impulse-response energy: %s" % why, b.loc())
    b = cm.body_or_fail(ctx, p, "C14-R5", C2IR)
    if b is not None:
        named = {}

        def hook(pl, bb):
            l = pl["local"]
            # the running sum, by role: a scalar user variable with several definitions
            if l > b.argc and b.local_name(l) and not pl["proj"] and b.locals[l]["ty"] == "f64" and len([x for x in b.defs().get(l, []) if not b.is_cleanup(x[0])]) > 1:
                return ("var", l, "acc")
            return None
        eb = ExprBuilder(b, place_hook=hook)

        def atomize(e):
            if e[0] == "arg" and e[2] == "len":
                return ("sym", "N")
            if e[0] == "len" and _is_self(e[1]):
                return ("sym", "LS")
            return None
        syms = LoopSyms(atomize)
        Nn, LS = Poly.atom(("sym", "N")), Poly.atom(("sym", "LS"))
        ret = eb.local(0)
        sts = stores(b, eb)
        ctx.anchor("C14-R5", "stores in c2ir", len(sts), 2, b.loc())
        got = {}
        for bb, i, st, tgt, root, chain, val in sts:
            loc = cm.loc_of(st["span"])
            if tgt[0] != "idx" or tgt[1] != ret:
                ctx.fail("C14-R5", C2IR, "store " + show(tgt)[:40], "unexpected store", loc)
                continue
            k = syms.poly(tgt[2])
            if k == zero:
                if val[0] == "call" and val[1] == "f64::exp" and val[2][0][0] == "idx" and _is_self(val[2][0][1]) and syms.poly(val[2][0][2]) == zero:
                    got["h0"] = True
                    ctx.ok("C14-R5", "h[0] = exp(c[0])", loc)
                else:
                    ctx.fail("C14-R5", C2IR, "h[0]", "h[0] = %s, expected exp(c[0])" % show(val)[:100], loc)
                continue
            n = _single_lv(k)
            some, none, other = _guard_lvs(b, bb, eb, syms)
            ni = syms.info.get(n) if n is not None else None
            if ni is None or ni["dir"] != "up" or ni["start"] != one or ni["end"] != frozenset([Nn]) or n not in some:
                ctx.fail("C14-R5", C2IR, "h[n] index", "h[%s] written; expected n in 1..len" % k, loc)
                continue
            # fold form: h[n] = (1..min(len(c), n+1)).fold(0.0, |acc, k| acc + k*c[k]*h[n-k]) / n
            if val[0] == "bin" and val[1] == "Div" and syms.poly(val[3]) == k and val[2][0] == "call" and val[2][1].endswith("::fold") and len(val[2][2]) == 3:
                from ..expr import resolve_upvars
                rg, init_, clo = val[2][2]
                cbf = p.bodies.get(clo[1][len("closure:"):]) if clo[0] == "agg" and clo[1].startswith("closure:") else None
                okf = False
                if cbf is not None and rg[0] == "agg" and rg[1].endswith("Range::Range") and init_[0] == "c" and float(init_[1]) == 0.0:
                    ends = frozenset(syms.min_alts(rg[2][1]))
                    rng_ok = syms.poly(rg[2][0]) == one and ends == frozenset([LS, k + one])
                    r_ = resolve_upvars(p, cbf, ExprBuilder(cbf).local(0))
                    if rng_ok and r_[0] == "bin" and r_[1] == "Add" and r_[2][0] == "arg" and r_[2][1] == 2:
                        fs = factors(r_[3])
                        KK = Poly.atom(("K",))
                        pol_k = lambda e: to_poly(e, lambda x: ("K",) if x[0] == "arg" and x[1] == 3 else syms.atomize(x))
                        pr = {"k": False, "c": False, "h": False}
                        for f in fs:
                            if f[0] == "cast" and pol_k(f) == KK:
                                pr["k"] = True
                            if f[0] == "idx" and (_is_self(f[1]) or show(f[1]) in ("self", "*self")) and pol_k(f[2]) == KK:
                                pr["c"] = True
                            if f[0] == "idx" and not _is_self(f[1]) and pol_k(f[2]) == k - KK:
                                pr["h"] = True
                        okf = all(pr.values()) and len(fs) == 3
                if okf:
                    got["hn"] = True
                    ctx.ok("C14-R5", "h[n] = (fold over k in 1..min(len(c), n+1) of k*c[k]*h[n-k], from 0) / n", loc)
                else:
                    ctx.fail("C14-R5", C2IR, "h[n] value", "h[n] = %s, expected (sum_k k*c[k]*h[n-k]) / n" % show(val)[:120], loc)
                continue
            # value = d / n, d accumulated over k
            if not (val[0] == "bin" and val[1] == "Div" and val[2][0] == "var" and val[2][2] == "acc" and syms.poly(val[3]) == k):
                ctx.fail("C14-R5", C2IR, "h[n] value", "h[n] = %s, expected d / n" % show(val)[:100], loc)
                continue
            dl = val[2][1]
            defs = [x for x in b.defs().get(dl, []) if not b.is_cleanup(x[0])]
            init = acc = None
            for dbb, di, item in defs:
                if di == "term":
                    continue
                from ..loops import enumerate_as_range
                v = enumerate_as_range(eb.at(dbb, di).rvalue(item["rv"]))
                if v[0] == "c" and float(v[1]) == 0.0:
                    init = (dbb, di)
                elif v[0] == "bin" and v[1] == "Add" and v[2][0] == "var" and v[2][1] == dl:
                    fs = factors(v[3])
                    s2, n2, o2 = _guard_lvs(b, dbb, eb, syms)
                    K = None
                    pr = {"k": False, "c": False, "h": False}
                    for f in fs:
                        fp = syms.poly(f) if f[0] in ("cast", "field") else None
                        if fp is not None and _single_lv(fp) is not None:
                            K = _single_lv(fp)
                            pr["k"] = True
                    if K is not None:
                        kv = syms.lv(K)
                        for f in fs:
                            if f[0] == "idx" and _is_self(f[1]) and syms.poly(f[2]) == kv:
                                pr["c"] = True
                            if f[0] == "idx" and f[1] == ret and syms.poly(f[2]) == k - kv:
                                pr["h"] = True
                        ki = syms.info[K]
                        rng = ki["dir"] == "up" and ki["start"] == one and ki["end"] == frozenset([LS, k + one])
                        if all(pr.values()) and len(fs) == 3 and rng and K in s2 and n in s2 and K in none:
                            acc = (dbb, di)
                        else:
                            ctx.fail("C14-R5", C2IR, "sum term", "d += %s with k %s: expected k*c[k]*h[n-k], k in 1..min(len(c), n+1), and the division after the sum" % (show(v[3])[:120], syms.describe(K)), cm.loc_of(item["span"]))
                            acc = False
            if init and acc:
                got["hn"] = True
                ctx.ok("C14-R5", "h[n] = (sum_{k=1..min(len(c), n+1)} k*c[k]*h[n-k]) / n, d reset to 0 per n", loc)
            elif acc is None or not init:
                ctx.fail("C14-R5", C2IR, "accumulator", "the accumulator of h[n] is not `d = 0; d += k*c[k]*h[n-k]`", loc)
        if not (got.get("h0") and got.get("hn")):
            if not got.get("h0") or not got.get("hn"):
                ctx.fail("C14-R5", C2IR, "recurrence set", "c2ir: recognised %s, expected h[0] and h[n]" % sorted(got), b.loc())
