"""C09 - Phoneme alignment is honoured (structural clauses)."""
from fractions import Fraction

from ..expr import ExprBuilder, show, stores, root_of, walk, to_poly, Poly, canon, mut_arg_calls, origin_calls
from .. import paths
from . import common as cm

DE = "duration::DurationEstimator::"
CWA = DE + "create_with_alignment"


def _split_once_of(e):
    """the `str::split_once(Y, ' ')` call whose Some payload `e` is (through `?` / ok_or wrappers)"""
    n = 0
    while n < 6 and e[0] == "field" and e[2] == "0" and e[1][0] == "variant":
        n += 1
        inner = e[1][1]
        while inner[0] == "call" and (inner[1].endswith("Try>::branch") or inner[1].endswith("::ok_or_else") or inner[1].endswith("::ok_or")):
            inner = inner[2][0]
        if inner[0] == "call" and inner[1].endswith("str>::split_once") and len(inner[2]) == 2 and inner[2][1][0] == "c" and inner[2][1][1] == 32:
            return inner
        e = inner
    return None


def _str_pos(y):
    """how many space-separated tokens were cut off in front of the string `y` (0 for the line itself)"""
    if y[0] == "field" and y[2] == "1":
        sc = _split_once_of(y[1])
        if sc is not None:
            inner = _str_pos(sc[2][0])
            return None if inner is None else inner + 1
        return None
    if any(x[0] == "call" and "split" in x[1] for x in walk(y)):
        return None
    return 0


def _token_pos(comp):
    """index of the token a time component is parsed from, for the split_once form:
    parse((split_once(Y, ' ') as Some).0.0) is token number _str_pos(Y)"""
    ps = [x for x in walk(comp) if x[0] == "call" and x[1].endswith("str>::parse") and len(x[2]) == 1]
    if len(ps) != 1:
        return None
    a = ps[0][2][0]
    if a[0] == "field" and a[2] == "0":
        sc = _split_once_of(a[1])
        if sc is not None:
            return _str_pos(sc[2][0])
    return None


def sign_atom(g):
    """normalise a guard `x < 0` / `x >= 0` (either polarity) to (canon(x), 'neg'|'nonneg')"""
    if g[0] not in ("true", "false"):
        return None
    pos, c = paths.bool_atoms(g)
    from ..loops import resolve_splits
    c = resolve_splits(c)
    if c[0] != "bin" or c[3][0] != "c" or float(c[3][1]) != 0.0:
        return None
    if c[1] == "Lt":
        return (canon(c[2]), "neg" if pos else "nonneg")
    if c[1] == "Ge":
        return (canon(c[2]), "nonneg" if pos else "neg")
    return None


def discarded_results(p, cg, K):
    """R4: calls to local functions without `&mut` parameters whose (non-unit) result is never
    read.  Effects are excluded by C03, so such a call computes a value and throws it away."""
    out = []
    for path in sorted(K):
        b = p.bodies[path]
        if b.is_derived():
            continue
        for bb, t in b.calls():
            c = t["callee"]
            if c["k"] != "fndef":
                continue
            res = c.get("resolved") or c["def"]
            if res not in p.bodies and c.get("krate") != p.crate:
                continue
            if t.get("dest_ty") in ("()", "!"):
                continue
            if any(ti and ti.get("k") == "ref" and ti.get("mut") for ti in (t.get("arg_tys") or [])):
                continue
            if t["dest"]["proj"]:
                continue
            dl = t["dest"]["local"]
            if dl == 0:
                continue
            if not b.uses(dl):
                out.append((b, bb, t, res))
    return out


def run(ctx):
    ctx.rule("C09-R1", "unit factor: both times are multiplied by sampling_rate / (fperiod * 1e7); the call site passes get_sampling_frequency() then get_fperiod()")
    ctx.rule("C09-R2", "inheritance in Labels::new: end_i <- start_{i+1} under end_i < 0 and start_{i+1} >= 0; start_{i+1} <- end_i under end_i >= 0 and start_{i+1} < 0; other stores only normalise negatives to -1")
    ctx.rule("C09-R3", "group fit: target = end - frames_so_far over parameters[next_state .. state+nstate]; frames_so_far += group sum; next_state <- state+nstate; result appended; state += nstate on every iteration")
    ctx.rule("C09-R4", "nothing computed is dropped: in the synthesis closure the result of every call to a local function without &mut parameters is used")
    ctx.rule("C09-R5", "dispatch: alignment flag true => create_with_alignment(labels.times())")
    p = cm.program(ctx)
    cg = cm.callgraph(p)

    # ---- R1
    b = cm.body_or_fail(ctx, p, "C09-R1", "label::Labels::load_from_strings")
    if b is not None:
        eb = ExprBuilder(b)
        pushes = []
        for bb, t in b.calls():
            c = t["callee"]
            if c["k"] == "fndef" and cm.callee_name(c).endswith("Vec::<T, A>::push"):
                eb.at(bb)
                recv = eb.op(t["args"][0])
                val = eb.op(t["args"][1])
                pushes.append((bb, t, recv, val))
        # the pushed pair may reach the push packed in a helper's return value: expand it through
        # every merged temporary (projection-aware) and look at each alternative tuple
        from ..expr import alternatives
        tuple_sites = []
        for sbb, sidx, item in b.iter_stmts():
            if item.get("k") == "assign" and item["rv"]["k"] == "aggregate" and item["rv"]["kind"].get("k") == "tuple" and len(item["rv"]["ops"]) == 2:
                tuple_sites.append((eb.at(sbb, sidx).rvalue(item["rv"]), item["rv"]["ops"]))
        timed = []
        for bb, t, recv, val in pushes:
            if not show(recv).startswith("std::vec::Vec::<T>::with_capacity"):
                continue
            for alt in alternatives(eb, val):
                if alt[0] == "agg" and alt[1] == "tuple" and len(alt[2]) == 2 and not all(v[0] == "c" for v in alt[2]):
                    comps = [ops for ex, ops in tuple_sites if canon(ex) == canon(alt)]
                    timed.append((bb, t, recv, alt, comps[0] if comps else None))
        ctx.anchor("C09-R1", "push of parsed (start, end)", len(timed), 1, b.loc())
        sr = ("arg", "sampling_rate")
        fp = ("arg", "fperiod")
        for bb, t, recv, val, comps in timed:
            okk = True
            srcs = []
            for comp in val[2]:
                pol = to_poly(comp)
                if len(pol.t) != 1:
                    okk = False
                    break
                (mono, c), = pol.t.items()
                d = dict(mono)
                rest = [a for a in d if a not in (sr, fp)]
                if d.get(sr) != 1 or d.get(fp) != -1 or c != Fraction(1, 10 ** 7) or len(rest) != 1 or d[rest[0]] != 1:
                    okk = False
                    break
                srcs.append(rest[0])
            if okk:
                # token order: start derives from the first SplitN::next call, end from the second
                isnext = lambda nm: nm.endswith("SplitN<'a, P> as std::iter::Iterator>::next") or nm.endswith("Iterator>::next") and "Split" in nm
                o0 = origin_calls(b, comps[0], isnext) if comps else []
                o1 = origin_calls(b, comps[1], isnext) if comps else []
                dom = b.dominators()
                parsed = all("parse" in repr(s) for s in srcs)
                if parsed and len(o0) == 1 and len(o1) == 1 and o0[0][0] != o1[0][0] and o0[0][0] in dom.get(o1[0][0], ()):
                    ctx.ok("C09-R1", "pushed times = (parse(token 1), parse(token 2)) * sampling_rate / (fperiod * 1e7)", cm.loc_of(t["span"]))
                elif parsed and [_token_pos(c_) for c_ in val[2]] == [0, 1]:
                    ctx.ok("C09-R1", "pushed times = (parse(token 1), parse(token 2)) * sampling_rate / (fperiod * 1e7) (tokens cut off with split_once(' '))", cm.loc_of(t["span"]))
                else:
                    ctx.fail("C09-R1", b.path, "time tokens", "start/end are not parsed from the first/second token of the line (origins: %s / %s)" % ([x[0] for x in o0], [x[0] for x in o1]), cm.loc_of(t["span"]))
            else:
                ctx.fail("C09-R1", b.path, "unit factor", "pushed times %s are not x * sampling_rate / (fperiod * 1e7)" % show(val), cm.loc_of(t["span"]))
    for imp in ("<&[S] as label::ToLabels>::to_labels",):
        b2 = cm.body_or_fail(ctx, p, "C09-R1", imp)
        if b2 is not None:
            eb = ExprBuilder(b2)
            calls = cm.local_calls(b2, p, exact="label::Labels::load_from_strings")
            if len(calls) != 1:
                ctx.fail("C09-R1", b2.path, "load_from_strings call", "expected one call, found %d" % len(calls), b2.loc())
            else:
                bb, t = calls[0]
                a0, a1 = show(eb.op(t["args"][0])), show(eb.op(t["args"][1]))
                tgt = p.body("label::Labels::load_from_strings")
                n0, n1 = tgt.local_name(1), tgt.local_name(2)
                if "get_sampling_frequency(condition)" in a0 and "get_fperiod(condition)" in a1 and (n0, n1) == ("sampling_rate", "fperiod"):
                    ctx.ok("C09-R1", "to_labels passes (get_sampling_frequency(), get_fperiod()) to (sampling_rate, fperiod)", cm.loc_of(t["span"]))
                else:
                    ctx.fail("C09-R1", b2.path, "argument order", "load_from_strings(%s, %s) into parameters (%s, %s)" % (a0, a1, n0, n1), cm.loc_of(t["span"]))

    # ---- R2
    b = cm.body_or_fail(ctx, p, "C09-R2", "label::Labels::new")
    if b is not None:
        eb = ExprBuilder(b)
        sts = stores(b, eb)
        found = {"end<-next.start": False, "next.start<-end": False}
        from ..loops import resolve_splits
        for bb, i, st, tgt, root, chain, val in sts:
            # elements reached through a borrow split (split_at_mut / first_mut) are elements of times
            tgt, val = resolve_splits(tgt), resolve_splits(val)
            # the element of a traversal of the whole vector: only the `< 0 => -1` normalisation
            if tgt[0] == "field" and tgt[2] in ("0", "1") and tgt[1][0] == "field" and tgt[1][2] == "0" and tgt[1][1][0] == "variant" and tgt[1][1][1][0] == "call" \
                    and "IterMut" in tgt[1][1][1][1] and tgt[1][1][1][1].endswith("::next") and "times" in show(tgt[1][1][1][2][0]) and not any(x[0] == "agg" and "Range" in x[1] for x in walk(tgt[1][1][1][2][0])):
                gs_ = [sign_atom(g) for g in paths.guards(b, bb, eb)]
                if val[0] == "c" and float(val[1]) == -1.0 and (canon(tgt), "neg") in gs_:
                    ctx.ok("C09-R2", "negative %s normalised to -1 (traversal of all of times)" % show(tgt)[-20:], cm.loc_of(st["span"]))
                else:
                    ctx.fail("C09-R2", b.path, "store const", "an element of times is set to %s outside the `< 0 => -1` normalisation" % show(val)[:40], cm.loc_of(st["span"]))
                continue
            # the whole pair rewritten at once: times[X] = (n(start), n(end)) with n(t) = -1 for t < 0, t otherwise
            if tgt[0] == "idx" and "times" in show(tgt[1]) and val[0] == "agg" and val[1] == "tuple" and len(val[2]) == 2 and tgt[2][0] != "agg":
                okw = True
                for k_, comp in enumerate(val[2]):
                    old_k = ("field", tgt, str(k_))
                    alts_ = []
                    if comp[0] == "var" and isinstance(comp[1], int):
                        for d_ in [d for d in b.defs().get(comp[1], []) if not b.is_cleanup(d[0])]:
                            ex_ = eb.at(d_[0], d_[1]).call(d_[2]) if d_[1] == "term" else eb.at(d_[0], d_[1]).rvalue(d_[2]["rv"])
                            alts_.append((resolve_splits(ex_), [sign_atom(g) for g in paths.guards(b, d_[0], eb)]))
                    else:
                        alts_.append((comp, []))
                    ident = [a for a in alts_ if canon(a[0]) == canon(old_k)]
                    minus = [a for a in alts_ if a[0][0] == "c" and float(a[0][1]) == -1.0 and (canon(old_k), "neg") in a[1]]
                    if not (ident and len(ident) + len(minus) == len(alts_)):
                        okw = False
                if okw:
                    ctx.ok("C09-R2", "times[i] rewritten as (n(start), n(end)), n(t) = -1 for t < 0 and t otherwise", cm.loc_of(st["span"]))
                else:
                    ctx.fail("C09-R2", b.path, "store " + show(tgt)[:60], "a whole time pair is overwritten with %s, which is not the `< 0 => -1` normalisation of its own components" % show(val)[:100], cm.loc_of(st["span"]))
                continue
            if not (tgt[0] == "field" and tgt[2] in ("0", "1") and tgt[1][0] == "idx") or "times" not in show(root) and "times" not in show(tgt):
                if "times" in show(tgt):
                    ctx.fail("C09-R2", b.path, "store " + show(tgt)[:60], "unexpected store into times", cm.loc_of(st["span"]))
                continue
            elem = tgt[1]          # idx(times, X)
            X = elem[2]
            k = tgt[2]
            gs = [sign_atom(g) for g in paths.guards(b, bb, eb)]
            gs = [g for g in gs if g]
            if val[0] == "c":
                # normalisation to -1 under (times[X].k < 0)
                if float(val[1]) == -1.0 and (canon(tgt), "neg") in gs:
                    ctx.ok("C09-R2", "negative %s normalised to -1" % show(tgt)[-40:], cm.loc_of(st["span"]))
                else:
                    ctx.fail("C09-R2", b.path, "store const", "times element set to %s outside the `< 0 => -1` normalisation" % show(val), cm.loc_of(st["span"]))
                continue
            # value must be the other field of the neighbouring element
            if not (val[0] == "field" and val[1][0] == "idx"):
                ctx.fail("C09-R2", b.path, "store " + show(tgt)[-40:], "stored value %s is not a neighbouring time" % show(val), cm.loc_of(st["span"]))
                continue
            Y = val[1][2]
            k2 = val[2]
            dxy = to_poly(Y) - to_poly(X)
            # coverage: when i (the label whose end is concerned) is the variable of a range loop,
            # the loop starts at the first label and runs to the last pair
            if (k == "1" and k2 == "0" and dxy == Poly.const(1)) or (k == "0" and k2 == "1" and dxy == Poly.const(-1)):
                from ..loops import loop_var_parts
                I_ = X if k == "1" else Y
                lvp = loop_var_parts(I_)
                if lvp is not None:
                    d_, s_, e_ = lvp
                    sp_, ep_ = to_poly(s_), to_poly(e_)
                    ln_ = Poly.atom(canon(("len", elem[1])))
                    covers = d_ == "up" and sp_ == Poly.const(0) and (ep_ == ln_ or ep_ == ln_ - Poly.const(1))
                    if covers:
                        ctx.ok("C09-R2", "the inheritance loop runs over every label from the first (%s..%s)" % (sp_, ep_), cm.loc_of(st["span"]))
                    else:
                        ctx.fail("C09-R2", b.path, "inheritance range", "the inheritance rule is applied for i in %s %s..%s only, not for every neighbouring pair from the first label on: an unknown end / start outside that range is never filled in" % (d_, sp_, ep_), cm.loc_of(st["span"]))
                else:
                    ctx.note("C09-R2: the label index of an inheritance store is not a range-loop variable (%s); the coverage clause was not evaluated" % show(I_)[:60])
            if k == "1" and k2 == "0" and dxy == Poly.const(1):
                need = {(canon(tgt), "neg"), (canon(val), "nonneg")}
                if need <= set(gs):
                    found["end<-next.start"] = True
                    ctx.ok("C09-R2", "end_i <- start_{i+1} under end_i < 0 and start_{i+1} >= 0", cm.loc_of(st["span"]))
                else:
                    ctx.fail("C09-R2", b.path, "guard end<-start", "end_i <- start_{i+1} is not guarded by (end_i < 0, start_{i+1} >= 0); guards: %s" % gs, cm.loc_of(st["span"]))
            elif k == "0" and k2 == "1" and dxy == Poly.const(-1):
                need = {(canon(val), "nonneg"), (canon(tgt), "neg")}
                if need <= set(gs):
                    found["next.start<-end"] = True
                    ctx.ok("C09-R2", "start_{i+1} <- end_i under end_i >= 0 and start_{i+1} < 0", cm.loc_of(st["span"]))
                else:
                    ctx.fail("C09-R2", b.path, "guard start<-end", "start_{i+1} <- end_i is not guarded by (end_i >= 0, start_{i+1} < 0); guards: %s" % gs, cm.loc_of(st["span"]))
            else:
                ctx.fail("C09-R2", b.path, "store " + show(tgt)[-40:], "times[%s].%s <- times[%s].%s is not one of the two inheritance rules" % (show(X)[-20:], k, show(Y)[-20:], k2), cm.loc_of(st["span"]))
        for k_, v in found.items():
            if not v:
                ctx.fail("C09-R2", b.path, "missing " + k_, "the inheritance store %s was not found" % k_, b.loc())

    # ---- R3
    b = cm.body_or_fail(ctx, p, "C09-R3", CWA)
    if b is not None:
        r3(ctx, p, b)

    # ---- R4
    K, roots = cm.synth_closure(ctx, p, cg)
    ctx.units["K"] = len(K)
    dr = discarded_results(p, cg, K)
    ncalls = 0
    for path in K:
        bd = p.bodies[path]
        for bb, t in bd.calls():
            c = t["callee"]
            if c["k"] == "fndef" and ((c.get("resolved") or c["def"]) in p.bodies):
                ncalls += 1
    ctx.anchor("C09-R4", "calls to local functions examined", ncalls, 150)
    for bd, bb, t, res in dr:
        ctx.fail("C09-R4", bd.path, "discarded result of " + res,
                 "the value computed by %s is thrown away (the function has no &mut parameter and no effect): the frames it stands for vanish" % res, cm.loc_of(t["span"]))
    if not dr:
        ctx.ok("C09-R4", "%d calls to local functions in K: every non-unit result of an effect-free callee is used" % ncalls)
    # both duration estimates in create_with_alignment flow into the returned vector
    b = p.body(CWA)
    if b is not None:
        eb = ExprBuilder(b)
        for nm in (DE + "estimate_duration_with_frame_length", DE + "estimate_duration"):
            for bb, t in cm.local_calls(b, p, exact=nm):
                if any(t is t2 for _, _, t2, _ in dr):
                    continue  # already reported by the generic rule
                dl = t["dest"]["local"]
                flows = False
                for ubb, ui, item in b.uses(dl):
                    # directly or via a reference passed to Vec::extend*
                    pass
                for cbb, ct in b.calls():
                    cn = cm.callee_name(ct["callee"]) if ct["callee"]["k"] == "fndef" else ""
                    if "extend" in cn or cn.endswith("::append") or cn.endswith("::push"):
                        eb.at(cbb)
                        if len(ct["args"]) >= 2:
                            recv = eb.op(ct["args"][0])
                            src = eb.op(ct["args"][1])
                            if any(x[0] == "call" and x[1] == nm for x in walk(src)) or (src[0] == "var" and src[1] == dl):
                                # must be the same call (same block dominance)
                                if bb in b.dominators().get(cbb, ()):
                                    flows = True
                if flows:
                    ctx.ok("C09-R4", "result of %s flows into the returned duration vector" % nm.split("::")[-1], cm.loc_of(t["span"]))
                else:
                    ctx.fail("C09-R4", b.path, "estimate not appended: " + nm.split("::")[-1], "the durations computed by %s are not appended to the result" % nm.split("::")[-1], cm.loc_of(t["span"]))

    # ---- R5
    g = cm.body_or_fail(ctx, p, "C09-R5", "engine::Engine::generator")
    if g is not None:
        eb = ExprBuilder(g)
        calls = cm.local_calls(g, p, exact=CWA)
        if len(calls) != 1:
            ctx.fail("C09-R5", g.path, "create_with_alignment call", "expected one call, found %d" % len(calls), g.loc())
        else:
            bb, t = calls[0]
            a = show(eb.at(bb).op(t["args"][1]))
            gs = paths.guards(g, bb, eb)
            if any(gd[0] == "true" and show(gd[1]) == "self.condition.phoneme_alignment_flag" for gd in gs):
                ctx.ok("C09-R5", "create_with_alignment is called on the alignment-flag-true edge", cm.loc_of(t["span"]))
            else:
                ctx.fail("C09-R5", g.path, "dispatch", "create_with_alignment is not on the phoneme_alignment_flag == true edge", cm.loc_of(t["span"]))
            # ... and the flag alone decides: no further test in front of the aligned path, and the
            # speed-scaled path is taken only with the flag off
            is_flag = lambda pos, c: show(c) == "self.condition.phoneme_alignment_flag"
            extra = cm.value_guards(g, eb, bb, is_flag)
            cr = cm.local_calls(g, p, exact=DE + "create")
            cr_ok = len(cr) == 1 and any(gd[0] == "false" and show(gd[1]) == "self.condition.phoneme_alignment_flag" for gd in paths.guards(g, cr[0][0], eb)) and not cm.value_guards(g, eb, cr[0][0], is_flag)
            if extra or not cr_ok:
                ctx.fail("C09-R5", g.path, "dispatch", "the alignment flag alone does not decide between create_with_alignment and create(speed)%s: with the flag on, some annotations would be ignored altogether" % ((" (also needed: %s)" % " and ".join(extra)) if extra else ""), cm.loc_of(t["span"]))
            else:
                ctx.ok("C09-R5", "the flag alone decides: create(speed) only on its false edge, nothing else in front of either call", cm.loc_of(t["span"]))
            if "label::Labels::times(" in a and "to_labels" in a:
                ctx.ok("C09-R5", "it receives labels.times() of the parsed labels", cm.loc_of(t["span"]))
            else:
                ctx.fail("C09-R5", g.path, "times argument", "create_with_alignment receives %s" % a, cm.loc_of(t["span"]))
    tb = cm.body_or_fail(ctx, p, "C09-R5", "label::Labels::times")
    if tb is not None:
        r = show(ExprBuilder(tb).local(0))
        if r == "self.times":
            ctx.ok("C09-R5", "Labels::times returns self.times", tb.loc())
        else:
            ctx.fail("C09-R5", tb.path, "return value", "times() returns %s" % r, tb.loc())

    ctx.note("not decided: the loop invariant that after the last label every state has a duration, beyond R3/R4; rounding of fractional frames (C08-R2 gives the rounding form)")
    ctx.assume("times are finite (NaN comparisons are outside the statement)")
    expl = ("Exact polynomial form of the time scaling and argument roles at the call site; store/guard pairs of the inheritance rules "
            "with sign-normalised guards; polynomial forms and loop-carried updates of the group fit; a crate-wide 'computed value is "
            "used' rule over the synthesis closure; dispatch guards. Decides the structural clauses of C09 for all annotations.")
    return expl, ["rustc MIR", "C08 rules for estimate_duration_with_frame_length"]


def r3(ctx, p, b):
    eb = ExprBuilder(b)
    loops = b.natural_loops()
    if len(loops) != 1:
        ctx.fail("C09-R3", b.path, "loop", "expected one loop, found %d" % len(loops), b.loc())
        return
    h, lb = loops[0]
    calls = cm.local_calls(b, p, exact=DE + "estimate_duration_with_frame_length")
    if len(calls) != 1:
        ctx.fail("C09-R3", b.path, "group fit call", "expected one estimate_duration_with_frame_length call, found %d" % len(calls), b.loc())
        return
    bb, t = calls[0]
    eb.at(bb)
    sl = eb.op(t["args"][0])
    tg = eb.op(t["args"][1])
    names = {d.get("name"): l for l, d in enumerate(b.locals) if d.get("name")}

    # the three cursor variables, by role (whatever they are called): the group slice is
    # parameters[<pending> .. <cursor> + nstate], the target is end - <frames so far>
    role = {"frame_count": "frame_count", "next_state": "next_state", "state": "state"}
    nst_ = Poly.atom(canon(("field", ("arg", 1, "self"), "nstate")))
    if sl[0] == "idx" and sl[2][0] == "agg" and sl[2][1].endswith("Range::Range"):
        s0 = sl[2][2][0]
        if s0[0] == "var" and s0[2]:
            role["next_state"] = s0[2]
        ats = [a for a in (to_poly(sl[2][2][1]) - nst_).atoms() if a[0] == "var"]
        if len(ats) == 1:
            role["state"] = ats[0][1]
    ats = [a for a in to_poly(tg).atoms() if a[0] == "var"]
    if len(ats) == 1:
        role["frame_count"] = ats[0][1]

    def var(n):
        return ("var", role.get(n, n))
    # guard: end_frame >= 0
    gs = [sign_atom(g) for g in paths.guards(b, bb, eb)]
    gs = [g for g in gs if g]
    endf = None
    for cx, s in gs:
        if s == "nonneg":
            endf = cx
    if endf is None:
        ctx.fail("C09-R3", b.path, "guard", "the group fit is not guarded by `end >= 0`", cm.loc_of(t["span"]))
        return
    pol = to_poly(tg)
    want = Poly.atom(endf) - Poly.atom(var("frame_count"))
    if pol == want and endf[0] == "field" and endf[2] == "1":
        ctx.ok("C09-R3", "target = end_frame - frame_count (end = second component of the time pair)", cm.loc_of(t["span"]))
    else:
        ctx.fail("C09-R3", b.path, "target", "group target is %s, expected end - frames_so_far" % pol, cm.loc_of(t["span"]))
    okr = False
    if sl[0] == "idx" and show(sl[1]) == "self.parameters" and sl[2][0] == "agg" and sl[2][1].endswith("Range::Range"):
        st_, en_ = to_poly(sl[2][2][0]), to_poly(sl[2][2][1])
        nst = Poly.atom(canon(("field", ("arg", 1, "self"), "nstate")))
        if st_ == Poly.atom(var("next_state")) and en_ == Poly.atom(var("state")) + nst:
            okr = True
    if okr:
        ctx.ok("C09-R3", "group = parameters[next_state .. state + nstate]", cm.loc_of(t["span"]))
    else:
        ctx.fail("C09-R3", b.path, "group range", "group slice is %s" % show(sl), cm.loc_of(t["span"]))
    # the fallback group (final labels without an end time): the same pending range, model durations
    fcalls = cm.local_calls(b, p, exact=DE + "estimate_duration")
    if len(fcalls) != 1:
        ctx.fail("C09-R3", b.path, "fallback call", "expected one estimate_duration call for the trailing untimed labels, found %d" % len(fcalls), b.loc())
    else:
        fbb, ft = fcalls[0]
        eb.at(fbb)
        fsl = eb.op(ft["args"][0])
        frho = eb.op(ft["args"][1])
        okf = False
        if fsl[0] == "idx" and show(fsl[1]) == "self.parameters" and fsl[2][0] == "agg" and fsl[2][1].endswith("Range::Range"):
            st_, en_ = to_poly(fsl[2][2][0]), to_poly(fsl[2][2][1])
            nst = Poly.atom(canon(("field", ("arg", 1, "self"), "nstate")))
            okf = st_ == Poly.atom(var("next_state")) and en_ == Poly.atom(var("state")) + nst
        if okf and frho[0] == "c" and float(frho[1]) == 0.0:
            ctx.ok("C09-R3", "fallback = estimate_duration(parameters[next_state .. state + nstate], 0.0): every label since the last fitted group keeps its model durations", cm.loc_of(ft["span"]))
        else:
            ctx.fail("C09-R3", b.path, "fallback range", "the fallback for trailing untimed labels covers %s with rho %s, expected parameters[next_state .. state + nstate] with rho 0 (labels between the last timed one and the final one would vanish)" % (show(fsl)[:120], show(frho)), cm.loc_of(ft["span"]))
        # ... and it is taken for exactly the last label when that label has no end time: inside
        # the loop the call is behind `end < 0` and `i + 1 == len(times)` (i = the enumerate index),
        # nothing else (with `!=`, or an index off by one, an untimed label in the middle would be
        # estimated on its own and the trailing ones would vanish again)
        if fbb in lb:
            def at_(e):
                if e[0] == "len" and show(e[1]) == show(("arg", 2, b.local_name(2))):
                    return ("LEN",)
                sx = show(e)
                if e[0] == "field" and e[2] == "0" and "enumerate(" in sx and sx.endswith("as Some).0.0"):
                    return ("I",)
                return None
            want_d = Poly.atom(("I",)) + Poly.const(1) - Poly.atom(("LEN",))
            last_ok = neg_ok = False
            others = []
            for g in paths.guards(b, fbb, eb):
                if g[0] not in ("true", "false"):
                    continue
                sa = sign_atom(g)
                if sa and sa[0] == endf and sa[1] == "neg":
                    neg_ok = True
                    continue
                pos, c = paths.bool_atoms(g)
                if c[0] == "bin" and c[1] in ("Eq", "Ne"):
                    # `len.wrapping_sub(1)` / `saturating_sub(1)`: inside the loop len >= 1, so it is len - 1
                    from ..loops import rewrite as _rw
                    _sub = lambda n: ("bin", "Sub", n[2][0], n[2][1]) if n[0] == "call" and len(n[2]) == 2 and n[1].rsplit("::", 1)[-1] in ("wrapping_sub", "saturating_sub") else None
                    c = (c[0], c[1], _rw(c[2], _sub), _rw(c[3], _sub))
                    dlt = to_poly(c[2], at_) - to_poly(c[3], at_)
                    if (dlt == want_d or (Poly.const(0) - dlt) == want_d) and ((c[1] == "Eq") == pos):
                        last_ok = True
                        continue
                others.append(("" if pos else "not ") + show(c)[:80])
            if last_ok and neg_ok and not others:
                ctx.ok("C09-R3", "the fallback runs for exactly the last label when it has no end time (`end < 0` and `i + 1 == len(times)`)", cm.loc_of(ft["span"]))
            else:
                ctx.fail("C09-R3", b.path, "fallback condition", "the fallback for trailing untimed labels is not taken exactly when the *last* label has no end time (end < 0: %s; i + 1 == len(times): %s; other conditions: %s): trailing labels would vanish, or an untimed label in the middle would be estimated on its own" % (neg_ok, last_ok, others), cm.loc_of(ft["span"]))
    dom = b.dominators()
    # updates in the fitted branch
    res_local = t["dest"]["local"]

    def defs_in_loop(name):
        l = names.get(role.get(name, name))
        return [d for d in b.defs().get(l, []) if d[0] in lb and not b.is_cleanup(d[0])] if l is not None else []

    def init_zero(name):
        l = names.get(role.get(name, name))
        ds = [d for d in b.defs().get(l, []) if d[0] not in lb and not b.is_cleanup(d[0])] if l is not None else []
        return len(ds) == 1 and ds[0][1] != "term" and ds[0][2]["rv"]["k"] == "use" and ds[0][2]["rv"]["op"].get("int") == 0
    for n in ("frame_count", "next_state", "state"):
        if init_zero(n):
            ctx.ok("C09-R3", "%s starts at 0" % n, b.loc())
        else:
            ctx.fail("C09-R3", b.path, "init " + n, "%s is not initialised to 0 before the loop" % n, b.loc())
    fc = defs_in_loop("frame_count")
    good = False
    for d in fc:
        e = eb.at(d[0], d[1]).rvalue(d[2]["rv"])
        polv = to_poly(e)
        delta = polv - Poly.atom(var("frame_count"))
        ats = list(delta.atoms())
        if len(delta.t) == 1 and len(ats) == 1 and ats[0][0] == "call" and ats[0][1].endswith("Iterator::sum") and bb in dom.get(d[0], ()):
            if any(x[0] == "call" and x[1] == DE + "estimate_duration_with_frame_length" for x in walk(e)):
                good = True
    if good and len(fc) == 1:
        ctx.ok("C09-R3", "frame_count += sum(group durations)", b.loc())
    else:
        ctx.fail("C09-R3", b.path, "frame_count update", "frames_so_far is not advanced by exactly the fitted group's sum", b.loc())
    ns = defs_in_loop("next_state")
    good = False
    for d in ns:
        e = eb.at(d[0], d[1]).rvalue(d[2]["rv"])
        nst = Poly.atom(canon(("field", ("arg", 1, "self"), "nstate")))
        if to_poly(e) == Poly.atom(var("state")) + nst and bb in dom.get(d[0], ()):
            good = True
    if good and len(ns) == 1:
        ctx.ok("C09-R3", "next_state <- state + nstate after a fitted group", b.loc())
    else:
        ctx.fail("C09-R3", b.path, "next_state update", "next_state is not set to state + nstate after a fitted group", b.loc())
    sd = defs_in_loop("state")
    good = False
    latches = [x for x in lb if h in b.succs(x)]
    for d in sd:
        e = eb.at(d[0], d[1]).rvalue(d[2]["rv"])
        nst = Poly.atom(canon(("field", ("arg", 1, "self"), "nstate")))
        if to_poly(e) == Poly.atom(var("state")) + nst:
            # on every iteration: every path from the loop-body entry to a latch passes this block
            body_entries = [s for s in b.succs(h) if s in lb]
            every = all(not b.can_reach(be, la, avoid={d[0]}) for be in body_entries for la in latches if be != d[0])
            # the header's `Some` edge: iterations start after next(); find blocks after discriminant
            if every or all(d[0] in dom.get(la, ()) for la in latches):
                good = True
    if good and len(sd) == 1:
        ctx.ok("C09-R3", "state += nstate on every iteration", b.loc())
    else:
        ctx.fail("C09-R3", b.path, "state update", "state is not advanced by nstate on every path through the loop body", b.loc())
