"""C12 - Global variance (structural clauses)."""
from ..expr import ExprBuilder, show, walk, to_poly, Poly, canon, stores, root_of, mut_arg_calls
from ..taint import Taint
from .. import paths
from . import common as cm

PAR = "mlpg_adjust::mlpg::MlpgMatrix::par"
GV = "mlpg_adjust::mlpg::MlpgGlobalVariance::<'a>::"
CREATE = "mlpg_adjust::MlpgAdjust::<'a>::create"


def run(ctx):
    ctx.rule("C12-R1", "target: the first argument of apply_gv is gv_mean * gv_weight, gv_param being indexed by the same vector_index as the parameters; second argument is the GV variance")
    ctx.rule("C12-R2", "a stream without GV is unaffected by the GV weight: in MlpgMatrix::par the returned value depends on gv_weight only on the Some(gv) edge; MlpgAdjust::create passes the weight nowhere else")
    ctx.rule("C12-R3", "no eligible frame => plain ML solution: parmgen returns before any store to the trajectory when gv_length == 0; gv_length counts the true switch entries")
    ctx.rule("C12-R4", "switch pipeline aligned with the parameter pipeline: switch = !gv_off_context.test(label) per label repeated num_states, expanded by the same durations and filtered by the same mask; conv_gv and the GV term of next_step touch switched-on frames only")
    p = cm.program(ctx)

    b = cm.body_or_fail(ctx, p, "C12-R1", PAR)
    if b is not None:
        eb = ExprBuilder(b)
        ag = cm.local_calls(b, p, exact=GV + "apply_gv")
        if len(ag) != 1:
            ctx.fail("C12-R1", PAR, "apply_gv call", "expected one apply_gv call, found %d" % len(ag), b.loc())
        else:
            bb, t = ag[0]
            a1 = eb.at(bb).op(t["args"][1])
            a2 = eb.op(t["args"][2])
            pol = to_poly(a1)
            okk = False
            if len(pol.t) == 1:
                (mono, c), = pol.t.items()
                d = dict(mono)
                w = ("arg", "gv_weight")
                others = [a for a in d if a != w]
                if c == 1 and d.get(w) == 1 and len(others) == 1 and d[others[0]] == 1:
                    m = others[0]
                    ms = repr(m)
                    # (gv as Some).0.0[vector_index].0
                    if m[0] == "field" and m[2] == "0" and m[1][0] == "idx" and m[1][2] == ("arg", "vector_index") and "Some" in ms and ms.count("'gv'") >= 1:
                        okk = True
            if okk:
                ctx.ok("C12-R1", "apply_gv target mean = gv_param[vector_index].mean * gv_weight", cm.loc_of(t["span"]))
            else:
                ctx.fail("C12-R1", PAR, "target", "apply_gv's first argument is %s, expected gv_param[vector_index].0 * gv_weight" % show(a1), cm.loc_of(t["span"]))
            s2 = show(a2)
            if s2.endswith("[vector_index].1") and "gv" in s2:
                ctx.ok("C12-R1", "apply_gv variance argument = gv_param[vector_index].vari", cm.loc_of(t["span"]))
            else:
                ctx.fail("C12-R1", PAR, "variance argument", "apply_gv's second argument is %s" % s2, cm.loc_of(t["span"]))
            gs = paths.guards(b, bb, eb)
            if any(g[0] == "some" and show(g[1]) == "gv" for g in gs):
                ctx.ok("C12-R2", "apply_gv is reached only on the Some(gv) edge", cm.loc_of(t["span"]))
            else:
                ctx.fail("C12-R2", PAR, "gv guard", "apply_gv is not under `if let Some(..) = gv`", cm.loc_of(t["span"]))
            # ... and always there: for every weight and every coefficient of a GV stream the
            # returned trajectory is apply_gv's (no value test in front of it, no other return)
            vg = cm.value_guards(b, eb, bb)
            other = [show(e)[:60] for rbb, e, item in paths.return_exprs(b, eb)
                     if any(g[0] == "some" and show(g[1]) == "gv" for g in paths.guards(b, rbb, eb)) and "apply_gv(" not in show(e)]
            if vg or other:
                ctx.fail("C12-R1", PAR, "conditional GV", "with a GV model, par() does not always return apply_gv's result (%s)" % ("; ".join(["only when " + x for x in vg] + ["also returns " + x for x in other])), cm.loc_of(t["span"]))
            else:
                ctx.ok("C12-R1", "with a GV model every return of par() is apply_gv's result, unconditionally", cm.loc_of(t["span"]))
        # R2: taint from gv_weight: the None path's return is untainted
        wl = [l for l in range(1, b.argc + 1) if b.local_name(l) == "gv_weight"]
        if wl:
            tn = Taint(b, tainted_args=wl, program=p)
            bad = []
            for bb, e, item in paths.return_exprs(b, eb):
                gs = paths.guards(b, bb, eb)
                on_some = any(g[0] == "some" and show(g[1]) == "gv" for g in gs)
                tainted = False
                if item.get("k") == "call":
                    tainted = any(tn.operand_tainted(a) for a in item["args"])
                else:
                    tainted = tn.rvalue_tainted(item["rv"])
                if tainted and not on_some:
                    bad.append(show(e)[:80])
            sw = [t2["span"].get("line") for sb, t2 in tn.tainted_switches]
            if bad or sw:
                ctx.fail("C12-R2", PAR, "weight on the GV-less path", "the GV weight influences the result without a GV model (%s; branches %s)" % (bad, sw), b.loc())
            else:
                ctx.ok("C12-R2", "par(): without GV the result (self.solve()) is independent of gv_weight", b.loc())
            none_ret = [show(e) for bb, e, item in paths.return_exprs(b, eb) if not any(g[0] == "some" for g in paths.guards(b, bb, eb))]
            # (solve() written out - factorise, then substitute - is the same value; that the
            # substitution sits behind a factorisation is C05-R5's who-may-call clause)
            M_ = "mlpg_adjust::mlpg::MlpgMatrix::"
            inl_ = none_ret == [M_ + "substitutions(self)"] and any(
                fbb in b.dominators().get(sbb, ()) and fbb != sbb
                for fbb, ft in cm.local_calls(b, p, exact=M_ + "ldl_factorization")
                for sbb, st_ in cm.local_calls(b, p, exact=M_ + "substitutions")
                if not any(g[0] == "some" for g in paths.guards(b, sbb, eb)))
            if none_ret == ["mlpg_adjust::mlpg::MlpgMatrix::solve(self)"] or inl_:
                ctx.ok("C12-R2", "the GV-less path returns the plain ML solution self.solve()", b.loc())
            else:
                ctx.fail("C12-R2", PAR, "GV-less return", "the GV-less path returns %s" % none_ret, b.loc())
        # R4: switch pipeline
        names = {d.get("name"): l for l, d in enumerate(b.locals) if d.get("name")}
        sw_exprs = [eb.at(bb2).call(t2) for bb2, t2 in b.calls() if t2["callee"]["k"] == "fndef" and cm.callee_name(t2["callee"]).endswith("Iterator::collect")]
        okp = False
        for e in sw_exprs:
            s = show(e)
            if "IterExt>::filter_by(" in s and "IterExt>::duration(" in s and ", durations)" in s and "Mask::mask(msd_flag)" in s and "(gv as Some).0.1" in s:
                bad = [x[1].rsplit("::", 1)[-1] for x in walk(e) if x[0] == "call" and x[1].rsplit("::", 1)[-1] in ("skip", "take", "rev", "step_by", "filter")]
                okp = not bad
        if okp:
            ctx.ok("C12-R4", "par(): switch = gv_switch.iter().copied().duration(durations).filter_by(msd_flag.mask()) (same expansion and mask as the parameters)", b.loc())
        else:
            ctx.fail("C12-R4", PAR, "switch pipeline", "the GV switch is not expanded by durations and filtered by the mask: %s" % [show(e)[:160] for e in sw_exprs], b.loc())
        # MlpgGlobalVariance::new receives (matrix before solving, solution, that switch)
        nw = cm.local_calls(b, p, exact=GV + "new")
        if len(nw) == 1:
            a = [show(eb.at(nw[0][0]).op(x)) for x in nw[0][1]["args"]]
            if a[0] == "self" and a[1] == "mlpg_adjust::mlpg::MlpgMatrix::solve(self)" and "filter_by" in a[2]:
                ctx.ok("C12-R4", "MlpgGlobalVariance::new(matrix cloned before the solve, ML solution, filtered switch)", cm.loc_of(nw[0][1]["span"]))
            else:
                ctx.fail("C12-R4", PAR, "GV inputs", "MlpgGlobalVariance::new receives %s" % [x[:60] for x in a], cm.loc_of(nw[0][1]["span"]))
            dom = b.dominators()
            cl = [bb2 for bb2, t2 in b.calls() if t2["callee"]["k"] == "fndef" and cm.callee_name(t2["callee"]).endswith("Clone>::clone") and "MlpgMatrix" in cm.callee_name(t2["callee"])]
            sv = [bb2 for bb2, t2 in cm.local_calls(b, p, exact="mlpg_adjust::mlpg::MlpgMatrix::solve") if bb2 in dom.get(nw[0][0], ())]
            if cl and sv and cl[0] in dom.get(sv[0], ()) and cl[0] != sv[0]:
                ctx.ok("C12-R4", "the matrix is cloned before solve() factorises it in place", b.loc())
            else:
                ctx.fail("C12-R4", PAR, "clone order", "the matrix handed to GV is not cloned before the in-place factorisation", b.loc())

    cr = cm.body_or_fail(ctx, p, "C12-R2", CREATE)
    if cr is not None:
        eb = ExprBuilder(cr)
        uses = []
        for bb, blk in enumerate(cr.blocks):
            if blk["cleanup"]:
                continue
        reads = 0
        for bb, i, st in cr.iter_stmts():
            if st["k"] == "assign" and "'name': 'gv_weight'" in repr(st["rv"]):
                reads += 1
                dl = st["place"]["local"]
                us = cr.uses(dl)
                for ubb, ui, item in us:
                    okuse = ui == "term" and item["k"] == "call" and cm.callee_name(item["callee"]) == PAR
                    if not okuse:
                        ctx.fail("C12-R2", CREATE, "gv_weight use", "self.gv_weight is used outside the MlpgMatrix::par call", cm.loc_of(st["span"]))
        for cb in p.nested(CREATE):
            if "gv_weight" in repr(cb.blocks):
                ctx.fail("C12-R2", cb.path, "gv_weight use", "a closure of create() reads the GV weight", cb.loc())
        if reads == 1:
            ctx.ok("C12-R2", "create(): self.gv_weight is read once, as the gv_weight argument of MlpgMatrix::par", cr.loc())
        elif reads != 1:
            ctx.fail("C12-R2", CREATE, "gv_weight reads", "self.gv_weight is read %d times" % reads, cr.loc())

    # the GV statistics par() sees are the model's own: MlpgAdjust::new keeps the stream's `gv`
    # as it is (the weight is applied once, in par - R1), and create() hands that field to par
    nb = cm.body_or_fail(ctx, p, "C12-R1", "mlpg_adjust::MlpgAdjust::<'a>::new")
    if nb is not None:
        nr = ExprBuilder(nb).local(0)
        gvv = nr[2][nr[3].index("gv")] if nr[0] == "agg" and nr[3] and "gv" in nr[3] else None
        ms = [l for l in range(1, nb.argc + 1) if "ModelStream" in nb.local_ty(l)]
        if gvv is not None and len(ms) == 1 and gvv == ("field", ("arg", ms[0], nb.local_name(ms[0])), "gv"):
            ctx.ok("C12-R1", "MlpgAdjust::new keeps the stream's GV statistics unchanged (field gv = stream.gv)", nb.loc())
        else:
            ctx.fail("C12-R1", nb.path, "gv statistics", "MlpgAdjust::new does not store the stream's GV statistics as they are (gv = %s): a weight or scale applied here as well as in par() changes the target" % (show(gvv)[:120] if gvv else None), nb.loc())
    if cr is not None:
        ebc = ExprBuilder(cr)
        pcs = []
        for cb_ in [cr] + list(p.nested(CREATE)):
            ceb_ = ExprBuilder(cb_)
            for bb, t in cm.local_calls(cb_, p, exact=PAR):
                from ..expr import resolve_upvars as _ru
                pcs.append((cb_, cm.loc_of(t["span"]), show(_ru(p, cb_, ceb_.at(bb).op(t["args"][1])) if cb_.kind == "Closure" else ceb_.at(bb).op(t["args"][1]))))
        if len(pcs) == 1 and pcs[0][2] == "self.gv":
            ctx.ok("C12-R1", "create(): par() receives self.gv", pcs[0][1])
        else:
            ctx.fail("C12-R1", CREATE, "gv argument", "par() is called with %s as its GV statistics, expected self.gv (once)" % [x[2][:60] for x in pcs], cr.loc())

    # the GV weight that reaches stream k's MlpgAdjust is the condition's gv_weight[k]
    from ..expr import walk as _walk
    gen = p.body("engine::Engine::generator")
    mn_ = p.body("mlpg_adjust::MlpgAdjust::<'a>::new")
    if gen is not None and mn_ is not None:
        ebg = ExprBuilder(gen)
        news = cm.local_calls(gen, p, exact="mlpg_adjust::MlpgAdjust::<'a>::new")
        ctx.anchor("C12-R2", "MlpgAdjust::new call sites in Engine::generator", len(news), 3, gen.loc())
        for bb, t in news:
            w_idx = s_idx = None
            for k, a in enumerate(t["args"]):
                e = ebg.at(bb).op(a)
                if mn_.local_name(k + 1) == "gv_weight":
                    if e[0] == "idx" and e[2][0] == "c" and show(e[1]).endswith("condition.gv_weight"):
                        w_idx = e[2][1]
                ms = [x for x in _walk(e) if x[0] == "call" and x[1] == "model::Models::<'a>::model_stream"]
                if ms and ms[0][2][1][0] == "c":
                    s_idx = ms[0][2][1][1]
            if w_idx is not None and w_idx == s_idx:
                ctx.ok("C12-R2", "stream %d is generated with condition.gv_weight[%d]" % (s_idx, w_idx), cm.loc_of(t["span"]))
            else:
                ctx.fail("C12-R2", gen.path, "gv weight of stream %s" % s_idx, "the trajectory of stream %s is generated with gv_weight[%s]: a stream's GV weight must be its own (another stream's weight would rescale it, and its own would do nothing)" % (s_idx, w_idx), cm.loc_of(t["span"]))

    # a requested GV weight reaches the generator as it is (floored at 0, not capped): the variance
    # target grows with the weight over the whole range
    sg = p.body("engine::Condition::set_gv_weight")
    if sg is not None:
        from ..expr import to_clamp, stores as _stores, POS_INF
        ebs = ExprBuilder(sg)
        sts_ = [x for x in _stores(sg, ebs) if x[4][0] == "arg" and x[4][1] == 1]
        okc = False
        desc = "no store"
        for bb, i, st, tgt, root, chain, val in sts_:
            if chain and chain[0] == "gv_weight":
                cl = to_clamp(val, lambda e: e[0] == "arg" and e[2] == "f")
                desc = str(cl) if cl is not None else show(val)[:80]
                okc = cl is not None and cl.hi == POS_INF and float(cl.lo) == 0.0 and not paths.guards(sg, bb, ebs)
        if okc:
            ctx.ok("C12-R2", "set_gv_weight stores max(f, 0): no upper cap between the caller's weight and the GV target", sg.loc())
        else:
            ctx.fail("C12-R2", sg.path, "weight cap", "set_gv_weight stores %s: a GV weight above the cap is silently replaced, so the variance stops following the weight" % desc, sg.loc())

    # "a stream without GV" is a stream whose USE_GV flag is off: Models::gv hands out GV
    # statistics (Some) only under the stream's use_gv flag - whatever the loader kept in gv_model
    gvb = cm.body_or_fail(ctx, p, "C12-R2", "model::Models::<'a>::gv")
    if gvb is not None:
        ebg = ExprBuilder(gvb)
        somes = [(bb, e) for bb, e, item in paths.return_exprs(gvb, ebg) if e[0] == "agg" and e[1].endswith("Option::Some")]
        ctx.anchor("C12-R2", "Some(..) returns of Models::gv", len(somes), 1, gvb.loc())
        for bb, e in somes:
            flagged = False
            for g in paths.guards(gvb, bb, ebg):
                if g[0] in ("true", "false"):
                    pos, c = paths.bool_atoms(g)
                    sc = show(c)
                    if pos and sc.endswith(".use_gv") and "stream_metadata(self.voices, stream_index)" in sc:
                        flagged = True
            if flagged:
                ctx.ok("C12-R2", "Models::gv returns Some(..) only under stream_metadata(stream_index).use_gv", gvb.loc())
            else:
                ctx.fail("C12-R2", gvb.path, "use_gv flag", "Models::gv can return GV statistics for a stream whose USE_GV flag is off (no dominating `stream_metadata(stream_index).use_gv` test): such a stream would be rescaled and react to its GV weight", gvb.loc())

    # ---- R3
    pg = cm.body_or_fail(ctx, p, "C12-R3", GV + "parmgen")
    if pg is not None:
        eb = ExprBuilder(pg)
        effects = []
        for bb, i, st, tgt, root, chain, val in stores(pg, eb):
            if root[0] == "arg" and root[1] == 1:
                effects.append((bb, st["span"]))
        for cbb, t, cname, k, ref in mut_arg_calls(pg, eb):
            r, ch = root_of(ref)
            if r[0] == "arg" and r[1] == 1:
                effects.append((cbb, t["span"]))
        okk = bool(effects)
        for bb, span in effects:
            g_ok = False
            for g in paths.guards(pg, bb, eb):
                if g[0] in ("true", "false"):
                    pos, c = paths.bool_atoms(g)
                    if c[0] == "bin" and show(c[2]) == "self.gv_length" and c[3][0] == "c" and c[3][1] == 0:
                        if (c[1] == "Eq" and not pos) or (c[1] in ("Ne", "Gt") and pos):
                            g_ok = True
            if not g_ok:
                okk = False
                ctx.fail("C12-R3", pg.path, "effect without eligible frames", "the trajectory can be modified although gv_length == 0", cm.loc_of(span))
        if okk:
            ctx.ok("C12-R3", "parmgen: every effect on self (%d) is under gv_length != 0" % len(effects), pg.loc())
    gn = cm.body_or_fail(ctx, p, "C12-R3", GV + "new")
    if gn is not None:
        ret = ExprBuilder(gn).local(0)
        if ret[0] == "agg" and "gv_length" in ret[3]:
            v = ret[2][ret[3].index("gv_length")]
            s = show(v)
            cl = [x for x in walk(v) if x[0] == "agg" and x[1].startswith("closure:")]
            okc = False
            if "::count(" in s and "Iterator::filter(gv_switch" in s and cl:
                cb = p.bodies.get(cl[0][1][len("closure:"):])
                r = ExprBuilder(cb).local(0)
                okc = r[0] == "arg" or (r[0] != "un" and "arg" in show(r) and "Not" not in show(r))
            f = dict(zip(ret[3], ret[2]))
            if okc and show(f.get("par")) == "par" and show(f.get("gv_switch")) == "gv_switch" and show(f.get("mtx")) == "mtx":
                ctx.ok("C12-R3", "MlpgGlobalVariance::new: gv_length = number of true entries of gv_switch; par/mtx/gv_switch stored as given", gn.loc())
            else:
                ctx.fail("C12-R3", gn.path, "gv_length", "gv_length = %s" % s[:120], gn.loc())
    ap = cm.body_or_fail(ctx, p, "C12-R3", GV + "apply_gv")
    if ap is not None:
        eb = ExprBuilder(ap)
        r = show(eb.local(0))
        calls = cm.local_calls(ap, p, exact=GV + "parmgen")
        if r == "self.par" and len(calls) == 1 and [show(eb.at(calls[0][0]).op(a)) for a in calls[0][1]["args"][1:]] == ["gv_mean", "gv_vari"]:
            ctx.ok("C12-R3", "apply_gv = parmgen(gv_mean, gv_vari) then return self.par (the ML solution if parmgen did nothing)", ap.loc())
        else:
            ctx.fail("C12-R3", ap.path, "apply_gv", "apply_gv returns %s" % r, ap.loc())

    # ---- R4 (rest)
    mg = cm.body_or_fail(ctx, p, "C12-R4", "model::Models::<'a>::gv")
    if mg is not None:
        okk = False
        for cb in p.nested(mg.path):
            ceb = ExprBuilder(cb)
            r = ceb.local(0)
            s = show(r)
            if ("repeat(" in s or "from_elem(" in s) and "num_states" in s:
                # the repeated element is !gv_off_context.test(label)
                if "Not(model::voice::question::Question::test(" in s and "gv_off_context" in s:
                    okk = True
                else:
                    ctx.fail("C12-R4", cb.path, "switch value", "per-label switch is %s, expected !gv_off_context.test(label)" % s[:160], cb.loc())
                    okk = None
        eb = ExprBuilder(mg)
        loop_form = False
        if okk is False:
            # loop form: for label in self.labels.iter() { let sw = !off.test(label);
            #   v.extend(repeat(sw).take(num_states))   or   for _ in 0..num_states { v.push(sw) } }
            import re as _re
            for bb, t in mg.calls():
                c = t["callee"]
                nm = cm.callee_name(c) if c["k"] == "fndef" else ""
                grow = None
                if nm.endswith("Extend<T>>::extend") and len(t["args"]) == 2:
                    a = eb.at(bb).op(t["args"][1])
                    if a[0] == "call" and a[1].endswith("Iterator::take") and a[2][0][0] == "call" and a[2][0][1].endswith("iter::repeat"):
                        grow = (a[2][0][2][0], show(a[2][1]), [])
                elif nm.endswith("Vec::<T, A>::push") and len(t["args"]) == 2 and (c.get("args") or [""])[0] == "bool":
                    rng = [g for g in paths.guards(mg, bb, eb) if g[0] == "some" and "Range" in show(g[1])[:80]]
                    if len(rng) == 1:
                        m = _re.search(r"Range\{start: 0, end: (.*?)\}\)$", show(rng[0][1]))
                        grow = (eb.at(bb).op(t["args"][1]), m.group(1) if m else "?", rng)
                if grow is None:
                    continue
                val, count, rng = grow
                sv = show(val)
                gs = [g for g in paths.guards(mg, bb, eb) if g not in rng and not (g[0] in ("true", "false") and show(g[1]).endswith(".use_gv")) and not (g[0] in ("some", "ok") and "first(" in show(g[1]))]
                plain = len(gs) == 1 and gs[0][0] == "some" and _re.match(r"^<std::slice::Iter<'a, T> as std::iter::Iterator>::next\(self\.labels\)$", show(gs[0][1]))
                if sv.startswith("Not(model::voice::question::Question::test(") and "gv_off_context" in sv and count.endswith("num_states") and plain:
                    okk = True
                    loop_form = True
                else:
                    okk = None
                    ctx.fail("C12-R4", mg.path, "switch value", "per-label switch group is %s x %s under guards %s; expected !gv_off_context.test(label) x num_states for every label" % (sv[:100], count[-40:], [show(g[1])[:60] for g in gs]), cm.loc_of(t["span"]))
        if okk:
            ctx.ok("C12-R4", "Models::gv: switch = [!gv_off_context.test(label)] repeated num_states per label", mg.loc())
        elif okk is False:
            ctx.fail("C12-R4", mg.path, "switch", "no per-label repeated switch found", mg.loc())
        txt = " ".join(show(eb.call(t)) for bb, t in mg.calls())
        if loop_form:
            ctx.ok("C12-R4", "Models::gv: one switch group per label, in label order (plain loop over self.labels)", mg.loc())
        elif "flat_map" in txt and "self.labels" in txt and not any(k in txt for k in ("::skip(", "::take(", "::filter(", "::rev(")):
            ctx.ok("C12-R4", "Models::gv: one switch group per label, in label order", mg.loc())
        else:
            ctx.fail("C12-R4", mg.path, "label pipeline", "the switch vector is not a plain flat_map over the labels", mg.loc())
    cv = cm.body_or_fail(ctx, p, "C12-R4", GV + "conv_gv")
    if cv is not None:
        eb = ExprBuilder(cv)
        fe = [eb.call(t) for bb, t in cv.calls() if t["callee"]["k"] == "fndef" and cm.callee_name(t["callee"]).endswith("Iterator::for_each")]
        good = False
        for e in fe:
            s = show(e)
            if "Iterator::filter(std::iter::Iterator::zip(self.par, self.gv_switch)" in s:
                cl = [x for x in walk(e) if x[0] == "agg" and x[1].startswith("closure:")]
                for c in cl:
                    cb = p.bodies.get(c[1][len("closure:"):])
                    r = ExprBuilder(cb).local(0)
                    if r[0] == "field" and r[2] == "1" or (show(r).endswith(".1")):
                        good = True
        if not good:
            # loop form: for (p, sw) in self.par.iter_mut().zip(self.gv_switch.iter()) { if *sw { *p = .. } }
            from ..expr import stores as _stores
            sts_ = [s_ for s_ in _stores(cv, eb) if "self.par" in show(s_[3])]
            okl = bool(sts_)
            for bb_, i_, st_, tgt_, root_, chain_, val_ in sts_:
                ts = show(tgt_)
                if not ("Zip" in ts and "zip(self.par, self.gv_switch)" in ts.replace("std::iter::Iterator::", "") and ts.endswith(".0.0")):
                    okl = False
                    continue
                item = ts[:-len(".0")]
                gsl = [(g_[0], show(g_[1])) for g_ in paths.guards(cv, bb_, eb)]
                if not any(k_ == "true" and s__ == item + ".1" for k_, s__ in gsl):
                    okl = False
            good = okl
        if good:
            ctx.ok("C12-R4", "conv_gv rescales only frames whose switch is true (filter on the zipped switch)", cv.loc())
        else:
            ctx.fail("C12-R4", cv.path, "switch filter", "conv_gv does not restrict the rescaling to switched-on frames", cv.loc())
    # the statistics the target is compared with are taken over the switched-on frames only
    cg_ = cm.body_or_fail(ctx, p, "C12-R4", GV + "calc_gv")
    if cg_ is not None:
        ceb = ExprBuilder(cg_)
        r = ceb.local(0)
        from ..expr import resolve_upvars

        def stat(e):
            """(source is the switch-filtered zip of par and gv_switch, the mapped value, divisor text)"""
            if not (e[0] == "bin" and e[1] == "Div" and e[2][0] == "call" and e[2][1].endswith("Iterator::sum")):
                return None
            m = e[2][2][0]
            # one or several `.map(..)` over the switch-filtered zip: the closures are composed
            maps = []
            while m[0] == "call" and m[1].endswith("Iterator::map"):
                maps.append(m[2][1])
                m = m[2][0]
            f = m
            if not maps or not (f[0] == "call" and f[1].endswith("Iterator::filter") and show(f[2][0]) == "std::iter::Iterator::zip(self.par, self.gv_switch)"):
                return None
            fb = p.bodies.get(f[2][1][1][len("closure:"):]) if f[2][1][0] == "agg" else None
            if fb is None:
                return None
            fr = ExprBuilder(fb).local(0)
            if not (fr[0] == "field" and fr[2] == "1" and fr[1][0] == "arg"):
                return None
            from ..loops import rewrite
            v = ("arg", 2, None)
            for mc in reversed(maps):
                mb = p.bodies.get(mc[1][len("closure:"):]) if mc[0] == "agg" else None
                if mb is None:
                    return None
                r_ = resolve_upvars(p, mb, ExprBuilder(mb).local(0))
                # the closure's own parameter (arg 2; calc_gv itself has only `self`) <- the item so far
                v = rewrite(r_, lambda n, v=v: v if (n[0] == "arg" and n[1] == 2 and not str(n[2] or "").startswith("{closure")) else None)
            return v, show(e[3])
        okst = False
        why = show(r)[:200]
        if r[0] == "agg" and len(r[2]) == 2:
            s0, s1 = stat(r[2][0]), stat(r[2][1])
            if s0 and s1:
                v0, d0 = s0
                v1, d1 = s1
                mean_ok = v0[0] == "field" and v0[2] == "0" and v0[1][0] == "arg" and d0 == "(self.gv_length as f64)"
                sq_ok = (v1[0] == "bin" and v1[1] == "Mul" and v1[2] == v1[3] and v1[2][0] == "bin" and v1[2][1] == "Sub" and
                         v1[2][2][0] == "field" and v1[2][2][2] == "0" and v1[2][3] == r[2][0] and d1 == "(self.gv_length as f64)")
                okst = mean_ok and sq_ok
                why = "mean over filtered frames / gv_length=%s, variance = sum (x - mean)^2 over the same frames / gv_length=%s" % (mean_ok, sq_ok)
            else:
                why = "a statistic is not sum(map(filter(zip(self.par, self.gv_switch), |(_, sw)| sw), ..)) / gv_length"
        if okst:
            ctx.ok("C12-R4", "calc_gv: mean and variance are sums over zip(par, gv_switch) filtered by the switch, divided by gv_length", cg_.loc())
        else:
            ctx.fail("C12-R4", cg_.path, "statistics frames", "the GV statistics are not taken over exactly the switched-on frames: %s" % why, cg_.loc())
    ns = cm.body_or_fail(ctx, p, "C12-R4", GV + "next_step")
    if ns is not None:
        eb = ExprBuilder(ns)
        # the per-frame update direction has two definitions selected by gv_switch[t]: as polynomials
        # (1/h kept as one opaque factor) their difference is the GV gradient term - every monomial
        # carries gv_vari - and the switched-off definition has no gv_vari / gv_mean factor at all
        found = False

        def has_arg(mono, names):
            return any(a[0] == "arg" and a[1] in names and ex > 0 for a, ex in mono)
        for l in range(len(ns.locals)):
            ds = [d for d in ns.defs().get(l, []) if not ns.is_cleanup(d[0])]
            if len(ds) != 2:
                continue
            by = {}
            for d in ds:
                if d[1] == "term":
                    continue
                e = eb.at(d[0], d[1]).rvalue(d[2]["rv"])
                for g in paths.guards(ns, d[0], eb):
                    if g[0] in ("true", "false") and "self.gv_switch" in show(g[1]):
                        by[g[0]] = to_poly(e)
            if set(by) == {"true", "false"}:
                delta = by["true"] - by["false"]
                if delta.t and all(has_arg(m, ("gv_vari",)) for m in delta.t) and any(has_arg(m, ("gv_mean",)) for m in delta.t) \
                        and not any(has_arg(m, ("gv_vari", "gv_mean")) for m in by["false"].t):
                    found = True
        if found:
            ctx.ok("C12-R4", "next_step: the GV gradient term is added only where gv_switch[t] is true", ns.loc())
        else:
            ctx.fail("C12-R4", ns.path, "GV term guard", "the GV term of the update is not restricted to switched-on frames", ns.loc())
    ctx.note("not decided: variance within 20 % of the target and monotone in the weight after five quasi-Newton steps (numerical)")
    expl = ("Polynomial form of the GV target (mean x weight, same vector index), taint from gv_weight inside MlpgMatrix::par showing the "
            "GV-less path is independent of it, read-set of the weight in MlpgAdjust::create, no-effect rule for the zero-eligible-frames "
            "early return, and structural identity of the switch pipeline with the parameter pipeline.")
    return expl, ["rustc MIR"]
