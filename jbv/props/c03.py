"""C03 - Synthesis is a deterministic pure function, safe to share across threads.

Decided statically (DESIGN.md §5 C03): every body in the synthesis closure K is free of effects
other than allocation and stderr diagnostics, reads nothing but its arguments and constants, and
no type reachable from &Engine admits mutation.
"""
from ..expr import ExprBuilder, walk, show, success_value
from ..mir import callee_name
from .. import paths
from ..model import classify
from . import common as cm

K_FLOOR = 150          # bodies in K counted on the pinned tree: 196
EXT_SITE_FLOOR = 600   # external call sites in K counted on the pinned tree: ~1000

ROOT_TYPES = ["engine::Engine", "speech::SpeechGenerator", "vocoder::Vocoder",
              "model::voice_set::VoiceSet", "model::voice::Voice", "engine::Condition"]

SETTER_FLOOR = 13


def audited_cell(hit):
    """R2 audited exceptions, each with its reason."""
    via = hit["via"]
    s = " ".join(via)
    # Arc's reference counts: not observable through &Engine by synthesis, never read by jbonsai
    if "alloc::sync::ArcInner" in via:
        i = via.index("alloc::sync::ArcInner")
        if i + 1 < len(via) and via[i + 1] in (".strong", ".weak"):
            return "Arc reference count"
    # regex_automata::meta::Regex: internally synchronised scratch cache pool; match results do
    # not depend on cache state (read: regex-automata util/pool.rs, meta/regex.rs)
    if "regex_automata::" in s or "regex::" in s:
        return "regex scratch cache (jlabel-question regex fallback)"
    return None


def static_rule(ctx, p, tag):
    """R1 on a program; returns number of flagged statics"""
    n = 0
    for st in p.statics:
        bad = []
        if st["mutable"]:
            bad.append("static mut")
        if not st["freeze"]:
            bad.append("interior-mutable static (type is not Freeze)")
        if st["thread_local"]:
            bad.append("thread_local")
        if bad:
            n += 1
            if tag == "repo":
                ctx.fail("C03-R1", st["path"], "static", "; ".join(bad) + " of type " + st["ty"],
                         cm.loc_of(st["span"]))
    for path, b in p.bodies.items():
        for bb, i, stt in b.iter_stmts():
            if stt["k"] == "assign" and stt["rv"]["k"] == "tlsref":
                n += 1
                if tag == "repo":
                    ctx.fail("C03-R1", path, "thread-local access " + stt["rv"]["def"],
                             "thread-local read/write", cm.loc_of(stt["span"]))
    return n


def unsafe_rule(ctx, p, K, tag):
    n = 0
    for u in p.unsafe:
        if u["span"].get("exp"):
            continue  # macro expansion (derives, format_args!) -- not user code
        where = u["in"]
        if K is not None and where not in K and not any(where.startswith(k + "::") for k in K):
            # unsafe outside K is out of this property's scope but still listed
            ctx.note("unsafe outside K (not judged): %s in %s" % (u["what"], where))
            continue
        n += 1
        if tag == "repo":
            ctx.fail("C03-R4", where, u["what"], "user-written unsafe in the synthesis closure",
                     cm.loc_of(u["span"]))
    return n


def ext_rule(ctx, p, cg, K, tag):
    """R5: classify every external callee reached from K. returns (sites, bad)"""
    sites = 0
    bad = 0
    classes = {}
    for path in sorted(K):
        b = p.bodies[path]
        if b.is_derived() and path.split("::")[-1] in ("fmt",):
            pass
        for name, c, t in cg.ext.get(path, []):
            sites += 1
            cls, why = classify(name)
            wa = (c.get("resolved_with_args") or c.get("with_args") or "") if isinstance(c, dict) else ""
            # receiver-sensitive: iterator adaptors over hash collections
            if cls == "pure" and ("hash_map::" in wa or "hash_set::" in wa or "HashMap<" in wa and "::iter" in name):
                if "Iterator" in name or "IntoIterator" in name:
                    cls, why = "nondet", "iteration over a hash collection: " + wa
            classes[cls or "unmodelled"] = classes.get(cls or "unmodelled", 0) + 1
            if cls in ("pure", "stderr", "diverge"):
                continue
            bad += 1
            if tag == "repo":
                loc = cm.loc_of(t["span"]) if t else b.loc()
                via = " -> ".join(cg.path_to(K, path)[-4:])
                if cls is None:
                    ctx.fail("C03-R5", path, "call " + name,
                             "unmodelled external callee reachable from synthesis (via %s); "
                             "add a model entry after reading it" % via, loc)
                else:
                    ctx.fail("C03-R5", path, "call " + name,
                             "%s operation in synthesis: %s (via %s)" % (cls, why, via), loc)
        for t in cg.unresolved.get(path, []):
            bad += 1
            if tag == "repo":
                ctx.fail("C03-R5", path, "call " + t["callee"]["def"],
                         "unresolved local callee (no impl found)", cm.loc_of(t["span"]))
        for t in cg.indirect.get(path, []):
            # call through a fn pointer / dyn: target unknown
            info = t["callee"].get("info", {})
            if info.get("k") in ("closure", "fndef"):
                continue
            bad += 1
            if tag == "repo":
                ctx.fail("C03-R5", path, "indirect call " + t["callee"]["ty"],
                         "call through a function pointer or trait object: target unknown",
                         cm.loc_of(t["span"]))
        # MIR-level: pointer exposure casts
        for bb, i, st in b.iter_stmts():
            if st["k"] == "assign" and st["rv"]["k"] == "cast" and "Expose" in st["rv"]["kind"]:
                bad += 1
                if tag == "repo":
                    ctx.fail("C03-R5", path, "cast " + st["rv"]["kind"],
                             "pointer -> integer cast (address-dependent value)", cm.loc_of(st["span"]))
    return sites, bad, classes


def static_refs(ctx, p, K, tag):
    """uses of any static (own crate or foreign) from K: list them; mutable/non-freeze ones are
    covered by R1 for this crate, foreign ones are reported."""
    n = 0
    for path in K:
        b = p.bodies[path]
        for bb, i, st in b.iter_stmts():
            if st["k"] != "assign":
                continue
            rv = st["rv"]
            ops = [rv.get("op"), rv.get("a"), rv.get("b")] + list(rv.get("ops", []))
            for o in ops:
                if isinstance(o, dict) and o.get("k") == "const" and "static" in o:
                    n += 1
                    if o.get("static_krate") != p.crate and tag == "repo":
                        ctx.fail("C03-R1", path, "static " + o["static"],
                                 "synthesis reads a foreign static", cm.loc_of(st["span"]))
    return n


def setter_rule(ctx, p, bodies, tag, rule="C03-R7"):
    """R7: stored value's backward slice contains no read of *self; exactly one field written.
    returns list of (path, problems)"""
    res = []
    for path in bodies:
        b = p.bodies[path]
        eb = ExprBuilder(b)
        stores = []
        for bb, i, st in b.iter_stmts():
            if st["k"] != "assign" or not st["place"]["proj"]:
                continue
            tgt = eb.place(st["place"])
            root = tgt
            while root[0] in ("field", "idx", "variant"):
                root = root[1]
            if root[0] == "arg" and root[1] == 1:
                stores.append((st, tgt, eb.rvalue(st["rv"])))
        # stores through index_mut results: `*index_mut(&mut self.f, i) = v`
        problems = []
        fields = set()
        for st, tgt, val in stores:
            f = tgt
            chain = []
            while f[0] in ("field", "idx", "variant"):
                if f[0] == "field":
                    chain.append(f[2])
                f = f[1]
            fields.add(chain[-1] if chain else "?")
            # a local validating helper `fn h(&self, v) -> Result<T, E>` contributes its Ok payload only:
            # whether it *accepts* may depend on self (a guard), the value it yields must not
            for x in walk(success_value(p, val)):
                if x[0] == "arg" and x[1] == 1:
                    problems.append(("reads-self", "stored value depends on the previous state of self: "
                                     + show(val), st))
                    break
        # calls that receive self mutably (other than index_mut on a field) are opaque writers
        for bb, t in b.calls():
            c = t["callee"]
            name = callee_name(c) if c["k"] == "fndef" else "<indirect>"
            for a in t["args"]:
                if a["k"] in ("copy", "move"):
                    e = eb.place(a["place"])
                    r = e
                    while r[0] in ("field", "idx", "variant"):
                        r = r[1]
                    lty = b.local_ty(a["place"]["local"])
                    if r[0] == "arg" and r[1] == 1 and lty.startswith("&mut") and \
                            "IndexMut" not in name and "index_mut" not in name:
                        problems.append(("opaque-writer", "self passed mutably to " + name, t))
        if len(fields) != 1:
            problems.append(("fields", "writes %d fields %s (expected exactly one)" % (len(fields), sorted(fields)), None))
        res.append((path, problems, sorted(fields)))
    return res



def deps_purity(ctx):
    """thorough: the two third-party crates whose code runs inside synthesis (label parsing is
    outside it, question matching is inside): jlabel-question's matcher closure and jlabel's types.
    Same rules as R1/R4/R5, on facts extracted with RUSTC_WRAPPER: no static with interior
    mutability / static mut / thread_local in the crate, no user-written unsafe in the matcher
    closure, and every callee that leaves the crate is classified (regex_automata / regex_syntax
    are the audited exception of R5)."""
    from .. import facts
    from ..callgraph import CallGraph
    from ..model import classify
    for crate, root_pat in (("jlabel_question", "QuestionMatcher>::test"),):
        try:
            jp = facts.load("default", crate=crate, deps=True)
        except Exception as e:  # fail closed
            ctx.fail("C03-R5", crate, "deps facts", "cannot extract facts of %s: %s" % (crate, e))
            continue
        bad_statics = [s for s in jp.statics if s.get("mutable") or not s.get("freeze", True) or s.get("thread_local")]
        if bad_statics:
            for s in bad_statics:
                ctx.fail("C03-R1", s.get("path", crate), "static", "%s has a mutable / interior-mutable / thread-local static" % crate)
        else:
            ctx.ok("C03-R1", "thorough: %s has no static mut, non-Freeze static or thread_local (%d statics)" % (crate, len(jp.statics)))
        jcg = CallGraph(jp)
        roots = [pth for pth in jp.bodies if pth.endswith(root_pat)]
        if not roots:
            ctx.fail("C03-R5", crate, "roots", "no %s implementation found in %s" % (root_pat, crate))
            continue
        C = jcg.closure(roots)
        uns = [u for u in jp.unsafe if not u["span"].get("exp") and any(u.get("fn", "") == k or u.get("fn", "").startswith(k + "::") for k in C)]
        if uns:
            for u in uns:
                ctx.fail("C03-R4", u.get("fn", crate), "unsafe block", "user-written unsafe in the question matcher closure of %s" % crate)
        else:
            ctx.ok("C03-R4", "thorough: no user-written unsafe in the %d bodies reached from %s" % (len(C), root_pat))
        ext = {}
        for k in C:
            for name, c_, t in jcg.ext.get(k, []):
                cls, why = classify(name)
                ext.setdefault(cls, set()).add(name)
        audited = {n for n in ext.get(None, set()) if n.startswith("regex_automata::") or n.startswith("regex_syntax::")}
        unknown = sorted(ext.get(None, set()) - audited)
        badc = sorted(n for cls in ("nondet", "io", "interior") for n in ext.get(cls, set()))
        ctx.units["deps_%s" % crate] = {"bodies": len(jp.bodies), "matcher_closure": len(C), "external_by_class": {str(k): len(v) for k, v in ext.items()}, "audited_regex_callees": sorted(audited)}
        if badc:
            for n in badc:
                ctx.fail("C03-R5", crate, "call " + n, "the question matcher reaches a nondeterministic / stateful / IO callee")
        if unknown:
            for n in unknown:
                ctx.fail("C03-R5", crate, "call " + n, "unmodelled external callee reached from the question matcher of %s" % crate)
        if not badc and not unknown:
            ctx.ok("C03-R5", "thorough: every callee leaving %s from the matcher closure is pure/allocating/diverging, or one of %d regex_automata / regex_syntax entry points (audited exception)" % (crate, len(audited)))


def run(ctx):
    ctx.rule("C03-R1", "no static mut / non-Freeze static / thread_local in the crate")
    ctx.rule("C03-R2", "no UnsafeCell reachable from Engine/SpeechGenerator/Vocoder/VoiceSet/Voice/Condition except audited ADTs")
    ctx.rule("C03-R3", "Engine, VoiceSet, Condition: Send+Sync(+Clone); SpeechGenerator: Send; synthesize/generator take &self")
    ctx.rule("C03-R4", "no user-written unsafe in K")
    ctx.rule("C03-R5", "every external callee reached from K is pure/allocating, stderr or diverging; none nondeterministic, stateful or unmodelled")
    ctx.rule("C03-R6", "noise generators and filter state are built from constants and parameters only")
    ctx.rule("C03-R7", "every Condition / InterporationWeight setter stores a value independent of the previous state and writes exactly one field")
    ctx.rule("C03-R8", "Clone impls of Engine, Condition, VoiceSet, InterporationWeight, Weights are derived (field-wise)")
    ctx.rule("C03-R9", "no hidden condition state: every setting a setter writes is returned verbatim by its getter, so conditions with equal getter values are equal (a history like `never set` vs `set to the default` cannot be told apart by synthesis)")
    ctx.rule("C03-R10", "Condition::load_model is history-free: the getter-less fields it derives from the voice (stage, use_log_gain) are written on every successful path")
    ctx.rule("controls", "each zero-count rule flags its deliberate instance in /verif/fixtures/controls")

    # ---- positive controls first
    cp = cm.controls(ctx)
    ccg = cm.callgraph(cp)
    n = static_rule(ctx, cp, "controls")
    (ctx.ok if n >= 4 else None) and ctx.ok("controls", "R1 flags static mut, atomic static, 2 thread_local statics + tls access (%d)" % n)
    if n < 4:
        ctx.fail("controls", "fixtures/controls", "R1", "static rule flagged %d < 4 control instances" % n)
    if any(s["path"] == "TABLE" and (s["mutable"] or not s["freeze"]) for s in cp.statics):
        ctx.fail("controls", "fixtures/controls", "R1-neg", "immutable Freeze static wrongly flagged")
    n = unsafe_rule(ctx, cp, None, "controls")
    if n >= 2:
        ctx.ok("controls", "R4 flags user unsafe blocks (%d)" % n)
    else:
        ctx.fail("controls", "fixtures/controls", "R4", "unsafe rule flagged %d < 2" % n)
    Kc = ccg.closure(["nondeterministic", "unmodelled_callee"])
    sites, bad, classes = ext_rule(ctx, cp, ccg, Kc, "controls")
    need = {"nondet", "interior"}
    if need <= set(classes) and bad >= 5:
        ctx.ok("controls", "R5 flags time, HashMap iteration, atomics, TLS, env (%s)" % classes)
    else:
        ctx.fail("controls", "fixtures/controls", "R5", "external-callee rule missed controls: %s" % classes)
    hc = cp.adts["HasCell"]
    if any(h["what"] == "UnsafeCell" and not audited_cell(h) for h in hc["deep"]) and not hc["traits"]["Sync"]:
        ctx.ok("controls", "R2/R3 see Cell inside HasCell and !Sync")
    else:
        ctx.fail("controls", "fixtures/controls", "R2", "deep walk missed Cell in HasCell")
    if cp.adts["NotSend"]["traits"]["Send"] is False and cp.adts["Plain"]["traits"]["Send"] is True:
        ctx.ok("controls", "R3 trait answers: NotSend !Send, Plain Send")
    else:
        ctx.fail("controls", "fixtures/controls", "R3", "trait solver answers wrong on controls")
    sr = dict((pth, (pr, f)) for pth, pr, f in setter_rule(ctx, cp, [
        "Settings::set_volume_accumulating", "Settings::set_speed_two_fields", "Settings::set_speed_ok"], "controls"))
    if any(k == "reads-self" for k, _, _ in sr["Settings::set_volume_accumulating"][0]) and \
            any(k == "fields" for k, _, _ in sr["Settings::set_speed_two_fields"][0]) and \
            not sr["Settings::set_speed_ok"][0]:
        ctx.ok("controls", "R7 flags accumulating and two-field setters, accepts a clamp setter")
    else:
        ctx.fail("controls", "fixtures/controls", "R7", "setter rule wrong on controls: %r" % (sr,))

    # ---- the repository, every configuration of this tier
    for config in cm.configs_for(ctx):
        p = cm.program(ctx, config)
        cg = cm.callgraph(p)
        K, roots = cm.synth_closure(ctx, p, cg)
        ctx.units.setdefault("K", {})[config] = len(K)
        ctx.anchor("C03-R5", "synthesis closure K (%s)" % config, len(K), K_FLOOR)

        # R1
        before = len(ctx.violations)
        static_rule(ctx, p, "repo")
        static_refs(ctx, p, K, "repo")
        if len(ctx.violations) == before:
            ctx.ok("C03-R1", "%d statics in crate, none mutable/non-Freeze/thread-local (%s)" % (len(p.statics), config))

        # R2
        for root in ROOT_TYPES:
            a = p.adts.get(root)
            if a is None:
                ctx.fail("C03-R2", root, "anchor", "root type not found")
                continue
            hits = [h for h in a["deep"] if h["what"] == "UnsafeCell"]
            badh = [h for h in hits if not audited_cell(h)]
            for h in badh:
                ctx.fail("C03-R2", root, "UnsafeCell via " + "/".join(x for x in h["via"] if x.startswith(".") or "::" in x)[-160:],
                         "interior mutability reachable from %s: %s" % (root, h["ty"]), cm.loc_of(a["span"]))
            if not badh:
                ctx.ok("C03-R2", "%s: %d UnsafeCell hits, all audited (%s)" % (
                    root, len(hits), sorted({audited_cell(h) for h in hits})), cm.loc_of(a["span"]))
            # opaque boundaries: dyn / fn pointers could hide state; list and audit
            for h in a["deep"]:
                if h["what"] in ("dyn", "fnptr", "opaque") and "regex" not in " ".join(h["via"]) + h["ty"]:
                    ctx.fail("C03-R2", root, "%s %s" % (h["what"], h["ty"]),
                             "opaque type boundary reachable from %s (cannot be walked)" % root,
                             cm.loc_of(a["span"]))

        # R3
        want = {"engine::Engine": ("Send", "Sync", "Clone"), "model::voice_set::VoiceSet": ("Send", "Sync", "Clone"),
                "engine::Condition": ("Send", "Sync", "Clone"), "speech::SpeechGenerator": ("Send",),
                "vocoder::Vocoder": ("Send",)}
        for ty, traits in want.items():
            a = p.adts.get(ty)
            if not a:
                continue
            for tr in traits:
                if a["traits"].get(tr) is True:
                    ctx.ok("C03-R3", "%s: %s" % (ty, tr), cm.loc_of(a["span"]))
                else:
                    ctx.fail("C03-R3", ty, "trait " + tr, "%s does not implement %s" % (ty, tr), cm.loc_of(a["span"]))
        for fn in ("engine::Engine::synthesize", "engine::Engine::generator"):
            b = p.body(fn)
            if b is None:
                continue
            if b.local_ty(1) == "&engine::Engine":
                ctx.ok("C03-R3", "%s takes &self" % fn, b.loc())
            else:
                ctx.fail("C03-R3", fn, "receiver", "receiver is %s, expected &Engine" % b.local_ty(1), b.loc())

        # R4
        before = len(ctx.violations)
        unsafe_rule(ctx, p, K, "repo")
        if len(ctx.violations) == before:
            ctx.ok("C03-R4", "no user-written unsafe in K (%d unsafe items in crate, all in macro expansions or outside K) (%s)" % (len(p.unsafe), config))

        # R5
        before = len(ctx.violations)
        sites, bad, classes = ext_rule(ctx, p, cg, K, "repo")
        ctx.units.setdefault("external_call_sites_in_K", {})[config] = {"sites": sites, "classes": classes}
        ctx.anchor("C03-R5", "external call sites classified (%s)" % config, sites, EXT_SITE_FLOOR)
        if len(ctx.violations) == before:
            ctx.ok("C03-R5", "%d external call sites in %d bodies: %s (%s)" % (sites, len(K), classes, config))

        if config != "default":
            continue

        # R6 fixed seeds
        for ctor in ("vocoder::excitation::Random::new", "vocoder::excitation::Mseq::new",
                     "vocoder::excitation::Excitation::new", "vocoder::Vocoder::new", "vocoder::stage::Stage::new"):
            b = cm.body_or_fail(ctx, p, "C03-R6", ctor)
            if b is None:
                continue
            eb = ExprBuilder(b)
            ret = eb.local(0)
            badleaf = []
            for x in eb.expand_all(ret):
                if x[0] in ("var", "unk", "tls", "icall"):
                    badleaf.append(show(x))
                if x[0] == "call":
                    nm = x[1]
                    # local constructors and pure std helpers only
                    if nm in p.bodies:
                        continue
                    cls, _ = classify(nm if "::" in nm else "core::f64::<impl f64>::" + nm.split("::")[-1])
                    if nm.startswith("f64::") or nm.startswith("int::"):
                        continue
                    if cls != "pure":
                        badleaf.append(nm)
            if badleaf:
                ctx.fail("C03-R6", ctor, "return value", "initial state depends on something other than constants and parameters: %s" % badleaf[:4], b.loc())
            else:
                ctx.ok("C03-R6", "%s = %s" % (ctor, show(ret)[:200]), b.loc())
        # the two seeds the property names
        b = p.body("vocoder::excitation::Random::new")
        if b:
            ret = ExprBuilder(b).local(0)
            if ret[0] == "agg" and "next" in ret[3]:
                nx = ret[2][ret[3].index("next")]
                if nx[0] == "c":
                    ctx.ok("C03-R6", "Random::new: LCG state is the constant %s" % nx[1], b.loc())
                else:
                    ctx.fail("C03-R6", b.path, "field next", "LCG seed is not a constant: " + show(nx), b.loc())
        b = p.body("vocoder::excitation::Mseq::new")
        if b:
            ret = ExprBuilder(b).local(0)
            if ret[0] == "agg" and all(x[0] == "c" for x in ret[2]):
                ctx.ok("C03-R6", "Mseq::new: shift register is the constant %#x" % ret[2][0][1], b.loc())
            else:
                ctx.fail("C03-R6", b.path, "field x", "M-sequence seed is not a constant", b.loc())

        # R7
        setters = [path for path in p.bodies
                   if (path.startswith("engine::Condition::set_") or
                       path.startswith("model::interporation_weight::InterporationWeight::set_"))]
        ctx.anchor("C03-R7", "setters", len(setters), SETTER_FLOOR)
        for path, problems, fields in setter_rule(ctx, p, setters, "repo"):
            b = p.bodies[path]
            if problems:
                for kind, why, item in problems:
                    ctx.fail("C03-R7", path, kind, why, b.loc())
            else:
                ctx.ok("C03-R7", "%s writes only %s, value independent of previous state" % (path, fields), b.loc())

        # R10: load_model is history-free too.  The fields it derives from the voice and that no
        # setter / getter exposes (stage <- GAMMA, use_log_gain <- LN_GAIN) are written on *every*
        # successful path - a store that only happens when the option key is present leaves what an
        # earlier voice put there, and two conditions with equal getter values synthesize differently
        lm = cm.body_or_fail(ctx, p, "C03-R10", "engine::Condition::load_model")
        if lm is not None:
            from ..expr import stores as _stores
            leb = ExprBuilder(lm)
            oks = [bb_ for bb_, e_, it_ in paths.return_exprs(lm, leb) if paths.is_ok(e_)]
            for fld in ("stage", "use_log_gain"):
                sbs = [bb_ for bb_, i_, st_, tgt_, root_, chain_, val_ in _stores(lm, leb) if chain_ == [fld] and root_[0] == "arg" and root_[1] == 1]
                # is there a path from entry to an Ok return that passes none of the stores?
                skipped = any(lm.can_reach(0, r_, avoid=set(sbs)) for r_ in oks) if oks else True
                if sbs and not skipped:
                    ctx.ok("C03-R10", "load_model writes `%s` on every successful path (%d store sites)" % (fld, len(sbs)), lm.loc())
                else:
                    ctx.fail("C03-R10", lm.path, "field " + fld, "load_model can return Ok without writing `%s` (it is stored only when the voice's option line has the key): the value an earlier load_model left there survives, no getter shows it, and the waveform depends on the load history" % fld, lm.loc())
        # the engine is its two public parts and nothing else: a private field would be a value
        # derived at construction that `engine.voices = ..` / `engine.condition = ..` cannot keep
        # current (seed C03k: a cached low-pass order)
        ea = p.adts.get("engine::Engine")
        if ea is not None and ea.get("variants"):
            hidden = [f["name"] for f in ea["variants"][0]["fields"] if f.get("vis") != "pub"]
            if hidden:
                ctx.fail("C03-R9", "engine::Engine", "hidden field " + ",".join(hidden), "Engine has non-public field(s) %s next to the public, assignable `voices` and `condition`: the waveform then depends on what the engine was constructed with, not only on its current voice set and condition" % hidden, cm.loc_of(ea.get("span") or {}))
            else:
                ctx.ok("C03-R9", "Engine consists of its public fields only (%s): nothing derived is cached beside them" % [f["name"] for f in ea["variants"][0]["fields"]], cm.loc_of(ea.get("span") or {}))
        # R9 (the rule C20-R2 decides, stated for C03's purpose)
        from .c20 import getters_verbatim
        getters_verbatim(ctx, p, "C03-R9")

        # R8
        for ty in ("engine::Engine", "engine::Condition", "model::voice_set::VoiceSet",
                   "model::interporation_weight::InterporationWeight", "model::interporation_weight::Weights",
                   "vocoder::Vocoder"):
            ims = [im for im in p.impls if im.get("self_adt") == ty and im.get("trait") in ("std::clone::Clone", "core::clone::Clone")]
            if not ims:
                ctx.fail("C03-R8", ty, "impl Clone", "no Clone impl found")
                continue
            for im in ims:
                if im["derived"]:
                    ctx.ok("C03-R8", "%s: Clone is #[derive]d (field-wise)" % ty, cm.loc_of(im["span"]))
                else:
                    ctx.fail("C03-R8", ty, "impl Clone", "hand-written Clone impl: a clone need not equal the original", cm.loc_of(im["span"]))

    if ctx.tier == "thorough":
        deps_purity(ctx)
    ctx.assume("rustc's MIR construction and trait resolution are correct")
    ctx.assume("model table of external callees (jbv/model.py): one line per family with reason")
    ctx.assume("regex_automata's cache pool does not influence match results (audited exception)")
    ctx.assume("engine built by Engine::load (condition vectors have one entry per stream)")
    expl = ("Effect/purity analysis of the whole synthesis call-graph closure K (resolved callees, closures, "
            "trait impls), deep UnsafeCell walk of the types reachable from &Engine, trait-solver answers for "
            "Send/Sync/Clone, history-freedom of every setter, derived Clone impls; each zero-count rule is "
            "first shown to fire on its positive control in fixtures/controls. Decides: output is a function "
            "of (voices, condition values, labels); no call can change the engine; any interleaving computes "
            "the same function.")
    return expl, ["rustc MIR/trait solver", "jbv/model.py external callee table", "regex-automata pool audit"]
