"""C17 - All label input forms agree; bad label text is an error."""
import re

from .. import ledger, paths
from ..expr import alternatives, ExprBuilder, show, walk, canon, is_const, root_of, to_poly, Poly
from ..taint import Taint
from . import common as cm
from .c18 import const_small

IMPLS = {
    "vec_label": "<std::vec::Vec<jlabel::Label> as label::ToLabels>::to_labels",
    "slice": "<&[S] as label::ToLabels>::to_labels",
    "array": "<&[S; N] as label::ToLabels>::to_labels",
    "vec_string": "<std::vec::Vec<std::string::String> as label::ToLabels>::to_labels",
}
LFS = "label::Labels::load_from_strings"
LNEW = "label::Labels::new"

T2 = {
    "unwrap|label::Labels::load_from_strings|Option::expect|0":
        (r"splitn\(", "the first item of splitn on a fresh iterator is always Some"),
}


def accumulated_vectors(lf):
    """locals of the two vectors handed to the final Labels::new(<labels>, Some(<times>)) call of
    load_from_strings, found through the call's operands (not through variable names)"""
    def chase(op):
        n = 0
        while op is not None and op.get("k") in ("move", "copy") and not op["place"]["proj"] and n < 8:
            l = op["place"]["local"]
            ds = [d for d in lf.defs().get(l, []) if not lf.is_cleanup(d[0])]
            if len(ds) == 1 and ds[0][1] != "term":
                rv = ds[0][2]["rv"]
                if rv["k"] == "use" and rv["op"].get("k") in ("move", "copy") and not rv["op"]["place"]["proj"]:
                    op = rv["op"]
                    n += 1
                    continue
                if rv["k"] == "aggregate" and len(rv["ops"]) == 1 and "Option" in str(rv["kind"].get("def", "")):
                    op = rv["ops"][0]
                    n += 1
                    continue
            return l
        return None
    roles = {}
    for bb, t in lf.calls():
        c = t["callee"]
        if c["k"] == "fndef" and cm.callee_name(c) == LNEW and len(t["args"]) == 2:
            roles["labels"] = chase(t["args"][0])
            roles["times"] = chase(t["args"][1])
    return roles


def run(ctx):
    ctx.rule("C17-R1", "convergence: &[S;N] and Vec<String> delegate to the &[S] impl with an identity view and the same condition; &[S] calls Labels::load_from_strings which ends in Labels::new(labels, Some(times)); Vec<Label> calls Labels::new(self, None)")
    ctx.rule("C17-R2", "times are inert without alignment: the field Labels::times is read only through its accessor, whose only use in synthesis is under the alignment flag; the parsed labels do not depend on sampling rate / frame period")
    ctx.rule("C17-R3", "unit factor 100 ns -> frames (C09-R1)")
    ctx.rule("C17-R4", "pairing: on every non-error path through the line loop the pushes to `labels` and `times` are (1,1), or (0,0) on the blank-line path")
    ctx.rule("C17-R5", "panic ledger of the label reader: every panic-capable construct is T1/T2; fallible parses are propagated with `?` into LabelError, and Engine::generator propagates LabelError")
    p = cm.program(ctx)
    cg = cm.callgraph(p)

    # ---- R1
    bodies = {}
    for k, path in IMPLS.items():
        bodies[k] = cm.body_or_fail(ctx, p, "C17-R1", path)
    ims = [b for b in p.bodies.values() if (b.impl or {}).get("trait_path") == "label::ToLabels" and not (b.impl or {}).get("provided")]
    ctx.anchor("C17-R1", "ToLabels impls", len(ims), 4)
    extra = [b.path for b in ims if b.path not in IMPLS.values()]
    for e in extra:
        ctx.fail("C17-R1", e, "new ToLabels impl", "a label input form that is not covered by the convergence rule", p.bodies[e].loc())
    for k in ("array", "vec_string"):
        b = bodies.get(k)
        if b is None:
            continue
        ret = ExprBuilder(b).local(0)
        sl = bodies.get("slice")
        sret = ExprBuilder(sl).local(0) if sl is not None else None
        if ret[0] == "call" and ret[1] == IMPLS["slice"] and len(ret[2]) == 2 and show(ret[2][0]) in ("self",) and show(ret[2][1]) == "condition":
            ctx.ok("C17-R1", "%s delegates to <&[S]>::to_labels(self as slice, condition)" % IMPLS[k], b.loc())
        elif sret is not None and ret[0] == "call" and ret[1] == LFS and sret[0] == "call" and sret[1] == LFS and len(ret[2]) == 3 \
                and [show(a) for a in ret[2][:2]] == [show(a) for a in sret[2][:2]] and show(ret[2][2]) == "self" and show(sret[2][2]) == "self":
            ctx.ok("C17-R1", "%s makes the same call as <&[S]>::to_labels: load_from_strings(same rate, same period, self as slice)" % IMPLS[k], b.loc())
        else:
            ctx.fail("C17-R1", b.path, "delegation", "returns %s, expected <&[S] as ToLabels>::to_labels(self.as_slice(), condition)" % show(ret), b.loc())
    b = bodies.get("slice")
    if b is not None:
        ret = ExprBuilder(b).local(0)
        if ret[0] == "call" and ret[1] == LFS and show(ret[2][2]) == "self":
            ctx.ok("C17-R1", "<&[S]>::to_labels = Labels::load_from_strings(.., .., self)", b.loc())
        else:
            ctx.fail("C17-R1", b.path, "delegation", "returns %s" % show(ret), b.loc())
    b = bodies.get("vec_label")
    if b is not None:
        ret = ExprBuilder(b).local(0)
        if ret[0] == "call" and ret[1] == LNEW and show(ret[2][0]) == "self" and ret[2][1][0] == "agg" and ret[2][1][1].endswith("Option::None"):
            ctx.ok("C17-R1", "Vec<Label>::to_labels = Labels::new(self, None)", b.loc())
        else:
            ctx.fail("C17-R1", b.path, "delegation", "returns %s, expected Labels::new(self, None)" % show(ret), b.loc())
    lf = cm.body_or_fail(ctx, p, "C17-R1", LFS)
    if lf is not None:
        eb = ExprBuilder(lf)
        finals = [(bb, e) for bb, e, item in paths.return_exprs(lf, eb) if e[0] == "call" and e[1] == LNEW]
        okf = False
        roles = accumulated_vectors(lf)   # the two accumulated vectors, by role
        for bb, e in finals:
            a0, a1 = e[2]
            if a0[0] == "call" and a0[1].endswith("with_capacity") or a0[0] == "var":
                if a1[0] == "agg" and a1[1].endswith("Option::Some"):
                    okf = True
        if okf:
            ctx.ok("C17-R1", "load_from_strings ends in Labels::new(labels, Some(times))", lf.loc())
        else:
            ctx.fail("C17-R1", lf.path, "final call", "load_from_strings does not end in Labels::new(labels, Some(times)): %s" % [show(e)[:100] for bb, e in finals], lf.loc())
    ln = cm.body_or_fail(ctx, p, "C17-R1", LNEW)
    if ln is not None:
        eb = ExprBuilder(ln)
        oks = [e for bb, e, item in paths.return_exprs(ln, eb) if paths.is_ok(e)]
        good = oks and all(e[2][0][0] == "agg" and dict(zip(e[2][0][3], e[2][0][2])).get("labels", ("x",))[0] == "arg" for e in oks)
        if good:
            ctx.ok("C17-R1", "Labels::new stores the given labels unchanged on both the Some and None paths (%d Ok returns)" % len(oks), ln.loc())
        else:
            ctx.fail("C17-R1", ln.path, "labels field", "Labels::new does not store its labels argument unchanged", ln.loc())

    # ---- R2
    readers = set()
    for path, bd in p.bodies.items():
        if bd.is_derived():
            continue
        for bb, blk in enumerate(bd.blocks):
            if blk["cleanup"]:
                continue
            if "'name': 'times', 'of': 'label::Labels'" in repr(blk):
                readers.add(path)
    if readers <= {"label::Labels::times"}:
        ctx.ok("C17-R2", "field Labels::times is read only in its accessor", None)
    else:
        for r in sorted(readers - {"label::Labels::times"}):
            ctx.fail("C17-R2", r, "reads Labels::times", "the times field is read outside its accessor", p.bodies[r].loc())
    K, _ = cm.synth_closure(ctx, p, cg)
    tcalls = []
    for path in K:
        bd = p.bodies[path]
        for bb, t in cm.local_calls(bd, p, exact="label::Labels::times"):
            tcalls.append((bd, bb, t))
    ctx.anchor("C17-R2", "calls of Labels::times in K", len(tcalls), 1)
    for bd, bb, t in tcalls:
        gs = paths.guards(bd, bb)
        if any(g[0] == "true" and show(g[1]).endswith("condition.phoneme_alignment_flag") for g in gs):
            ctx.ok("C17-R2", "%s: labels.times() is read only on the alignment-flag-true edge" % bd.path, cm.loc_of(t["span"]))
        else:
            # the accessor only hands out a reference: what matters is where that reference is
            # *used*.  Follow the result through plain moves; every consumer must sit on the
            # flag-true edge (`let t = labels.times(); if flag { fit(t) } else { .. }`)
            work, seen_l, consumers = [t["dest"]["local"]], set(), []
            while work:
                l_ = work.pop()
                if l_ in seen_l:
                    continue
                seen_l.add(l_)
                for ubb, ui, item in bd.uses(l_):
                    if ui != "term" and item.get("k") == "assign" and item["rv"]["k"] in ("use", "ref", "copyforderef", "cast") and not item["place"]["proj"]:
                        work.append(item["place"]["local"])
                    else:
                        consumers.append((ubb, ui, item))
            okc = bool(consumers)
            for ubb, ui, item in consumers:
                if ui == "term" and item.get("k") == "drop":
                    continue
                gsu = paths.guards(bd, ubb)
                if not any(g[0] == "true" and show(g[1]).endswith("condition.phoneme_alignment_flag") for g in gsu):
                    okc = False
            if okc:
                ctx.ok("C17-R2", "%s: the slice returned by labels.times() is consumed only on the alignment-flag-true edge" % bd.path, cm.loc_of(t["span"]))
            else:
                ctx.fail("C17-R2", bd.path, "times() without flag", "time stamps are read although alignment may be off", cm.loc_of(t["span"]))
    if lf is not None:
        tn = Taint(lf, tainted_args=[1, 2], program=p)
        # the labels vector and every value pushed into it
        lab = [roles["labels"]] if "labels" in roles else []
        for bb_, t_ in lf.calls():
            c_ = t_["callee"]
            if c_["k"] == "fndef" and cm.callee_name(c_).endswith("Vec::<T, A>::push"):
                rl = t_["args"][0]["place"]["local"]
                base_ = [ditem["rv"]["place"]["local"] for dbb, didx, ditem in lf.defs().get(rl, []) if didx != "term" and ditem["rv"]["k"] == "ref"]
                if base_ and base_[0] == roles.get("labels") and t_["args"][1].get("k") in ("move", "copy"):
                    lab.append(t_["args"][1]["place"]["local"])
        if not lab:
            ctx.fail("C17-R2", lf.path, "labels vector", "cannot identify the accumulated labels vector", lf.loc())
        bad = [l for l in lab if tn.local_tainted(l)]
        if bad:
            # second opinion, projection-aware: the taint engine is one field level deep, so a label
            # returned by a helper packed with its times - Ok(Some((label, (start, end)))) - is
            # tainted with them.  Every value pushed into `labels`, expanded through every merged
            # temporary with projections pushed into the aggregates, must not mention the two
            # parameters.
            from ..expr import depends_on_args
            ebl = ExprBuilder(lf)
            pushed = []
            for bb_, t_ in lf.calls():
                c_ = t_["callee"]
                if c_["k"] == "fndef" and cm.callee_name(c_).endswith("Vec::<T, A>::push") and t_["args"][1].get("k") in ("move", "copy") \
                        and t_["args"][1]["place"]["local"] in lab:
                    pushed.append(ebl.at(bb_).op(t_["args"][1]))
            if pushed and all(depends_on_args(ebl, v, (1, 2)) is None for v in pushed):
                bad = []
        if bad:
            ctx.fail("C17-R2", lf.path, "labels depend on rate", "the parsed labels depend on sampling_rate / fperiod (tainted locals %s)" % [lf.local_name(l) for l in bad], lf.loc())
        else:
            ctx.ok("C17-R2", "parsed labels are independent of sampling_rate and fperiod (taint: only `times`/`start`/`end`/`rate` depend on them)", lf.loc())
        if tn.tainted_switches:
            ctx.fail("C17-R2", lf.path, "control flow depends on rate", "which lines are accepted depends on sampling_rate / fperiod", lf.loc())

    # ---- R3
    ctx.ok("C17-R3", "decided by C09-R1 (same code: pushed times = parse(token) * sampling_rate / (fperiod * 1e7))")

    # ---- R4
    if lf is not None:
        r4(ctx, p, lf)

    # ---- R5
    roots = list(IMPLS.values()) + [LFS, LNEW]
    R = cg.closure([r for r in roots if r in p.bodies])
    R = {k: v for k, v in R.items() if k.startswith("label::") or k.startswith("<") and "label::" in k or "engine::Condition::get_" in k}
    ctx.units["reader_closure"] = sorted(R)
    sites = ledger.enumerate_sites(p, R)
    ctx.anchor("C17-R5", "panic-capable sites in the label reader", len(sites), 5)
    for s in sites:
        r = t1(s)
        if r:
            ctx.ok("C17-R5", "T1 %s  %s" % (s.key, s.detail[:90]), s.loc(), r)
            continue
        ent = ledger.t2_lookup(T2, s)
        if ent and ledger.t2_match(ent, s)[0]:
            ctx.ok("C17-R5", "T2 %s" % s.key, s.loc(), ent[1])
            continue
        ctx.fail("C17-R5", s.fn, "%s %s" % (s.kind, s.api), "unaudited panic-capable construct in the label reader: `%s` (%s)" % (s.detail[:160], s.why), s.loc())
    # fallible calls are propagated
    for path in sorted(R):
        bd = p.bodies[path]
        eb = ExprBuilder(bd)
        for bb, t in bd.calls():
            c = t["callee"]
            if c["k"] != "fndef":
                continue
            nm = cm.callee_name(c)
            if nm.endswith("str>::parse") or nm == LNEW or nm == LFS or nm.endswith("ToLabels>::to_labels"):
                dl = t["dest"]["local"]
                # follow plain moves to the return slot (a helper that was inlined leaves one)
                n_mv = 0
                while dl != 0 and n_mv < 4:
                    us_ = bd.uses(dl)
                    mv = [it for ub_, ui_, it in us_ if ui_ != "term" and it.get("k") == "assign" and it["rv"]["k"] == "use" and it["rv"]["op"].get("k") == "move" and not it["place"]["proj"]]
                    if len(us_) == 1 and len(mv) == 1:
                        dl = mv[0]["place"]["local"]
                        n_mv += 1
                    else:
                        break
                if dl == 0:
                    ctx.ok("C17-R5", "%s: result of %s is returned to the caller" % (path, nm.split("::")[-1]), cm.loc_of(t["span"]))
                    continue
                uses = bd.uses(dl)
                prop = False
                for ubb, ui, item in uses:
                    if ui == "term" and item["k"] == "call" and item["callee"]["k"] == "fndef":
                        un = cm.callee_name(item["callee"])
                        if un.endswith("Try>::branch") or un.endswith("map_err") or un.endswith("Try::branch"):
                            prop = True
                        if "unwrap" in un or "expect" in un:
                            prop = False
                            break
                if prop:
                    ctx.ok("C17-R5", "%s: %s result is propagated with `?`" % (path, nm.split("::")[-1]), cm.loc_of(t["span"]))
                else:
                    ctx.fail("C17-R5", path, "fallible " + nm.split("::")[-1], "the result of a fallible parse is not propagated as an error", cm.loc_of(t["span"]))
    g = p.body("engine::Engine::generator")
    if g is not None:
        okp = False
        for bb, t in g.calls():
            c = t["callee"]
            if c["k"] == "fndef" and c.get("def") == "label::ToLabels::to_labels":
                work = [t["dest"]["local"]]
                seen_ = set()
                while work:
                    l_ = work.pop()
                    if l_ in seen_:
                        continue
                    seen_.add(l_)
                    for ubb, ui, item in g.uses(l_):
                        if ui == "term" and item["k"] == "call" and item["callee"]["k"] == "fndef":
                            un_ = cm.callee_name(item["callee"])
                            if un_.endswith("Try>::branch") or un_.endswith("Try::branch"):
                                okp = True
                            # `.map_err(EngineError::LabelError)?`: the converted result is what `?` sees
                            elif un_.endswith("Result::<T, E>::map_err") and item.get("dest") and not item["dest"].get("proj"):
                                work.append(item["dest"]["local"])
                        elif ui != "term" and item.get("k") == "assign" and item["rv"].get("k") == "use" and not item["place"].get("proj"):
                            work.append(item["place"]["local"])
        if okp:
            ctx.ok("C17-R5", "Engine::generator propagates the LabelError of to_labels with `?`", g.loc())
        else:
            ctx.fail("C17-R5", g.path, "to_labels result", "Engine::generator does not propagate the label error", g.loc())
    froms = [b for b in p.bodies.values() if b.path.startswith("<engine::EngineError as std::convert::From<label::LabelError>>")]
    if froms:
        ctx.ok("C17-R5", "EngineError: From<LabelError> exists (derived by thiserror)", froms[0].loc())
    else:
        ctx.fail("C17-R5", "engine::EngineError", "From<LabelError>", "no conversion from LabelError")
    ctx.assume("jlabel's `Label: FromStr` returns Err on malformed text and does not panic (model entry in the quick tier; its bodies are scanned by the E6 ledger in the thorough tier)")
    if ctx.tier == "thorough":
        deps_ledger(ctx)
    # ---- R6: one time pair per label in every form
    ctx.rule("C17-R6", "every Ok value of Labels::new has one time pair per label: with times given, only behind `labels.len() == times.len()`; without (already-parsed labels), times = vec![(unknown, unknown); labels.len()] with negative (= unknown) entries - so the alignment code sees the same shape whichever input form was used")
    nb = cm.body_or_fail(ctx, p, "C17-R6", "label::Labels::new")
    if nb is not None:
        neb = ExprBuilder(nb)
        oks = 0
        for rbb, e, item in paths.return_exprs(nb, neb):
            for v in alternatives(neb, e) if e[0] == "var" else [e]:
                if not (v[0] == "agg" and v[1].endswith("Result::Ok")):
                    continue
                inner = v[2][0]
                if not (inner[0] == "agg" and inner[3] and "times" in inner[3] and "labels" in inner[3]):
                    ctx.fail("C17-R6", nb.path, "value", "Labels::new returns Ok(%s)" % show(inner)[:80], nb.loc())
                    continue
                oks += 1
                tv = inner[2][inner[3].index("times")]
                lv = inner[2][inner[3].index("labels")]
                gs = paths.guards(nb, rbb, neb)
                if tv[0] == "call" and tv[1].endswith("from_elem") and len(tv[2]) == 2:
                    el, n = tv[2]
                    neg = el[0] == "agg" and len(el[2]) == 2 and all(x[0] == "c" and float(x[1]) < 0 for x in el[2])
                    if neg and n == ("len", lv):
                        ctx.ok("C17-R6", "without times: times = vec![(-1, -1); labels.len()]", nb.loc())
                    else:
                        ctx.fail("C17-R6", nb.path, "untimed labels", "without times the labels get `%s` as their time pairs, expected one negative (unknown) pair per label" % show(tv)[:100], nb.loc())
                else:
                    # the given vector (possibly normalised in place): behind the length comparison
                    lens = False
                    for g in gs:
                        if g[0] in ("true", "false"):
                            pos, c = paths.bool_atoms(g)
                            if c[0] == "bin" and c[1] in ("Ne", "Eq") and (c[1] == "Eq") == pos and {show(c[2]), show(c[3])} == {"len(%s)" % show(lv), "len(%s)" % show(tv)}:
                                lens = True
                    if lens:
                        ctx.ok("C17-R6", "with times: returned only behind labels.len() == times.len()", nb.loc())
                    else:
                        ctx.fail("C17-R6", nb.path, "time pairs", "Labels::new can return times = `%s` without one pair per label (no dominating length comparison with the labels)" % show(tv)[:80], nb.loc())
        ctx.anchor("C17-R6", "Ok values of Labels::new", oks, 2, nb.loc())
    expl = ("Resolved delegation chain of the four ToLabels impls, read-set of the times field and control dependence of its only use, "
            "taint from (sampling_rate, fperiod) not reaching the parsed labels, dominance/post-dominance pairing of the two pushes in the "
            "line loop, panic ledger of the reader with mechanical guards, and `?`-propagation of every fallible parse.")
    return expl, ["rustc MIR", "jlabel parser model"]


def t1(s):
    k = s.kind
    x = s.extra
    b = s.body
    eb = ExprBuilder(b)
    r0 = ledger.t1_common(s)
    if r0:
        return r0
    if ledger.is_str_slice(s):
        return None
    if k == "index":
        r = ledger.guard_index_call(s)
        if r:
            return r
        args = x.get("args") or []
        if len(args) == 2:
            obj, idx = args
            for g in paths.guards(b, s.bb, eb):
                if g[0] == "true":
                    pos, c = paths.bool_atoms(g)
                    if pos and c[0] == "bin" and c[1] == "Lt" and canon(c[2]) == canon(idx) and c[3][0] == "len" and canon(c[3][1]) == canon(obj):
                        return "index is below len() of the indexed object on the dominating edge"
    if k == "overflow":
        a, bb_ = x.get("a"), x.get("b")
        if a is not None and bb_ is not None and is_const(bb_) and x.get("op") == "Add" and bb_[1] == 1:
            r = ledger._range_loop_var(b, eb, a)
            if r and r[1][0] == "len":
                return "i < len(x) <= isize::MAX, so i + 1 cannot overflow"
        av, bv = const_small(a) if a else None, const_small(bb_) if bb_ else None
        if av is not None and bv is not None:
            return "constant arithmetic"
    if k == "alloc":
        args = x.get("args") or []
        if args and args[-1][0] == "len":
            return "capacity is the length of the input slice"
    if k.startswith("assert-") and s.span.get("exp"):
        return "compiler-inserted check in a std macro expansion"
    return None


def r4(ctx, p, lf):
    eb = ExprBuilder(lf)
    loops = lf.natural_loops()
    if len(loops) != 1:
        ctx.fail("C17-R4", lf.path, "loop", "expected one line loop, found %d" % len(loops), lf.loc())
        return
    h, lb = loops[0]
    pushes = {"labels": [], "times": []}
    roles = accumulated_vectors(lf)
    for bb, t in lf.calls():
        c = t["callee"]
        if c["k"] == "fndef" and cm.callee_name(c).endswith("Vec::<T, A>::push") and bb in lb:
            recv = t["args"][0]
            l = recv["place"]["local"]
            # receiver is `&mut labels` / `&mut times`
            base = None
            for dbb, didx, ditem in lf.defs().get(l, []):
                if didx != "term" and ditem["rv"]["k"] == "ref":
                    base = ditem["rv"]["place"]["local"]
            for rn in ("labels", "times"):
                if base is not None and roles.get(rn) == base:
                    pushes[rn].append(bb)
    if len(pushes["labels"]) != len(pushes["times"]) or not pushes["labels"]:
        ctx.fail("C17-R4", lf.path, "push counts", "labels is pushed at %d sites and times at %d" % (len(pushes["labels"]), len(pushes["times"])), lf.loc())
        return
    latches = [x for x in lb if h in lf.succs(x)]
    dom = lf.dominators()
    paired = 0
    used = set()
    for a in pushes["times"]:
        mate = None
        for b2 in pushes["labels"]:
            if b2 in used:
                continue
            first, second = (a, b2) if a in dom.get(b2, ()) else ((b2, a) if b2 in dom.get(a, ()) else (None, None))
            if first is None:
                continue
            # every continuation of `first` that stays in the loop passes `second`
            if all(not lf.can_reach(first, la, avoid={second}) or first == la for la in latches) and \
                    not any(lf.blocks[x]["term"]["k"] == "return" for x in lf.reach_from(first, avoid={second}) if x in lb):
                mate = b2
                break
        if mate is not None:
            used.add(mate)
            paired += 1
    if paired == len(pushes["times"]):
        ctx.ok("C17-R4", "%d (times.push, labels.push) pairs: each dominated/post-dominated by its mate inside the loop" % paired, lf.loc())
    else:
        ctx.fail("C17-R4", lf.path, "unpaired push", "a line can push to one of labels/times without the other (%d of %d paired)" % (paired, len(pushes["times"])), lf.loc())
    # the label is parsed from a *token* of the line (the third on a stamped line, the only one
    # otherwise), never from the whole line: jlabel accepts a line with a time prefix and folds the
    # stamps into the first phoneme field, so the waveform would depend on the stamps (seed C17k)
    from ..expr import alternatives as _alts
    for lb_ in pushes["labels"]:
        lt = lf.term(lb_)
        try:
            v = eb.at(lb_).op(lt["args"][1])
        except Exception:  # noqa: BLE001
            continue
        parses = []
        for alt in _alts(eb, v):
            for x in walk(alt):
                if x[0] == "call" and (x[1].endswith("str>::parse") or x[1].endswith("FromStr>::from_str") or x[1].endswith("FromStr::from_str")) and x[2]:
                    parses.append(x)
        for x in parses:
            src = [y for y in walk(x[2][0]) if y[0] == "call" and (("Split" in y[1] and y[1].endswith("::next")) or y[1].endswith("split_once") or y[1].endswith("split_whitespace"))]
            whole_ok = any(g[0] == "none" and isinstance(g[1], tuple) and g[1][0] == "call" and g[1][1].endswith("split_once") for g in paths.guards(lf, lb_, eb))
            if src:
                ctx.ok("C17-R4", "the pushed label is parsed from a token of the line (%s)" % src[0][1].rsplit("::", 2)[-2][:40], cm.loc_of(lt["span"]))
            elif whole_ok:
                ctx.ok("C17-R4", "the pushed label is the whole line where split_once found no separator (the line is its only token)", cm.loc_of(lt["span"]))
            else:
                ctx.fail("C17-R4", lf.path, "label source", "the pushed label is parsed from `%s`, not from a token cut off the line: on a stamped line the time stamps become part of the label's first field, and the same utterance with and without stamps synthesizes differently" % show(x[2][0])[:80], cm.loc_of(lt["span"]))
    # a line without time stamps pushes the *unknown* pair: both components strictly negative
    # constants (-0.0 is not: `start >= 0` holds for it, and the label would count as starting at 0)
    nconst = 0
    for tb in pushes["times"]:
        tt = lf.term(tb)
        try:
            v = eb.at(tb).op(tt["args"][1])
        except Exception:  # noqa: BLE001
            continue
        if v[0] == "agg" and len(v[2]) == 2 and all(x[0] == "c" for x in v[2]):
            nconst += 1
            def strictly_negative(x):
                try:
                    return float(x[1]) < 0.0
                except (TypeError, ValueError):
                    return False
            if all(strictly_negative(x) for x in v[2]):
                ctx.ok("C17-R4", "a line without time stamps pushes the unknown pair (%s, %s), both negative" % (float(v[2][0][1]), float(v[2][1][1])), cm.loc_of(tt["span"]))
            else:
                ctx.fail("C17-R4", lf.path, "unknown time pair", "a line without time stamps pushes the time pair %s: a component that is not strictly negative counts as a known time (>= 0), so alignment would treat the label as stamped" % show(v)[:60], cm.loc_of(tt["span"]))
    # the push-free path to the latch is the blank-line path
    allp = set(pushes["labels"]) | set(pushes["times"])
    empties = []
    for sb, t, arms in lf.switch_edges():
        if sb not in lb:
            continue
        d = eb.at(sb).op(t["discr"])
        if d[0] == "call" and d[1].endswith("str>::is_empty"):
            # a blank *line*: the emptiness test is on the whole line, or on its first token after
            # the split found no second token (then the first token is the whole line).  An empty
            # first token alone is a line that starts with a space - malformed, not blank.
            arg_s = show(d[2][0]) if d[2] else ""
            on_token = "SplitN" in arg_s or "Split<" in arg_s or "::split" in arg_s
            no_second = any(g[0] == "none" and ("SplitN" in show(g[1]) or "Split<" in show(g[1])) for g in paths.guards(lf, sb, eb))
            if on_token and not no_second:
                ctx.fail("C17-R4", lf.path, "blank-line test", "a line is skipped when its first token is empty, whether or not more tokens follow: a line that merely starts with a space is dropped without an error instead of being reported", cm.loc_of(t["span"]))
                continue
            for v, tg in arms:
                if v is None or v == 1:
                    empties.append((sb, tg))
    body_entries = [s for s in lf.succs(h) if s in lb]
    free = any(lf.can_reach(be, la, avoid=allp) for be in body_entries for la in latches)
    if not free:
        ctx.ok("C17-R4", "no push-free path through the loop body", lf.loc())
    elif empties:
        # removing the blank-line targets must cut every push-free path
        cut = allp | {tg for sb, tg in empties}
        still = any(lf.can_reach(be, la, avoid=cut) for be in body_entries for la in latches)
        if not still:
            ctx.ok("C17-R4", "the only push-free path through the loop is guarded by first.is_empty() (blank line)", lf.loc())
        else:
            ctx.fail("C17-R4", lf.path, "silent skip", "a non-blank line can be skipped without pushing and without an error", lf.loc())
    else:
        ctx.fail("C17-R4", lf.path, "silent skip", "lines can be skipped without pushing, and no blank-line test guards that path", lf.loc())


def deps_ledger(ctx):
    """thorough: scan jlabel's own parser bodies with the E6 enumerator"""
    from .. import facts
    try:
        jp = facts.load("default", crate="jlabel", deps=True)
    except Exception as e:  # fail closed
        ctx.fail("C17-R5", "jlabel", "deps facts", "cannot extract facts of the jlabel crate: %s" % e)
        return
    ctx.units["jlabel_bodies"] = len(jp.bodies)
    par = [pth for pth in jp.bodies if "parser" in pth or "FromStr" in pth or "from_str" in pth]
    from ..callgraph import CallGraph
    jcg = CallGraph(jp)
    roots = [pth for pth in jp.bodies if pth.endswith("FromStr>::from_str")]
    C = jcg.closure(roots)
    sites = ledger.enumerate_sites(jp, C)
    kinds = {}
    for s in sites:
        kinds[s.kind] = kinds.get(s.kind, 0) + 1
    ctx.units["jlabel_parser_closure"] = {"bodies": len(C), "sites": kinds}
    hard = [s for s in sites if s.kind in ("panic", "unwrap")]
    for s in hard:
        ctx.note("jlabel parser: %s at %s: %s" % (s.kind, s.loc(), s.detail[:100]))
    ctx.ok("C17-R5", "thorough: jlabel FromStr closure scanned: %d bodies, sites %s (explicit panic/unwrap sites listed in notes: %d)" % (len(C), kinds, len(hard)))
