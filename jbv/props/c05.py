"""C05 - MLPG: second sentence only (boundary/unvoiced masking, no-data marker, shared frame->state assignment)."""
from ..expr import ExprBuilder, show, walk, to_poly, Poly, canon, resolve_upvars, resolve_upvar_text
from .. import paths
from . import common as cm
from . import c05_solver

CREATE = "mlpg_adjust::MlpgAdjust::<'a>::create"


def no_early_return(ctx, p, cr, rule):
    """every return of MlpgAdjust::create() follows the completed column loop: an early return would
    hand out zero-initialised rows without the generated values / the no-data fill (shared by
    C05-R2 and C11-R5: unvoiced frames must carry the no-data marker)"""
    from ..expr import stores
    eb = ExprBuilder(cr)
    # every return of create() comes after the completed column loop over 0..self.vector_length:
    # an early return would hand out the zero-initialised rows without the no-data fill
    from ..loops import loop_var_parts
    col_loops = set()
    for bb, i, st, tgt, root, chain, val in stores(cr, eb):
        for g in paths.guards(cr, bb, eb):
            if g[0] == "some" and isinstance(g[1], tuple):
                lv = loop_var_parts(("field", ("variant", g[1], "Some"), "0"))
                if lv and lv[0] == "up" and show(lv[1]) == "0" and show(lv[2]) == "self.vector_length":
                    col_loops.add(g[1])
    rets = [(bb, e) for bb, e, item in paths.return_exprs(cr, eb)]
    if len(col_loops) != 1:
        ctx.fail(rule, cr.path, "column loop", "expected one loop over 0..self.vector_length around the column store, found %d" % len(col_loops), cr.loc())
    else:
        loop = next(iter(col_loops))
        early = [bb for bb, e in rets if not any(g[0] == "none" and g[1] == loop for g in paths.guards(cr, bb, eb))]
        if rets and not early:
            ctx.ok(rule, "every return of create() follows the completed column loop (no early return with unfilled rows)", cr.loc())
        else:
            ctx.fail(rule, cr.path, "early return", "create() can return before the column loop over 0..self.vector_length has run: the rows keep their zero initialisation instead of the generated / no-data values (return at %s)" % [cm.loc_of(cr.blocks[bb]["term"]["span"]) for bb in early], cr.loc())



def run(ctx):
    ctx.rule("C05-R1", "masking predicate: the precision is replaced by zero exactly on (left < window.left_width() OR right < window.right_width()) AND window_index != 0 (truth table over the three atoms); with_0 writes 0.0 to the precision and keeps the mean")
    ctx.rule("C05-R2", "masked-out frames are filled with the no-data constant")
    ctx.rule("C05-R3", "the mask and the per-window parameter sequences are expanded by the same `durations` and filtered by the same mask; element m = vector_length*window_index + vector_index with inverted variance; boundary distances come from the same mask")
    p = cm.program(ctx)
    c05_solver.check(ctx, p)
    c05_solver.check_assembly(ctx, p)

    # ---- R1
    pred = None
    outer = p.body(CREATE + "::{closure#0}")
    for cb in p.nested(CREATE):
        for bb, t in cm.local_calls(cb, p, exact="model::mean_vari::MeanVari::with_0"):
            pred = cb
    if pred is None:
        ctx.fail("C05-R1", CREATE, "anchor", "no closure calling MeanVari::with_0 found under MlpgAdjust::create")
    else:
        atoms, table = paths.truth_table(pred)
        if atoms is None:
            ctx.fail("C05-R1", pred.path, "truth table", "the masking closure is not a loop-free boolean decision over <= 6 atoms", pred.loc())
        else:
            # captured variables are compared by value: the window and its index are the two halves of
            # the enclosing closure's (index, window) parameter
            import re as _re
            ratoms = [resolve_upvar_text(p, pred, a) for a in atoms]
            A = [a for a in ratoms if a.startswith("Lt(") and "left_width(" in a]
            B = [a for a in ratoms if a.startswith("Lt(") and "right_width(" in a]
            wa = _re.search(r"left_width\((.*)\.1\)\)$", A[0]) if len(A) == 1 else None
            wb = _re.search(r"right_width\((.*)\.1\)\)$", B[0]) if len(B) == 1 else None
            C = [a for a in ratoms if wa and _re.match(r"^(Ne|Eq|Gt)\(%s\.0, 0\)$" % _re.escape(wa.group(1)), a)]
            ok_atoms = len(atoms) == 3 and len(A) == 1 and len(B) == 1 and len(C) == 1 and wa and wb and wa.group(1) == wb.group(1) and wa.group(1).startswith("{closure")
            if ok_atoms:
                # left distance is component .1.0, right is .1.1 of the zipped item; window index != 0
                ok_atoms = ".1.0" in A[0].split(",")[0] and ".1.1" in B[0].split(",")[0]
            A, B, C = ([atoms[ratoms.index(x[0])]] if x else x for x in (A, B, C))
            if not ok_atoms:
                ctx.fail("C05-R1", pred.path, "atoms", "the masking decision uses atoms %s, expected left < left_width, right < right_width, window_index != 0" % atoms, pred.loc())
            else:
                ia, ib, ic = atoms.index(A[0]), atoms.index(B[0]), atoms.index(C[0])
                c_pos = not C[0].startswith("Eq(")
                bad = []
                for assign, out in table.items():
                    a, b_, c = assign[ia], assign[ib], assign[ic] if c_pos else not assign[ic]
                    want_zero = (a or b_) and c
                    is_zero = out is not None and "with_0(" in out
                    keeps = out is not None and ("with_0(" in out or out.endswith(".0") or out.startswith("arg"))
                    if want_zero != is_zero or not keeps:
                        bad.append((assign, out))
                if not bad:
                    ctx.ok("C05-R1", "truth table (8 rows): precision zeroed exactly on (A or B) and C with A=%s, B=%s, C=%s" % (A[0][:50], B[0][:50], C[0]), pred.loc())
                    ctx.sample({"atoms": atoms, "table": {str(k): v for k, v in table.items()}})
                else:
                    ctx.fail("C05-R1", pred.path, "predicate", "masking predicate differs from (A or B) and C on rows %s" % bad, pred.loc())
    w0 = cm.body_or_fail(ctx, p, "C05-R1", "model::mean_vari::MeanVari::with_0")
    if w0 is not None:
        r = ExprBuilder(w0).local(0)
        if r[0] == "agg" and len(r[2]) == 2 and show(r[2][0]) == "self.0" and r[2][1][0] == "c" and float(r[2][1][1]) == 0.0:
            ctx.ok("C05-R1", "with_0 = (mean, 0.0)", w0.loc())
        else:
            ctx.fail("C05-R1", w0.path, "return value", "with_0 returns %s" % show(r), w0.loc())
    wi = cm.body_or_fail(ctx, p, "C05-R1", "model::mean_vari::MeanVari::with_ivar")
    if wi is not None:
        eb = ExprBuilder(wi)
        vals = [show(x) for x in eb.expand_all(eb.local(0))]
        rets = eb.local(0)
        txt = " ".join(show(e) for e in eb.def_exprs(0)) + " " + show(rets)
        allv = " ".join(show(x) for x in eb.expand_all(rets))
        if "Div(1.0, self.1)" in allv and "self.0" in allv:
            ctx.ok("C05-R1", "with_ivar = (mean, 1/variance) (with the 1e19 / 1e-19 saturations)", wi.loc())
        else:
            ctx.fail("C05-R1", wi.path, "return value", "with_ivar does not invert the variance", wi.loc())

    # ---- R2
    cr = cm.body_or_fail(ctx, p, "C05-R2", CREATE)
    if cr is not None:
        eb = ExprBuilder(cr)
        fills = cm.local_calls(cr, p, exact="mlpg_adjust::mask::Mask::fill")
        good = False
        for bb, t in fills:
            d = eb.at(bb).op(t["args"][2])
            recv = show(eb.op(t["args"][0]))
            src = show(eb.op(t["args"][1]))
            if d[0] == "c" and d[3] == "constants::NODATA" and "Mask::create(self.stream, self.msd_threshold, durations)" in recv and "MlpgMatrix::par(" in src:
                good = True
        if good:
            ctx.ok("C05-R2", "pars column = msd_flag.fill(par, NODATA): frames outside the mask carry the no-data constant", cr.loc())
        else:
            ctx.fail("C05-R2", cr.path, "fill", "masked-out frames are not filled with NODATA from the same mask", cr.loc())
        # the filled sequence is written to column vector_index of each row
        from ..expr import stores
        okc = False
        for bb, i, st, tgt, root, chain, val in stores(cr, eb):
            if chain[-1:] == ["[]"] and "vector_index" in show(tgt[2]) or (tgt[0] == "idx" and "Range" in show(tgt[2]) and "vector_length" in show(tgt[2])):
                if "Zip" in show(val) and ".1" in show(val):
                    okc = True
        if okc:
            ctx.ok("C05-R2", "each row's element [vector_index] receives the filled value", cr.loc())
        else:
            ctx.fail("C05-R2", cr.path, "column store", "the filled trajectory is not stored at [vector_index] of each row", cr.loc())

        no_early_return(ctx, p, cr, "C05-R2")

    # ---- R3
    if outer is not None and cr is not None:
        eb = ExprBuilder(outer)
        r = show(resolve_upvars(p, outer, eb.local(0)))
        MC = "mlpg_adjust::mask::Mask::create(self.stream, self.msd_threshold, durations)"
        need = [
            ("IterExt>::duration(", "expanded by durations"),
            ("), durations)", "the same durations slice that create() received"),
            ("IterExt>::filter_by(", "filtered"),
            ("mlpg_adjust::mask::Mask::mask(%s)" % MC, "by the mask of Mask::create(self.stream, self.msd_threshold, durations)"),
            ("mlpg_adjust::mask::Mask::boundary_distances(%s)" % MC, "zipped with the boundary distances of the same mask"),
            ("self.stream", "over self.stream"),
        ]
        miss = [why for s, why in need if s not in r.replace("*", "")]
        if not miss and r.count("IterExt>::duration(") == 1 and r.count("filter_by(") == 1:
            ctx.ok("C05-R3", "per-window sequence = stream.iter().map(elem[m].with_ivar).duration(durations).zip(msd_boundaries).map(mask_edge).filter_by(msd_flag.mask())", outer.loc())
        else:
            ctx.fail("C05-R3", outer.path, "pipeline", "parameter pipeline is missing: %s  (%s)" % (miss, r[:200]), outer.loc())
        # captured values (whatever the variables are called): the mask, its boundary distances, durations
        peb = ExprBuilder(cr)
        vals = None
        for bb, i, st in cr.iter_stmts():
            if st["k"] == "assign" and st["rv"]["k"] == "aggregate" and st["rv"]["kind"].get("def") == outer.path:
                vals = [show(peb.at(bb, i).op(o)) for o in st["rv"]["ops"]]
        if vals:
            okc = (any(v.endswith(MC) or v == MC for v in vals) and "durations" in vals and
                   any(v == "mlpg_adjust::mask::Mask::boundary_distances(%s)" % MC for v in vals))
            if okc:
                ctx.ok("C05-R3", "captures: Mask::create(self.stream, threshold, durations); its boundary_distances(); durations = the same slice", cr.loc())
            else:
                ctx.fail("C05-R3", cr.path, "captures", "closure captures %s" % vals, cr.loc())
        else:
            ctx.fail("C05-R3", cr.path, "closure", "window closure construction not found", cr.loc())
        # element index: state.0[vector_length*window_index + vector_index].with_ivar()
        inner = p.body(outer.path + "::{closure#0}")
        if inner is not None:
            r2e = resolve_upvars(p, inner, ExprBuilder(inner).local(0))
            r2 = show(r2e)
            okm = False
            if r2e[0] == "call" and r2e[1] == "model::mean_vari::MeanVari::with_ivar" and r2e[2][0][0] == "idx" and show(r2e[2][0][1]).endswith(".0"):
                def at(e):
                    if e[0] == "arg" and str(e[2] or "").startswith("{closure"):
                        return ("outer", e[1])
                    if e[0] == "field" and e[2] == "0" and e[1][0] == "arg" and str(e[1][2] or "").startswith("{closure"):
                        return ("WI",)
                    if e[0] == "field" and e[2] == "0" and e[1][0] == "variant" and "Range" in show(e[1][1]) and "vector_length" in show(e[1][1]):
                        return ("VI",)
                    return None
                pol = to_poly(r2e[2][0][2], at)
                vl = Poly.atom(canon(("field", ("arg", 1, "self"), "vector_length")))
                okm = pol == vl * Poly.atom(("WI",)) + Poly.atom(("VI",))
            if okm:
                ctx.ok("C05-R3", "element = state.0[vector_length*window_index + vector_index].with_ivar() (window_index = first half of the enumerate item, vector_index = the column loop variable)", inner.loc())
            else:
                ctx.fail("C05-R3", inner.path, "element", "element is %s" % r2[:300], inner.loc())
    # filter_by keeps exactly the items whose mask is true
    FB = "<I as mlpg_adjust::IterExt>::filter_by"
    fbo = p.body(FB)
    if fbo is not None:
        fr = ExprBuilder(fbo).local(0)
        okf = False
        why = show(fr)[:160]

        def clo_body(c):
            return p.bodies.get(c[1][len("closure:"):]) if c[0] == "agg" and c[1].startswith("closure:") else None

        def is_zip(z):
            return z[0] == "call" and z[1].endswith("Iterator::zip") and [show(a) for a in z[2]] == [fbo.local_name(1) or "self", fbo.local_name(2) or "mask"]
        if fr[0] == "call" and fr[1].endswith("Iterator::filter_map") and is_zip(fr[2][0]):
            fb = clo_body(fr[2][1])
            if fb is not None:
                atoms, table = paths.truth_table(fb)
                okf = atoms is not None and [show_atom for show_atom in atoms] == ["arg2.1"] and table.get((True,)) == "std::option::Option::Some{0: arg2.0}" and "None" in (table.get((False,)) or "")
                why = "filter_map closure: %s" % (table,)
        elif fr[0] == "call" and fr[1].endswith("Iterator::map") and fr[2][0][0] == "call" and fr[2][0][1].endswith("Iterator::filter") and is_zip(fr[2][0][2][0]):
            # zip(self, mask).filter(|(_, keep)| **keep).map(|(item, _)| item)
            c1, c2 = clo_body(fr[2][0][2][1]), clo_body(fr[2][1])
            if c1 is not None and c2 is not None:
                r1, r2_ = show(ExprBuilder(c1).local(0)), show(ExprBuilder(c2).local(0))
                okf = r1 == "arg2.1" and r2_ == "arg2.0"
                why = "filter keeps on `%s`, map yields `%s`" % (r1, r2_)
        if okf:
            ctx.ok("C05-R3", "filter_by keeps an item iff its mask entry is true (and yields the item itself)", fbo.loc())
        else:
            ctx.fail("C05-R3", FB, "filter", "filter_by does not keep exactly the items whose mask entry is true: %s" % why, fbo.loc())
    else:
        ctx.fail("C05-R3", FB, "filter", "IterExt::filter_by not found", None)
    ctx.note("not decided: that calc_wuw_and_wum + LDL + substitutions solve the normal equations (numerical linear algebra over runtime sizes); the distance computation in boundary_distances (unit-tested)")
    expl = ("Truth table of the masking decision read off the switchInt chain (all 8 assignments of the three comparison atoms), constant "
            "no-data fill from the same mask, and structural identity of the expansion/filter pipeline (same durations, same mask, same "
            "boundary vector) between the voicing mask and the per-window parameter sequences. Decides the second sentence of C05 only.")
    return expl, ["rustc MIR"]
