"""C05 - MLPG: second sentence only (boundary/unvoiced masking, no-data marker, shared frame->state assignment)."""
from ..expr import ExprBuilder, show, walk, to_poly, Poly, canon
from .. import paths
from . import common as cm
from . import c05_solver

CREATE = "mlpg_adjust::MlpgAdjust::<'a>::create"


def run(ctx):
    ctx.rule("C05-R1", "masking predicate: the precision is replaced by zero exactly on (left < window.left_width() OR right < window.right_width()) AND window_index != 0 (truth table over the three atoms); with_0 writes 0.0 to the precision and keeps the mean")
    ctx.rule("C05-R2", "masked-out frames are filled with the no-data constant")
    ctx.rule("C05-R3", "the mask and the per-window parameter sequences are expanded by the same `durations` and filtered by the same mask; element m = vector_length*window_index + vector_index with inverted variance; boundary distances come from the same mask")
    p = cm.program(ctx)
    c05_solver.check(ctx, p)

    # ---- R1
    pred = None
    outer = p.body(CREATE + "::{closure#0}")
    for cb in p.nested(CREATE):
        for bb, t in cm.local_calls(cb, p, exact="model::mean_vari::MeanVari::with_0"):
            pred = cb
    if pred is None:
        ctx.fail("C05-R1", CREATE, "anchor", "no closure calling MeanVari::with_0 found under MlpgAdjust::create")
    else:
        atoms, table = paths.truth_table(pred)
        if atoms is None:
            ctx.fail("C05-R1", pred.path, "truth table", "the masking closure is not a loop-free boolean decision over <= 6 atoms", pred.loc())
        else:
            A = [a for a in atoms if a.startswith("Lt(") and "left_width" in a]
            B = [a for a in atoms if a.startswith("Lt(") and "right_width" in a]
            C = [a for a in atoms if "window_index" in a]
            ok_atoms = len(atoms) == 3 and len(A) == 1 and len(B) == 1 and len(C) == 1
            if ok_atoms:
                # left distance is component .1.0, right is .1.1 of the zipped item; window_index != 0
                ok_atoms = ".1.0" in A[0].split(",")[0] and ".1.1" in B[0].split(",")[0] and (C[0].startswith("Ne(") and C[0].endswith(", 0)") or C[0].startswith("Eq(") and C[0].endswith(", 0)") or C[0].startswith("Gt(") and C[0].endswith(", 0)"))
            if not ok_atoms:
                ctx.fail("C05-R1", pred.path, "atoms", "the masking decision uses atoms %s, expected left < left_width, right < right_width, window_index != 0" % atoms, pred.loc())
            else:
                ia, ib, ic = atoms.index(A[0]), atoms.index(B[0]), atoms.index(C[0])
                c_pos = not C[0].startswith("Eq(")
                bad = []
                for assign, out in table.items():
                    a, b_, c = assign[ia], assign[ib], assign[ic] if c_pos else not assign[ic]
                    want_zero = (a or b_) and c
                    is_zero = out is not None and "with_0(" in out
                    keeps = out is not None and ("with_0(" in out or out.endswith(".0") or out.startswith("arg"))
                    if want_zero != is_zero or not keeps:
                        bad.append((assign, out))
                if not bad:
                    ctx.ok("C05-R1", "truth table (8 rows): precision zeroed exactly on (A or B) and C with A=%s, B=%s, C=%s" % (A[0][:50], B[0][:50], C[0]), pred.loc())
                    ctx.sample({"atoms": atoms, "table": {str(k): v for k, v in table.items()}})
                else:
                    ctx.fail("C05-R1", pred.path, "predicate", "masking predicate differs from (A or B) and C on rows %s" % bad, pred.loc())
    w0 = cm.body_or_fail(ctx, p, "C05-R1", "model::mean_vari::MeanVari::with_0")
    if w0 is not None:
        r = ExprBuilder(w0).local(0)
        if r[0] == "agg" and len(r[2]) == 2 and show(r[2][0]) == "self.0" and r[2][1][0] == "c" and float(r[2][1][1]) == 0.0:
            ctx.ok("C05-R1", "with_0 = (mean, 0.0)", w0.loc())
        else:
            ctx.fail("C05-R1", w0.path, "return value", "with_0 returns %s" % show(r), w0.loc())
    wi = cm.body_or_fail(ctx, p, "C05-R1", "model::mean_vari::MeanVari::with_ivar")
    if wi is not None:
        eb = ExprBuilder(wi)
        vals = [show(x) for x in eb.expand_all(eb.local(0))]
        rets = eb.local(0)
        txt = " ".join(show(e) for e in eb.def_exprs(0)) + " " + show(rets)
        allv = " ".join(show(x) for x in eb.expand_all(rets))
        if "Div(1.0, self.1)" in allv and "self.0" in allv:
            ctx.ok("C05-R1", "with_ivar = (mean, 1/variance) (with the 1e19 / 1e-19 saturations)", wi.loc())
        else:
            ctx.fail("C05-R1", wi.path, "return value", "with_ivar does not invert the variance", wi.loc())

    # ---- R2
    cr = cm.body_or_fail(ctx, p, "C05-R2", CREATE)
    if cr is not None:
        eb = ExprBuilder(cr)
        fills = cm.local_calls(cr, p, exact="mlpg_adjust::mask::Mask::fill")
        good = False
        for bb, t in fills:
            d = eb.at(bb).op(t["args"][2])
            recv = show(eb.op(t["args"][0]))
            src = show(eb.op(t["args"][1]))
            if d[0] == "c" and d[3] == "constants::NODATA" and "Mask::create(self.stream, self.msd_threshold, durations)" in recv and "MlpgMatrix::par(" in src:
                good = True
        if good:
            ctx.ok("C05-R2", "pars column = msd_flag.fill(par, NODATA): frames outside the mask carry the no-data constant", cr.loc())
        else:
            ctx.fail("C05-R2", cr.path, "fill", "masked-out frames are not filled with NODATA from the same mask", cr.loc())
        # the filled sequence is written to column vector_index of each row
        from ..expr import stores
        okc = False
        for bb, i, st, tgt, root, chain, val in stores(cr, eb):
            if chain[-1:] == ["[]"] and "vector_index" in show(tgt[2]) or (tgt[0] == "idx" and "Range" in show(tgt[2]) and "vector_length" in show(tgt[2])):
                if "Zip" in show(val) and ".1" in show(val):
                    okc = True
        if okc:
            ctx.ok("C05-R2", "each row's element [vector_index] receives the filled value", cr.loc())
        else:
            ctx.fail("C05-R2", cr.path, "column store", "the filled trajectory is not stored at [vector_index] of each row", cr.loc())

    # ---- R3
    if outer is not None and cr is not None:
        eb = ExprBuilder(outer)
        r = show(eb.local(0))
        need = [
            ("IterExt>::duration(", "expanded by durations"),
            ("^durations)", "the captured durations"),
            ("IterExt>::filter_by(", "filtered"),
            ("mlpg_adjust::mask::Mask::mask(^msd_flag)", "by the mask of msd_flag"),
            ("^msd_boundaries", "zipped with the boundary distances"),
            ("self.stream", "over self.stream"),
        ]
        miss = [why for s, why in need if s not in r.replace("*", "")]
        if not miss and r.count("IterExt>::duration(") == 1 and r.count("filter_by(") == 1:
            ctx.ok("C05-R3", "per-window sequence = stream.iter().map(elem[m].with_ivar).duration(durations).zip(msd_boundaries).map(mask_edge).filter_by(msd_flag.mask())", outer.loc())
        else:
            ctx.fail("C05-R3", outer.path, "pipeline", "parameter pipeline is missing: %s  (%s)" % (miss, r[:200]), outer.loc())
        # captured values are the parent's msd_flag / durations / msd_boundaries
        peb = ExprBuilder(cr)
        clos = None
        for bb, i, st in cr.iter_stmts():
            if st["k"] == "assign" and st["rv"]["k"] == "aggregate" and st["rv"]["kind"].get("def") == outer.path:
                caps = dict(zip([c["name"] for c in st["rv"]["kind"]["captures"]], [show(peb.at(bb, i).op(o)) for o in st["rv"]["ops"]]))
                clos = caps
        if clos:
            okc = ("Mask::create(self.stream, self.msd_threshold, durations)" in clos.get("msd_flag", "") and
                   clos.get("durations") == "durations" and
                   "boundary_distances(mlpg_adjust::mask::Mask::create(self.stream, self.msd_threshold, durations))" in clos.get("msd_boundaries", ""))
            if okc:
                ctx.ok("C05-R3", "captures: msd_flag = Mask::create(self.stream, threshold, durations); msd_boundaries = msd_flag.boundary_distances(); durations = the same slice", cr.loc())
            else:
                ctx.fail("C05-R3", cr.path, "captures", "closure captures %s" % clos, cr.loc())
        else:
            ctx.fail("C05-R3", cr.path, "closure", "window closure construction not found", cr.loc())
        # element index m
        names = {d.get("name"): l for l, d in enumerate(outer.locals) if d.get("name")}
        if "m" in names:
            m = eb.local(names["m"])
            pol = to_poly(m)
            vl = Poly.atom(canon(("field", ("upvar", "*self"), "vector_length")))
            wi_ = [a for a in pol.atoms()]
            s = repr(pol)
            if "vector_length" in s and "vector_index" in s and len(pol.t) == 2:
                ctx.ok("C05-R3", "m = vector_length*window_index + vector_index (%s)" % s, outer.loc())
            else:
                ctx.fail("C05-R3", outer.path, "element index", "m = %s" % s, outer.loc())
        inner = p.body(outer.path + "::{closure#0}")
        if inner is not None:
            r2 = show(ExprBuilder(inner).local(0))
            if r2.startswith("model::mean_vari::MeanVari::with_ivar(") and "[^m]" in r2.replace("*", "") and ".0[" in r2:
                ctx.ok("C05-R3", "element = state.0[m].with_ivar() (the Gaussian of window/vector component m)", inner.loc())
            else:
                ctx.fail("C05-R3", inner.path, "element", "element is %s" % r2, inner.loc())
    # filter_by keeps exactly the items whose mask is true
    fb = p.body("<I as mlpg_adjust::IterExt>::filter_by::{closure#0}")
    if fb is not None:
        atoms, table = paths.truth_table(fb)
        if atoms is not None and len(atoms) == 1 and [("Some" in (v or "")) for k, v in sorted(table.items())] == [False, True]:
            ctx.ok("C05-R3", "filter_by keeps an item iff its mask entry is true", fb.loc())
        else:
            ctx.fail("C05-R3", fb.path, "filter", "filter_by closure: %s" % table, fb.loc())
    ctx.note("not decided: that calc_wuw_and_wum + LDL + substitutions solve the normal equations (numerical linear algebra over runtime sizes); the distance computation in boundary_distances (unit-tested)")
    expl = ("Truth table of the masking decision read off the switchInt chain (all 8 assignments of the three comparison atoms), constant "
            "no-data fill from the same mask, and structural identity of the expansion/filter pipeline (same durations, same mask, same "
            "boundary vector) between the voicing mask and the per-window parameter sequences. Decides the second sentence of C05 only.")
    return expl, ["rustc MIR"]
