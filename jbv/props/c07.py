"""C07 - Excitation has the model's pitch and unit power (structural clauses)."""
from ..expr import ExprBuilder, show, walk, root_of, stores, to_poly, Poly, canon
from .. import paths
from . import common as cm
from .c15 import check_consts

EX = "vocoder::excitation::Excitation::"
VS = "vocoder::Vocoder::synthesize"


def self_field_atoms(e):
    if e[0] == "field" and e[1][0] == "arg" and e[1][1] == 1:
        return ("F", e[2])
    return None


def guard_sig(body, bb, eb, drop=()):
    """normalised guard set of a block: comparison atoms with polarity, as strings"""
    out = []
    for g in paths.guards(body, bb, eb):
        if g[0] in ("true", "false"):
            pos, c = paths.bool_atoms(g)
            s = show(c)
            if any(d in s for d in drop):
                continue
            # not (a == b) is a != b and vice versa (exactly, NaN included)
            if not pos and s.startswith("Eq("):
                pos, s = True, "Ne(" + s[3:]
            elif not pos and s.startswith("Ne("):
                pos, s = True, "Eq(" + s[3:]
            out.append(("+" if pos else "-") + s)
    return tuple(sorted(out))


def region_signature(body, eb, region_blocks, drop):
    """stores to fields of self and definitions of the pulse value inside a region:
    list of (target, value normal form, guards)"""
    sig = []
    for bb, i, st, tgt, root, chain, val in stores(body, eb):
        if bb not in region_blocks:
            continue
        if root[0] == "arg" and root[1] == 1 and len(chain) == 1:
            pol = to_poly(val, self_field_atoms)
            sig.append(("self." + chain[0], repr(pol), guard_sig(body, bb, eb, drop)))
    return sorted(sig)


def initial_state(ctx, p, RULE="C07-R2"):
    """a fresh excitation is unvoiced and at rest: the first frame's `start()` then takes the
    no-glide branch and sets period and counter from the frame itself (a non-zero initial period
    makes the first voiced frame glide from a pitch that never was)"""
    en = p.body(EX + "new")
    if en is None:
        return
    e_ = ExprBuilder(en).local(0)
    vals = dict(zip(e_[3], e_[2])) if e_[0] == "agg" and e_[3] else {}
    for f in ("pitch_of_curr_point", "pitch_counter", "pitch_inc_per_point"):
        v = vals.get(f)
        try:
            zero = v is not None and v[0] == "c" and float(v[1]) == 0.0
        except (TypeError, ValueError):
            zero = False
        if zero:
            ctx.ok(RULE, "Excitation::new: %s = 0" % f, en.loc())
        else:
            ctx.fail(RULE, en.path, "initial " + f, "a fresh excitation starts with %s = %s, expected 0 (unvoiced, at rest): the first voiced frame would glide from that value" % (f, show(v) if v is not None else None), en.loc())


def ring_buffer_size(ctx, p, RULE="C07-R3"):
    # the branch of get() is selected by `ring_buffer.len() > 0` (R3): the buffer has exactly as many
    # taps as the voice's low-pass stream - nlpf = 0 gives an empty buffer and the plain branch
    # (seed C01k: `size.max(1)` sent two-stream voices into the mixing branch, which indexes the
    # empty low-pass row)
    rn = p.body("vocoder::excitation::RingBuffer::<T>::new")
    en = p.body(EX + "new")
    if rn is not None and en is not None:
        r_ = ExprBuilder(rn).local(0)
        vals_ = dict(zip(r_[3], r_[2])) if r_[0] == "agg" and r_[3] else {}
        buf_ = vals_.get("buffer")
        okn_ = buf_ is not None and buf_[0] == "call" and buf_[1].endswith("from_elem") and len(buf_[2]) == 2 and buf_[2][1][0] == "arg" and buf_[2][1][1] == 1
        e_ = ExprBuilder(en).local(0)
        ev_ = dict(zip(e_[3], e_[2])) if e_[0] == "agg" and e_[3] else {}
        rbv = ev_.get("ring_buffer")
        oke_ = rbv is not None and rbv[0] == "call" and rbv[1].endswith("RingBuffer::<T>::new") and len(rbv[2]) == 1 and rbv[2][0][0] == "arg" and rbv[2][0][1] == 1
        if okn_ and oke_:
            ctx.ok(RULE, "the ring buffer has exactly nlpf elements (RingBuffer::new(size) = vec![default; size], Excitation::new(nlpf) passes nlpf): empty for a voice without a low-pass stream", rn.loc())
        else:
            ctx.fail(RULE, rn.path if not okn_ else en.path, "ring buffer size", "the excitation's ring buffer does not have exactly nlpf elements (%s): the branch of Excitation::get is selected by its length, and a non-empty buffer for nlpf = 0 sends a voice without a low-pass stream into the mixing branch" % (show(buf_)[:80] if not okn_ else show(rbv)[:80]), (rn if not okn_ else en).loc())



def run(ctx):
    ctx.rule("C07-R1", "MIN_LF0 = ln 20, MAX_LF0 = ln 20000; period p = rate / exp(clamp(lf0, MIN_LF0, MAX_LF0)); no-data => p = 0")
    ctx.rule("C07-R2", "accumulator scheme in Excitation::get: counter += 1; under counter >= pitch: counter -= pitch and pulse = sqrt(pitch), else pulse = 0; then pitch += inc. start: inc = (pitch - current)/fperiod when both non-zero, else inc = 0, current = counter = pitch. end: current = pitch")
    ctx.rule("C07-R3", "clone consistency: the ring-buffer branch and the no-LPF branch of get() have identical normal forms for the stores to pitch_counter and pitch_of_curr_point and for the pulse value, and both select noise on pitch_of_curr_point == 0")
    ctx.rule("C07-R4", "mixed excitation: centre tap += noise*(1 - h_c), other taps += noise*(0 - h_i), all taps += pulse*h_i, centre = (len-1)/2; unvoiced: centre += noise")
    ctx.rule("C07-R5", "family agreement: both Stage arms of Vocoder::synthesize drive the excitation with start(p, fperiod), get(lpf) once per sample of 0..fperiod, end(p)")
    p = cm.program(ctx)

    # ---- R1
    check_consts(ctx, p, "C07-R1", ["constants::MIN_LF0", "constants::MAX_LF0"])
    vs = cm.body_or_fail(ctx, p, "C07-R1", VS)
    pl = None
    if vs is not None:
        eb = ExprBuilder(vs)
        # the period variable, by role: the local every Excitation::start / end call receives
        def _base_local(op):
            n = 0
            while op.get("k") in ("move", "copy") and not op["place"]["proj"] and n < 6:
                l = op["place"]["local"]
                if vs.local_name(l):
                    return l
                ds = [d for d in vs.defs().get(l, []) if not vs.is_cleanup(d[0])]
                if len(ds) == 1 and ds[0][1] != "term" and ds[0][2]["rv"]["k"] == "use":
                    op = ds[0][2]["rv"]["op"]
                    n += 1
                    continue
                return l
            return None
        pls = set()
        for bb_, t_ in cm.local_calls(vs, p, exact=EX + "start") + cm.local_calls(vs, p, exact=EX + "end"):
            pls.add(_base_local(t_["args"][1]))
        pl = pls.pop() if len(pls) == 1 else None
        vals = eb.def_exprs_deep(pl) if pl is not None else []
        okp = okz = False
        for v in vals:
            if v[0] == "c" and float(v[1]) == 0.0:
                okz = True
            if v[0] == "bin" and v[1] == "Div":
                num, den = v[2], v[3]
                if show(num) == "(self.rate as f64)" and den[0] == "call" and den[1] == "f64::exp":
                    c = den[2][0]
                    if c[0] == "call" and c[1] == "f64::clamp" and show(c[2][0]) == "lf0" and c[2][1][0] == "c" and c[2][1][3] == "constants::MIN_LF0" and c[2][2][3] == "constants::MAX_LF0":
                        okp = True
        if okp and okz and len(vals) == 2:
            ctx.ok("C07-R1", "p = rate / exp(clamp(lf0, MIN_LF0, MAX_LF0)) or 0 (no data)", vs.loc())
        else:
            ctx.fail("C07-R1", VS, "period", "the period is %s" % [show(v) for v in vals], vs.loc())

    # ---- R2 / R3
    g = cm.body_or_fail(ctx, p, "C07-R2", EX + "get")
    if g is not None:
        eb = ExprBuilder(g)
        top = None
        for sb, t, arms in g.switch_edges():
            d = eb.at(sb).op(t["discr"])
            if d[0] == "bin" and "ring_buffer" in show(d) and "len" in show(d):
                top = (sb, t, arms, d)
                break
        if top is None:
            # merged clones: one region
            regions = {"single": g.reachable()}
            ctx.note("get(): no ring-buffer length branch found; treating the body as one region")
        else:
            sb, t, arms, d = top
            # the mixed-excitation branch is the one taken for every non-empty ring buffer (a
            # one-tap low-pass filter is a filter): len > 0 / len != 0 / len >= 1 / 0 < len
            def cst(e):
                return e[1] if e[0] == "c" and isinstance(e[1], int) and not isinstance(e[1], bool) else None
            lenside = lambda e: "ring_buffer" in show(e) and "len" in show(e)
            sel_ok = False
            if d[0] == "bin":
                op_, l_, r_ = d[1], d[2], d[3]
                if lenside(r_) and not lenside(l_):
                    op_, l_, r_ = {"Lt": "Gt", "Le": "Ge", "Gt": "Lt", "Ge": "Le"}.get(op_, op_), r_, l_
                c_ = cst(r_)
                sel_ok = lenside(l_) and ((op_ == "Gt" and c_ == 0) or (op_ == "Ne" and c_ == 0) or (op_ == "Ge" and c_ == 1))
            if sel_ok:
                ctx.ok("C07-R3", "get(): the low-pass branch is taken exactly when the ring buffer is non-empty (%s)" % show(d)[-60:], g.loc())
            else:
                ctx.fail("C07-R3", g.path, "branch selection", "the low-pass (mixed excitation) branch is selected by `%s`, expected ring_buffer.len() > 0: a voice with a short low-pass filter would be rendered without its filter" % show(d)[-80:], g.loc())
            tr = [tg for v, tg in arms if (v is None or v == 1)]
            fa = [tg for v, tg in arms if v == 0]
            regA = {x for x in g.reachable() if g.edge_dominates((sb, tr[0]), x)} if tr else set()
            regB = {x for x in g.reachable() if g.edge_dominates((sb, fa[0]), x)} if fa else set()
            regions = {"lpf": regA, "no-lpf": regB}
        drop = ("ring_buffer",)
        sigs = {k: region_signature(g, eb, r, drop) for k, r in regions.items()}
        # pulse value per region: definitions of a local that is either sqrt(pitch) or 0.0
        pulses = {}
        for k, r in regions.items():
            ps = []
            for l in range(len(g.locals)):
                ds = [d_ for d_ in g.defs().get(l, []) if d_[0] in r and not g.is_cleanup(d_[0])]
                if len(ds) != 2:
                    continue
                vals = []
                for d_ in ds:
                    e = eb.at(d_[0], d_[1]).call(d_[2]) if d_[1] == "term" else eb.rvalue(d_[2]["rv"])
                    vals.append((repr(to_poly(e, self_field_atoms)) if e[0] != "call" else show(e).replace("self.", "F:"), guard_sig(g, d_[0], eb, drop)))
                if any("sqrt" in v for v, _ in vals):
                    ps.append(tuple(sorted(vals)))
            pulses[k] = sorted(ps)
        want_store = {
            ("self.pitch_counter", repr(Poly.atom(("F", "pitch_counter")) + Poly.const(1))),
            ("self.pitch_counter", repr(Poly.atom(("F", "pitch_counter")) - Poly.atom(("F", "pitch_of_curr_point")))),
            ("self.pitch_of_curr_point", repr(Poly.atom(("F", "pitch_of_curr_point")) + Poly.atom(("F", "pitch_inc_per_point")))),
        }
        for k, sig in sigs.items():
            got = {(t_, v_) for t_, v_, gd in sig}
            if want_store <= got and len(sig) == 3:
                # guards: the -= pitch under counter >= pitch (true); all three under pitch != 0
                gmap = {(t_, v_): gd for t_, v_, gd in sig}
                sub = gmap[("self.pitch_counter", repr(Poly.atom(("F", "pitch_counter")) - Poly.atom(("F", "pitch_of_curr_point"))))]
                inc = gmap[("self.pitch_counter", repr(Poly.atom(("F", "pitch_counter")) + Poly.const(1)))]
                okg = any(x.startswith("+Ge(self.pitch_counter, self.pitch_of_curr_point)") for x in sub) and \
                    all(any(x.startswith("+Ne(self.pitch_of_curr_point, 0.0)") for x in gd) for gd in gmap.values()) and \
                    not any("Ge(" in x for x in inc)
                if okg:
                    ctx.ok("C07-R2", "get() [%s]: counter += 1; counter -= pitch under counter >= pitch; pitch += inc; all under pitch != 0" % k, g.loc())
                else:
                    ctx.fail("C07-R2", g.path, "guards (%s)" % k, "accumulator updates carry the wrong guards: %s" % sig, g.loc())
            else:
                ctx.fail("C07-R2", g.path, "accumulator (%s)" % k, "stores in the %s branch are %s" % (k, [(a, b_) for a, b_, c_ in sig]), g.loc())
            pk = pulses.get(k, [])
            okpulse = False
            for vals in pk:
                d = dict(vals)
                sq = [v for v in d if "sqrt" in v]
                ze = [v for v in d if v in ("0", "0.0")]
                if sq and ze and "F:pitch_of_curr_point" in sq[0] and any(x.startswith("+Ge(self.pitch_counter, self.pitch_of_curr_point)") for x in d[sq[0]]) and any(x.startswith("-Ge(self.pitch_counter, self.pitch_of_curr_point)") for x in d[ze[0]]):
                    okpulse = True
            if okpulse:
                ctx.ok("C07-R2", "get() [%s]: pulse = sqrt(pitch) when counter >= pitch, else 0" % k, g.loc())
            else:
                ctx.fail("C07-R2", g.path, "pulse (%s)" % k, "pulse value in the %s branch is %s" % (k, pk), g.loc())
        # order: the sqrt / subtraction read the pitch before `pitch += inc`; counter += 1 before the comparison
        if len(sigs) == 2:
            a, b_ = sigs["lpf"], sigs["no-lpf"]
            if a == b_ and pulses["lpf"] == pulses["no-lpf"]:
                ctx.ok("C07-R3", "the LPF and no-LPF branches of get() have identical accumulator stores, guards and pulse values (%d stores each)" % len(a), g.loc())
            else:
                diff = [x for x in a if x not in b_] + [x for x in b_ if x not in a]
                ctx.fail("C07-R3", g.path, "clone divergence", "the two branches of get() differ: %s ; pulses %s vs %s" % (diff, pulses["lpf"], pulses["no-lpf"]), g.loc())
            # both select noise on pitch == 0
            wn = cm.local_calls(g, p, exact=EX + "white_noise")
            if not wn and p.body(EX + "white_noise") is None:
                # the helper is gone (moved into a noise-source type and inlined here): the noise
                # path is where the Gaussian generator is drawn from
                wn = cm.local_calls(g, p, exact="vocoder::excitation::Random::nrandom")
            unv = cm.local_calls(g, p, exact=EX + "unvoiced_frame")
            sel = {"lpf": False, "no-lpf": False}
            for bb, t in unv:
                if bb in regions["lpf"] and any(x.startswith("+Eq(self.pitch_of_curr_point, 0.0)") for x in guard_sig(g, bb, eb, drop)):
                    sel["lpf"] = True
            for bb, t in wn:
                if bb in regions["no-lpf"] and any(x.startswith("+Eq(self.pitch_of_curr_point, 0.0)") for x in guard_sig(g, bb, eb, drop)):
                    sel["no-lpf"] = True
            if all(sel.values()):
                ctx.ok("C07-R3", "both branches select noise exactly when pitch_of_curr_point == 0", g.loc())
            else:
                ctx.fail("C07-R3", g.path, "noise selection", "noise selection on period 0: %s" % sel, g.loc())
        else:
            ctx.ok("C07-R3", "single region (clones merged): nothing to compare", g.loc())
        # statement order inside the voiced path: +1 before compare, += inc after the pulse
        for k, r in regions.items():
            order_ok = True
            incs = [(bb, i) for bb, i, st, tgt, root, chain, val in stores(g, eb) if bb in r and chain == ["pitch_of_curr_point"]]
            cnt1 = [(bb, i) for bb, i, st, tgt, root, chain, val in stores(g, eb) if bb in r and chain == ["pitch_counter"] and "1.0" in show(val)]
            cmp_bbs = [sb2 for sb2, t2, arms2 in g.switch_edges() if sb2 in r and "Ge(self.pitch_counter" in show(eb.at(sb2).op(t2["discr"]))]
            dom = g.dominators()
            if not (incs and cnt1 and cmp_bbs):
                order_ok = False
            else:
                order_ok = all(c[0] in dom.get(cb, ()) for c in cnt1 for cb in cmp_bbs) and all(cb in dom.get(ib[0], ()) and cb != ib[0] for ib in incs for cb in cmp_bbs)
            if order_ok:
                ctx.ok("C07-R2", "get() [%s]: counter += 1 precedes the comparison; pitch += inc follows the pulse" % k, g.loc())
            else:
                ctx.fail("C07-R2", g.path, "order (%s)" % k, "the increment / comparison / glide order is wrong", g.loc())
    st = cm.body_or_fail(ctx, p, "C07-R2", EX + "start")
    if st is not None:
        eb = ExprBuilder(st)
        sig = []
        for bb, i, s_, tgt, root, chain, val in stores(st, eb):
            if root[0] == "arg" and root[1] == 1:
                pol = to_poly(val, lambda e: self_field_atoms(e) or (("A", e[2]) if e[0] == "arg" else None))
                sig.append((chain[0], repr(pol), guard_sig(st, bb, eb)))
        P, C, Fp = Poly.atom(("A", "pitch")), Poly.atom(("F", "pitch_of_curr_point")), Poly.atom(("A", "fperiod"))
        glide = ("pitch_inc_per_point", repr((P - C) * Fp.inverse()))
        got = {(a, b_): c_ for a, b_, c_ in sig}
        okg = glide in got and any("+Ne(self.pitch_of_curr_point, 0.0)" in x for x in got[glide]) and any("+Ne(pitch, 0.0)" in x for x in got[glide])
        reset = {("pitch_inc_per_point", repr(Poly.const(0))), ("pitch_of_curr_point", repr(P)), ("pitch_counter", repr(P))}
        okr = reset <= set(got) and len(sig) == 4
        # the reset stores are on the complementary path
        # ... on *every* path: a frame must not keep the slope of the previous one (an early exit
        # for "nothing changed" leaves a stale non-zero increment behind)
        inc_blocks = {bb for bb, i, s_, tgt, root, chain, val in stores(st, eb) if root[0] == "arg" and root[1] == 1 and chain and chain[0] == "pitch_inc_per_point"}
        stale = [r for r in st.return_blocks() if st.can_reach(0, r, avoid=inc_blocks) and r not in inc_blocks]
        if stale:
            ctx.fail("C07-R2", st.path, "start: stale increment", "start() can return without setting pitch_inc_per_point: the glide slope of the previous frame stays in effect for this frame", st.loc())
            okg = False
        if okg and okr and all(not (any("+Ne(self.pitch_of_curr_point, 0.0)" in x for x in got[r]) and any("+Ne(pitch, 0.0)" in x for x in got[r])) for r in reset):
            ctx.ok("C07-R2", "start(): inc = (pitch - current)/fperiod when current != 0 and pitch != 0; otherwise inc = 0, current = counter = pitch", st.loc())
        else:
            ctx.fail("C07-R2", st.path, "start", "start() stores %s" % sig, st.loc())
    en = cm.body_or_fail(ctx, p, "C07-R2", EX + "end")
    if en is not None:
        sts = stores(en)
        if len(sts) == 1 and sts[0][5] == ["pitch_of_curr_point"] and show(sts[0][6]) == "pitch":
            ctx.ok("C07-R2", "end(): current = pitch", en.loc())
        else:
            ctx.fail("C07-R2", en.path, "end", "end() stores %s" % [(s[5], show(s[6])) for s in sts], en.loc())

    # ---- R4
    vf = cm.body_or_fail(ctx, p, "C07-R4", EX + "voiced_frame")
    if vf is not None:
        eb = ExprBuilder(vf)
        entries = []
        from ..loops import enumerate_as_range, prefix_slices, loop_var_parts
        _norm = lambda e: prefix_slices(enumerate_as_range(e))
        tap_ranges = []
        from ..loops import for_each_bodies
        # stores of voiced_frame itself and of `(0..n).for_each(|i| ..)` closures in it (read as loops)
        all_stores = [(bb, i, s_, tgt, root, chain, val, guard_sig(vf, bb, eb)) for bb, i, s_, tgt, root, chain, val in stores(vf, eb)]
        for cb_, ceb_, rw_, fbb_ in for_each_bodies(p, vf, eb):
            outer = guard_sig(vf, fbb_, eb)
            for bb, i, s_, tgt, root, chain, val in stores(cb_, ceb_):
                all_stores.append((bb, i, s_, rw_(tgt), root, chain, rw_(val), tuple(sorted(set(outer) | set(guard_sig(cb_, bb, ceb_))))))
        for bb, i, s_, tgt, root, chain, val, gsig in all_stores:
            tgt, val = _norm(tgt), _norm(val)
            # target: *get_mut_with_offset(ring_buffer, i)
            if tgt[0] == "call" and tgt[1].endswith("get_mut_with_offset") and show(tgt[2][0]) == "self.ring_buffer":
                tap_ranges.append(loop_var_parts(tgt[2][1]))
                ie = tgt[2][1]

                def atomize(e, tgt=tgt, ie=ie):
                    if canon(e) == canon(tgt):
                        return ("OLD",)
                    if e[0] == "idx" and show(e[1]) == "lpf" and canon(e[2]) == canon(ie):
                        return ("H",)
                    if e[0] == "arg" and e[2] in ("noise", "pulse"):
                        return (e[2].upper(),)
                    return None
                pol = to_poly(val, atomize) - Poly.atom(("OLD",))
                entries.append((repr(pol), gsig, show(ie)))
            else:
                ctx.fail("C07-R4", vf.path, "store " + show(tgt)[:50], "unexpected store in voiced_frame", cm.loc_of(s_["span"]))
        N, Pu, H = Poly.atom(("NOISE",)), Poly.atom(("PULSE",)), Poly.atom(("H",))
        want = {
            "centre": repr(N * (Poly.const(1) - H)),
            "other": repr(N * (Poly.const(0) - H)),
            "pulse": repr(Pu * H),
        }
        found = {}
        for pol, gd, ie in entries:
            for k, w in want.items():
                if pol == w:
                    found.setdefault(k, []).append(gd)
        okk = True
        merged = False
        if len(entries) == 2 and set(found) == {"pulse"}:
            # merged form of the noise part: `let delta = if i == centre { 1.0 } else { 0.0 };
            # tap[i] += noise * (delta - h_i)` - one store whose selector variable has exactly those
            # two definitions
            for bb, i, s_, tgt, root, chain, val in stores(vf, eb):
                tgt, val = _norm(tgt), _norm(val)
                if not (tgt[0] == "call" and tgt[1].endswith("get_mut_with_offset")):
                    continue
                ie = tgt[2][1]
                dvars = [x for x in walk(val) if x[0] == "var" and isinstance(x[1], int) and vf.local_ty(x[1]) == "f64"]
                for dv in dvars:
                    def atomize2(e, tgt=tgt, ie=ie, dv=dv):
                        if canon(e) == canon(tgt):
                            return ("OLD",)
                        if e == dv:
                            return ("DELTA",)
                        if e[0] == "idx" and show(e[1]) == "lpf" and canon(e[2]) == canon(ie):
                            return ("H",)
                        if e[0] == "arg" and e[2] in ("noise", "pulse"):
                            return (e[2].upper(),)
                        return None
                    pol2 = to_poly(val, atomize2) - Poly.atom(("OLD",))
                    if pol2 != N * (Poly.atom(("DELTA",)) - H):
                        continue
                    sel = {}
                    for dbb, didx, ditem in vf.defs().get(dv[1], []):
                        if didx == "term" or vf.is_cleanup(dbb):
                            continue
                        v_ = eb.at(dbb, didx).rvalue(ditem["rv"])
                        gd_ = guard_sig(vf, dbb, eb)
                        if v_[0] == "c":
                            pol_ = "+" if any(x.startswith("+Eq(") and "Div(Sub(" in x for x in gd_) else ("-" if any(x.startswith("+Ne(") and "Div(Sub(" in x for x in gd_) else "?")
                            sel[pol_] = float(v_[1])
                    gd = guard_sig(vf, bb, eb)
                    if sel == {"+": 1.0, "-": 0.0} and any("Ne(noise, 0.0)" in x and x.startswith("+") for x in gd):
                        merged = True
            gp = found["pulse"][0]
            if not any("Ne(pulse, 0.0)" in x and x.startswith("+") for x in gp):
                merged = False
        if merged:
            pass
        elif len(entries) != 3 or set(found) != set(want):
            okk = False
        else:
            gc, go, gp = found["centre"][0], found["other"][0], found["pulse"][0]
            if not any(x.startswith("+Eq(") and "center" in x.lower() or x.startswith("+Eq(") and "Div(Sub(" in x for x in gc):
                okk = False
            if not any(x.startswith("+Ne(") for x in go):
                okk = False
            if not any("Ne(noise, 0.0)" in x and x.startswith("+") for x in gc) or not any("Ne(pulse, 0.0)" in x and x.startswith("+") for x in gp):
                okk = False
        if okk:
            ctx.ok("C07-R4", "voiced_frame: centre += noise*(1-h_c); others += noise*(0-h_i); all += pulse*h_i (each under its != 0 test)", vf.loc())
        else:
            ctx.fail("C07-R4", vf.path, "tap updates", "tap updates are %s" % [(a, c) for a, b_, c in entries], vf.loc())
        # centre = (len - 1)/2
        # the centre tap index, by value (whatever the variable is called)
        veb = ExprBuilder(vf)
        cvals = []
        for l, d in enumerate(vf.locals):
            if d.get("name") and l > vf.argc and len([x for x in vf.defs().get(l, []) if not vf.is_cleanup(x[0])]) == 1:
                cvals.append(show(veb.local(l)))
        if "Div(Sub(vocoder::excitation::RingBuffer::<T>::len(self.ring_buffer), 1), 2)" in cvals:
            ctx.ok("C07-R4", "centre = (ring_buffer.len() - 1) / 2", vf.loc())
        else:
            ctx.fail("C07-R4", vf.path, "centre", "no variable holds (ring_buffer.len() - 1) / 2; single-definition variables are %s" % cvals[:6], vf.loc())
        # loops cover 0..len
        # (read off the index of every tap store: the variable of a loop 0..ring_buffer.len(),
        # written as a range loop or as an enumerate() over the first ring_buffer.len() taps)
        okr = bool(tap_ranges) and all(r is not None and r[0] == "up" and r[1][0] == "c" and r[1][1] == 0 and show(r[2]) == "vocoder::excitation::RingBuffer::<T>::len(self.ring_buffer)" for r in tap_ranges)
        if okr:
            ctx.ok("C07-R4", "every tap loop covers 0..ring_buffer.len()", vf.loc())
        else:
            ctx.fail("C07-R4", vf.path, "tap range", "tap loops are %s" % [("%s %s..%s" % (r[0], show(r[1]), show(r[2])[:80]) if r else None) for r in tap_ranges], vf.loc())
    uf = cm.body_or_fail(ctx, p, "C07-R4", EX + "unvoiced_frame")
    if uf is not None:
        eb = ExprBuilder(uf)
        sts = stores(uf, eb)
        okk = False
        if len(sts) == 1:
            bb, i, s_, tgt, root, chain, val = sts[0]
            if tgt[0] == "call" and tgt[1].endswith("get_mut_with_offset") and show(tgt[2][1]) == "Div(Sub(vocoder::excitation::RingBuffer::<T>::len(self.ring_buffer), 1), 2)":
                pol = to_poly(val, lambda e: ("OLD",) if canon(e) == canon(tgt) else None)
                if pol == Poly.atom(("OLD",)) + Poly.atom(("arg", "noise")):
                    okk = True
        if okk:
            ctx.ok("C07-R4", "unvoiced_frame: centre tap += noise", uf.loc())
        else:
            ctx.fail("C07-R4", uf.path, "store", "unvoiced_frame stores %s" % [(show(s[3])[:60], show(s[6])[:60]) for s in sts], uf.loc())
    rb = p.body("vocoder::excitation::RingBuffer::<T>::get_mut_with_offset")
    if rb is not None:
        r = show(ExprBuilder(rb).local(0))
        if r == "self.buffer[Rem(Add(self.index, i), len(self.buffer))]":
            ctx.ok("C07-R4", "RingBuffer::get_mut_with_offset(i) = buffer[(index + i) % len]", rb.loc())
        else:
            ctx.fail("C07-R4", rb.path, "offset", "get_mut_with_offset returns %s" % r, rb.loc())

    ring_buffer_size(ctx, p)
    initial_state(ctx, p)

    # ---- R5
    if vs is not None:
        eb = ExprBuilder(vs)
        arms = {}
        # split by the second `match self.stage` (the one whose arms contain Excitation::start)
        starts = cm.local_calls(vs, p, exact=EX + "start")
        ends = cm.local_calls(vs, p, exact=EX + "end")
        if len(starts) != 2 or len(ends) != 2:
            ctx.fail("C07-R5", VS, "start/end calls", "expected 2 start and 2 end calls (one per family), found %d/%d" % (len(starts), len(ends)), vs.loc())
        else:
            dom = vs.dominators()
            seqs = []
            for (sbb, stt) in starts:
                # matching end: dominated by this start
                en_ = [(ebb, ett) for ebb, ett in ends if sbb in dom.get(ebb, ())]
                a = ["<period>" if (k_ == 1 and pl is not None and _base_local(x) == pl) else show(eb.at(sbb).op(x)) for k_, x in enumerate(stt["args"])]
                okarm = len(en_) == 1
                if okarm:
                    ebb, ett = en_[0]
                    ea = ["<period>" if (k_ == 1 and pl is not None and _base_local(x) == pl) else show(eb.at(ebb).op(x)) for k_, x in enumerate(ett["args"])]
                    # per-sample loop between start and end: either `(0..fperiod).for_each(closure)` or an
                    # inline `for _ in 0..fperiod` loop; get(lpf) exactly once per iteration, unconditionally
                    fe = [(bb, t) for bb, t in vs.calls() if t["callee"]["k"] == "fndef" and cm.callee_name(t["callee"]).endswith("Iterator::for_each") and sbb in dom.get(bb, ()) and bb in dom.get(ebb, ())]
                    rngs = ""
                    gets = 0
                    loops_in_closure = None
                    if len(fe) == 1:
                        fbb, ft = fe[0]
                        rngs = show(eb.at(fbb).op(ft["args"][0]))
                        cl = [x for x in walk(eb.op(ft["args"][1])) if x[0] == "agg" and x[1].startswith("closure:")]
                        if cl:
                            cb = p.bodies.get(cl[0][1][len("closure:"):])
                            gc = cm.local_calls(cb, p, exact=EX + "get")
                            gets = len(gc)
                            if gc:
                                ceb = ExprBuilder(cb)
                                ga = show(ceb.at(gc[0][0]).op(gc[0][1]["args"][1]))
                                in_loop = any(gc[0][0] in lb for h, lb in cb.natural_loops())
                                loops_in_closure = (ga.replace("^", "").replace("*", ""), in_loop, not paths.guards(cb, gc[0][0], ceb))
                    else:
                        gc = [(bb, t) for bb, t in cm.local_calls(vs, p, exact=EX + "get") if sbb in dom.get(bb, ()) and vs.can_reach(bb, ebb)]
                        gets = len(gc)
                        if gc:
                            gbb, gt = gc[0]
                            ga = show(eb.at(gbb).op(gt["args"][1]))
                            encl = sorted([lb for h, lb in vs.natural_loops() if gbb in lb], key=len)
                            inner_guards = []
                            rng_found = ""
                            for g in paths.guards(vs, gbb, eb):
                                if g[0] == "some" and "Range" in show(g[1]):
                                    for x in walk(g[1]):
                                        if x[0] == "agg" and x[1].endswith("Range::Range") and "fperiod" in show(x):
                                            rng_found = show(x)
                                elif g[0] in ("true", "false") and encl and any(gbb in lb for lb in encl[:1]):
                                    # a condition evaluated inside the sample loop
                                    sw_in_loop = [sb for sb, tt, vv in vs.guards(gbb) if sb in encl[0]]
                                    if sw_in_loop:
                                        inner_guards.append(g)
                            rngs = rng_found
                            nested = len(encl) > 1 and any(gbb in lb and lb < encl[-1] and lb is not encl[0] for lb in encl)
                            loops_in_closure = (ga, len(encl) != 1 and False, not [g for g in inner_guards if "is_first" not in show(g[1]) and "stage" not in show(g[1])])
                    seqs.append((tuple(a[1:]), tuple(ea[1:]), rngs, gets, loops_in_closure))
                else:
                    seqs.append(None)
            pn = "<period>"
            want = ((pn, "self.fperiod"), (pn,), "std::ops::Range::Range{start: 0, end: self.fperiod}", 1, ("lpf", False, True))
            norm = []
            for s in seqs:
                if s is None:
                    norm.append(None)
                    continue
                a, ea, rngs, gets, lc = s
                lc2 = (lc[0].replace("*", "").replace("^", ""), lc[1], lc[2]) if lc else None
                norm.append((a, ea, rngs, gets, lc2))
            if all(n == want for n in norm):
                ctx.ok("C07-R5", "both filter families: start(p, fperiod); (0..fperiod).for_each(get(lpf) once, unconditionally); end(p)", vs.loc())
            else:
                ctx.fail("C07-R5", VS, "event sequence", "excitation event sequences of the two families: %s (expected %s)" % (norm, want), vs.loc())
    ctx.note("not decided: unit variance / whiteness of the Box-Muller + LCG noise; that the accumulator scheme yields spacings floor(T0)/ceil(T0) is an arithmetic lemma about R2's scheme, stated as an assumption")
    ctx.assume("arithmetic lemma: a counter incremented by 1 per sample and reduced by T0 whenever it reaches T0 emits pulses floor(T0) or ceil(T0) samples apart; pulses of height sqrt(T0) then have mean power 1")
    expl = ("Closed-form constants, normal form of the period, per-branch store signatures of the pitch accumulator with their normalised "
            "guards and dominance order, SIBLINGS comparison of the ring-buffer and no-LPF clones (read from the current tree on every run), "
            "polynomial forms of the mixed-excitation tap updates, and the excitation event sequence of both filter families.")
    return expl, ["rustc MIR"]
