"""Shared helpers for property rule modules."""
import os

from .. import facts
from ..callgraph import CallGraph
from ..mir import callee_name

VERIF = facts.VERIF
CONTROLS = os.path.join(VERIF, "fixtures", "controls")

_cg = {}


def program(ctx, config=None):
    config = config or os.environ.get("JBV_CONFIG") or "default"
    p = facts.load(config)
    ctx.units.setdefault("configs", {})[config] = {
        "bodies": len(p.bodies), "adts": len(p.adts), "impls": len(p.impls),
        "consts": len(p.consts), "statics": len(p.statics),
        "tree_key": p.tree_key, "rustc": p.doc.get("rustc"),
        "overflow_checks": p.doc.get("overflow_checks"), "mir_opt_level": p.doc.get("mir_opt_level"),
        "cfg": p.doc.get("cfg"),
    }
    if "src/vocoder/mlsa/fir_simd.rs (needs simd + AVX/NEON; does not compile on the installed nightly)" not in ctx.not_analysed:
        ctx.not_analysed.append("src/vocoder/mlsa/fir_simd.rs (needs simd + AVX/NEON; does not compile on the installed nightly)")
        ctx.not_analysed.append("examples/, benches/ (callers of the library)")
        ctx.not_analysed.append("#[cfg(test)] code (not compiled in the analysed configuration)")
    return p


def callgraph(p):
    k = id(p)
    if k not in _cg:
        _cg[k] = CallGraph(p)
    return _cg[k]


def controls(ctx):
    """facts of the positive-control fixture crate"""
    p = facts.load("default", repo=CONTROLS, crate="controls")
    ctx.units["controls_bodies"] = len(p.bodies)
    return p


def configs_for(ctx):
    return ["default"] if ctx.tier == "quick" else ["default", "nodefault", "simd"]


SYNTH_ROOTS = ["engine::Engine::synthesize", "engine::Engine::generator"]
LOADER_ROOTS = ["engine::Engine::load", "model::load_htsvoice_file", "engine::Condition::load_model",
                "model::voice_set::VoiceSet::new"]


def synth_closure(ctx, p, cg):
    """K: every body reachable from Engine::{synthesize,generator} and the public methods of
    SpeechGenerator.  Generic entry points are analysed generically: `to_labels` is linked to
    all four local impls."""
    roots = list(SYNTH_ROOTS)
    roots += [path for path, b in p.bodies.items()
              if path.startswith("speech::SpeechGenerator::") and b.kind == "AssocFn"
              and b.j.get("vis") == "pub"]
    missing = [r for r in SYNTH_ROOTS if r not in p.bodies]
    for m in missing:
        ctx.fail("anchor", m, "entry-point", "synthesis entry point not found")
    K = cg.closure(roots)
    return K, roots


def loader_closure(ctx, p, cg):
    roots = [r for r in LOADER_ROOTS if r in p.bodies]
    L = cg.closure(roots)
    return L, roots


def loc_of(span):
    if not span:
        return None
    return "%s:%s" % (span.get("file"), span.get("line"))


def short(path):
    return path


def body_or_fail(ctx, p, rule, path):
    b = p.body(path)
    if b is None:
        ctx.fail(rule, path, "anchor", "anchor function not found in the analysed crate "
                 "(renamed or removed; the rule cannot be evaluated and fails closed)")
    return b


def local_calls(body, p, suffix=None, exact=None):
    """call terminators in `body` whose resolved callee is `exact` or ends with `suffix`"""
    out = []
    for bb, t in body.calls():
        c = t["callee"]
        if c["k"] != "fndef":
            continue
        n = callee_name(c)
        if exact is not None and (n == exact or c.get("def") == exact):
            out.append((bb, t))
        elif suffix is not None and (n.endswith(suffix) or c.get("def", "").endswith(suffix)):
            out.append((bb, t))
    return out


def value_guards(b, eb, bb, allow=None):
    """the dominating *value* tests (true / false edges of comparisons; not enum-variant, Some/None or
    loop edges) of block bb that `allow` does not accept, as readable strings: what a call or store
    that has to happen "for every value" must not sit behind"""
    from .. import paths
    from ..expr import show
    out = []
    gs = list(paths.guards(b, bb, eb))
    # ... and the tests it is control dependent on without being dominated by them (`a && b`
    # before a `continue`, match arms sharing a block): the same question, asked of paths
    if not os.environ.get("JBV_NO_CONTROL_DEP"):
        try:
            for g in paths.control_guards(b, bb, eb):
                if g not in gs:
                    gs.append(g)
        except Exception:  # noqa: BLE001
            pass
    for g in gs:
        if g[0] in ("true", "false"):
            pos, c = paths.bool_atoms(g)
            if allow is not None and allow(pos, c):
                continue
            txt = ("" if pos else "not ") + show(c)[:90]
            if txt not in out:
                out.append(txt)
    return out

