"""C06 - The mel-cepstral synthesis filter realises the model spectrum (structural clauses).

The statement is a frequency-response law (log|H| = sum_m c_m cos(m w~) to 0.01 neper) - numerical,
and not decided here.  What *is* in the shape of the code, and is a necessary condition of the law:

  R1  the table of Pade coefficients the filter reads is an approximant of exp of the quality the
      law needs: with P(w) = sum_i p_i w^i the rational R(w) = P(w)/P(-w) satisfies
      |Log R(w) - w| <= 0.005 on the whole disc |w| <= 2 (two cascaded stages, 0.01 in total; the
      bound and the radius are the property's own numbers).  Decided from the evaluated constant:
      P has no zero in the disc (winding number of P over the circle, with a Lipschitz margin), so
      Log R(w) - w is analytic there and its modulus is largest on the circle (maximum principle);
      the circle is sampled with a Lipschitz bound on the error between samples.  Any table of the
      required quality passes - this is not a comparison with frozen digits.
  R2  the filter reads the row of that table that belongs to its order: ppade[i] = PADE[N(N-1)/2 + i]
      for i < N, where N - 1 is the Pade order (row k of the triangular table starts at k(k+1)/2),
      and the stage-zero filter of the vocoder is built with N >= 5 (order 4 or 5 - the two rows
      whose quality R1 establishes).
  R3  the two cascaded Pade sections (first-order part b1, remaining part b2..bM) have the direct
      form II structure: for i = N-1 down to 1: s[i] <- F(s[i-1]); v = s[i]*p[i];
      x += v for odd i, x -= v for even i; out += v; then s[0] <- x; x += out - which realises
      P(F)/P(-F) with the basic filter F.  In the first section F(u) = b1 * (state d <- (1-a^2) u + a d),
      in the second F = the warped FIR filter.
  R4  the warped FIR basic filter: d[0] <- x, one all-pass sweep of the delay line
      (d_i, r) <- (a d_i + r, (1-a^2) d_i - a r) starting from r = 0 over all elements in order, and
      y = sum_{i>=2} d[i] b[i]  (the i = 0, 1 terms belong to the gain and the first section).
  R5  wiring in Vocoder::synthesize (stage zero): the filter coefficients are mc2b(MelCepstrum::new(
      spectrum, self.alpha)); the excitation is multiplied by exp(b0) (the gain K = exp(b0); skipping
      the multiplication for a zero sample is the same value) before df(x, self.alpha, b); the
      coefficients move linearly, b += (b_next - b)/fperiod per sample over all of them, and are
      b_next afterwards; mc2b is b_last = c_last, b_i = c_i - alpha b_{i+1} for i = last-1 .. 0, and the
      identity for alpha = 0.

Not decided: the response itself, the warped frequency axis, the effect of interpolation, the SIMD
variant of the FIR filter (does not compile here).
"""
import cmath
import math
from fractions import Fraction

from ..expr import ExprBuilder, show, stores, walk, to_poly, Poly, canon, alternatives
from ..loops import LoopSyms, loop_var_parts
from .. import paths
from . import common as cm
from .c05_solver import _single_lv

ML = "vocoder::mlsa::MelLogSpectrumApproximation::<N>::"
FIR = "vocoder::mlsa::fir::Df2::fir"
RADIUS = 2.0        # |log H/K| <= 2 nepers (property text)
EPS_STAGE = 0.005   # 0.01 neper over two cascaded sections


# ---------------------------------------------------------------------------------------------
# R1: quality of a Pade row, decided from the constants

def pade_quality(p, r=RADIUS, n=1 << 15):
    """(ok, bound, why): sup_{|w|<=r} |Log(P(w)/P(-w)) - w| <= bound, rigorous up to rounding:
    the sample spacing on the circle is h = 2 pi r / n; |P'| <= L on the disc, so |P| >= minP - L h/2
    between samples; P zero-free in the disc by the winding number; the error function
    g = Log P(w) - Log P(-w) - w has |g'| <= 2 L / minP' + 1 on the circle."""
    if not p or abs(p[0]) < 1e-12:
        return False, None, "p0 = 0"
    L = sum(i * abs(c) * r ** (i - 1) for i, c in enumerate(p) if i)
    h = 2 * math.pi * r / n
    P = lambda w: sum(c * w ** i for i, c in enumerate(p))
    vals = [P(cmath.rect(r, 2 * math.pi * k / n)) for k in range(n)]
    minp = min(abs(v) for v in vals) - L * h / 2
    if minp <= 0:
        return False, None, "P(w) comes within the sampling margin of zero on |w| = %g" % r
    # winding number of P around 0 along the circle (each step turns by less than pi because
    # |P(w_k+1) - P(w_k)| <= L h < minp)
    if L * h >= minp:
        return False, None, "sampling too coarse for the winding number"
    wind = 0.0
    for k in range(n):
        wind += cmath.phase(vals[(k + 1) % n] / vals[k])
    if abs(wind) > 1e-6:
        return False, None, "P has %d zero(s) inside |w| <= %g: R(w) has poles/zeros there" % (round(abs(wind) / (2 * math.pi)), r)
    worst = 0.0
    # continuous logarithm of R(w) e^{-w} along the circle, anchored at w = r (real, positive axis)
    w0 = cmath.rect(r, 0.0)
    g = cmath.log(P(w0) / P(-w0)) - w0
    prev = P(w0) / P(-w0) * cmath.exp(-w0)
    worst = abs(g)
    for k in range(1, n):
        w = cmath.rect(r, 2 * math.pi * k / n)
        cur = vals[k] / vals[(k + n // 2) % n] * cmath.exp(-w)
        g += cmath.log(cur / prev)
        prev = cur
        worst = max(worst, abs(g))
    lip = 2 * L / minp + 1
    return True, worst + lip * h / 2, None


def r1_r2_table(ctx, p):
    ctx.rule("C06-R1", "the Pade row the stage-zero filter reads approximates exp: |Log(P(w)/P(-w)) - w| <= %g for all complex |w| <= %g (maximum principle + winding number + Lipschitz-sampled circle, from the evaluated constant)" % (EPS_STAGE, RADIUS))
    ctx.rule("C06-R2", "ppade[i] = TABLE[N(N-1)/2 + i] for i in 0..N (row N-1 of the triangular table); the stage-zero filter has N >= 5")
    nw = cm.body_or_fail(ctx, p, "C06-R2", ML + "new")
    if nw is None:
        return
    eb = ExprBuilder(nw)
    r = eb.local(0)
    pp = r[2][r[3].index("ppade")] if r[0] == "agg" and r[3] and "ppade" in r[3] else None
    table = None
    okw = False
    why = "ppade is %s" % (show(pp)[:120] if pp else None)
    N = Poly.atom(("N",))

    def at(e):
        if e[0] == "cparam":
            return ("N",)
        return None
    if pp is not None and pp[0] == "call" and pp[1].endswith("array::from_fn") and pp[2][0][0] == "agg" and pp[2][0][1].startswith("closure:"):
        clo = pp[2][0]
        cb = p.bodies.get(clo[1][len("closure:"):])
        if cb is not None:
            ceb = ExprBuilder(cb)
            rv = ceb.local(0)
            from ..expr import resolve_upvars
            rv = resolve_upvars(p, cb, rv)
            if rv[0] == "idx" and rv[1][0] == "constitem":
                table = rv[1][1]
                iarg = [l for l in range(1, cb.argc + 1) if cb.local_ty(l) == "usize"]

                def at2(e):
                    if e[0] == "arg" and iarg and e[1] == iarg[-1]:
                        return ("I",)
                    return at(e)
                ip = to_poly(rv[2], at2)
                # N(N-1)/2 with integer division: the division is opaque ('int' marker) - compare
                # the numerator and the divisor separately
                okw, why = _tri_index(rv[2], at2)
    if okw:
        ctx.ok("C06-R2", "ppade[i] = %s[N(N-1)/2 + i], i in 0..N (array::from_fn over [f64; N])" % (table or "?").split("::")[-1], nw.loc())
    else:
        ctx.fail("C06-R2", nw.path, "row selection", "the filter's Pade coefficients are not row N-1 of the table (%s)" % why, nw.loc())
    # N of the vocoder's stage-zero filter
    st = p.adts.get("vocoder::stage::Stage")
    n_used = None
    if st:
        for v in st.get("variants", []):
            for f in v.get("fields", []):
                inf = f.get("info") or {}
                if inf.get("def") == "vocoder::mlsa::MelLogSpectrumApproximation" and inf.get("args"):
                    try:
                        n_used = int(inf["args"][0])
                    except ValueError:
                        pass
    if n_used is None:
        ctx.fail("C06-R2", "vocoder::stage::Stage", "filter order", "cannot find the MLSA filter (and its const order) in Stage", None)
        return
    if n_used >= 5:
        ctx.ok("C06-R2", "the stage-zero filter is MelLogSpectrumApproximation<%d>: Pade order %d" % (n_used, n_used - 1))
    else:
        ctx.fail("C06-R2", "vocoder::stage::Stage", "filter order", "the stage-zero filter uses Pade order %d; the 0.01 neper law needs order 4 or 5" % (n_used - 1), None)
    c = p.consts.get(table) if table else None
    arr = c.get("f64_array") if c else None
    if not arr:
        ctx.fail("C06-R1", table or ML + "new", "table", "the coefficient table is not an evaluated [f64; _] constant", nw.loc())
        return
    vals = [float(x) for x in arr]
    start = n_used * (n_used - 1) // 2
    ctx.anchor("C06-R1", "entries of the Pade table", len(vals), start + n_used, nw.loc())
    if len(vals) < start + n_used:
        return
    row = vals[start:start + n_used]
    ok, bound, why = pade_quality(row)
    if ok and bound <= EPS_STAGE:
        ctx.ok("C06-R1", "row %d = %s: sup |Log(P(w)/P(-w)) - w| <= %.2e on |w| <= %g (P zero-free there)" % (n_used - 1, row, bound, RADIUS))
    elif ok:
        ctx.fail("C06-R1", table, "approximation quality", "row %d = %s approximates exp only to %.3g neper on |w| <= %g (needed: %g per section)" % (n_used - 1, row, bound, RADIUS, EPS_STAGE), cm.loc_of(c["span"]))
    else:
        ctx.fail("C06-R1", table, "approximation quality", "row %d = %s: %s" % (n_used - 1, row, why), cm.loc_of(c["span"]))
    # the implicit leading coefficient: the section uses p_i for i >= 1 only and adds x itself (p0 = 1)
    if abs(row[0] - 1.0) > 1e-12:
        ctx.fail("C06-R1", table, "p0", "the leading coefficient of row %d is %r, the filter structure assumes 1" % (n_used - 1, row[0]), cm.loc_of(c["span"]))


def _tri_index(e, at):
    """is e = N(N-1)/2 + i (usize arithmetic, the division exact because N(N-1) is even)"""
    # split the sum into the term that contains the division and the rest
    def terms(x):
        if x[0] == "bin" and x[1] in ("Add", "AddUnchecked"):
            return terms(x[2]) + terms(x[3])
        return [x]
    ts = terms(e)
    divs = [t for t in ts if t[0] == "bin" and t[1] == "Div"]
    rest = [t for t in ts if not (t[0] == "bin" and t[1] == "Div")]
    N = Poly.atom(("N",))
    I = Poly.atom(("I",))
    if len(divs) == 1 and len(rest) == 1:
        num, den = to_poly(divs[0][2], at), to_poly(divs[0][3], at)
        if to_poly(rest[0], at) == I and den == Poly.const(2) and num == N * (N - Poly.const(1)):
            return True, None
        return False, "index is %s" % show(e)[:120]
    return False, "index is %s" % show(e)[:120]


# ---------------------------------------------------------------------------------------------
# R3: the two Pade sections

def _dom(b, a, c):
    return a in b.dominators().get(c, ())


def _parity(cond, pos, is_t):
    """'odd' / 'even' if (cond == pos) says so about the loop variable, else None"""
    if not (cond[0] == "bin" and cond[1] in ("Ne", "Eq")):
        return None
    l, r = cond[2], cond[3]
    if l[0] == "c" and r[0] != "c":
        l, r = r, l
    if r[0] != "c":
        return None
    k = r[1]
    bit = None
    if l[0] == "bin" and l[1] in ("BitAnd", "Rem") and l[3][0] == "c" and is_t(l[2]):
        if (l[1] == "BitAnd" and l[3][1] == 1) or (l[1] == "Rem" and l[3][1] == 2):
            bit = True
    elif l[0] == "bin" and l[1] == "BitAnd" and l[2][0] == "c" and l[2][1] == 1 and is_t(l[3]):
        bit = True
    if not bit or k not in (0, 1):
        return None
    # (t & 1) == k holds iff ...
    holds_odd = (k == 1)
    if cond[1] == "Ne":
        holds_odd = not holds_odd
    if not pos:
        holds_odd = not holds_odd
    return "odd" if holds_odd else "even"


def _section(ctx, p, name, first):
    """one Pade section in direct form II.  Roles: x is the `&mut f64` parameter, alpha the f64
    parameter, b the coefficient parameter, the delay/state arrays are whatever fields of self are
    stored by loop index, the Pade row is the field of self that multiplies the state."""
    RULE = "C06-R3"
    b = cm.body_or_fail(ctx, p, RULE, ML + name)
    if b is None:
        return
    eb = ExprBuilder(b)
    xl = [l for l in range(1, b.argc + 1) if b.local_ty(l).replace(" ", "") == "&mutf64"]
    al = [l for l in range(1, b.argc + 1) if b.local_ty(l) == "f64"]
    cl = [l for l in range(1, b.argc + 1) if "Coefficients" in b.local_ty(l) or b.local_ty(l).replace(" ", "") == "&[f64]"]
    if len(xl) != 1 or len(al) != 1 or len(cl) != 1:
        ctx.fail(RULE, b.path, "signature", "cannot identify the sample (&mut f64), alpha (f64) and coefficient parameters of %s" % name, b.loc())
        return
    is_x = lambda e: e[0] == "arg" and e[1] == xl[0]
    is_c = lambda e: e[0] == "arg" and e[1] == cl[0]
    is_self = lambda e: e[0] == "arg" and e[1] == 1

    def atomize(e):
        if e[0] == "cparam":
            return ("sym", "N")
        return None
    syms = LoopSyms(atomize)
    NN = Poly.atom(("sym", "N"))
    one = Poly.const(1)
    zero = Poly.const(0)

    def atoms(e):
        if e[0] == "idx" and e[1][0] == "field" and is_self(e[1][1]):
            return ("S", e[1][2], syms.poly(e[2]).key())
        if e[0] == "idx" and is_c(e[1]):
            return ("B", syms.poly(e[2]).key())
        if is_x(e):
            return ("x",)
        if e[0] == "arg" and e[1] == al[0]:
            return ("A",)
        return syms.atomize(e)
    S = lambda f, pol: Poly.atom(("S", f, pol.key()))
    B = lambda k: Poly.atom(("B", Poly.const(k).key()))
    A = Poly.atom(("A",))
    X = Poly.atom(("x",))
    sts = stores(b, eb)
    ctx.anchor(RULE, "stores in %s" % name, len(sts), 4, b.loc())
    # the loop variable: the one index all by-index stores use
    tl = None
    by_t, by_0, xs = [], [], []
    for bb, i, st, tgt, root, chain, val in sts:
        loc = cm.loc_of(st["span"])
        if is_x(tgt):
            xs.append((bb, i, val, loc))
            continue
        if tgt[0] == "idx" and tgt[1][0] == "field" and is_self(tgt[1][1]):
            ip = syms.poly(tgt[2])
            lv = _single_lv(ip)
            if lv is not None and ip == syms.lv(lv):
                tl = lv if tl is None else tl
                if lv != tl:
                    ctx.fail(RULE, b.path, "loops", "%s stores by two different loop variables" % name, loc)
                    return
                by_t.append((bb, i, tgt[1][2], val, loc))
                continue
            if ip == zero:
                by_0.append((bb, i, tgt[1][2], val, loc))
                continue
        ctx.fail(RULE, b.path, "store", "%s stores to %s: not part of the section's state update" % (name, show(tgt)[:80]), loc)
    if tl is None:
        ctx.fail(RULE, b.path, "loop", "%s has no loop over the Pade stages" % name, b.loc())
        return
    t = syms.lv(tl)
    inf = syms.info[tl]
    is_t = lambda e: syms.poly(e) == t and not e[0] == "c"
    if inf["dir"] == "down" and inf["start"] == one and inf["end"] == frozenset([NN]):
        ctx.ok(RULE, "%s: stages i = N-1 down to 1 (each stage reads the previous sample's value of stage i-1)" % name, b.loc())
    else:
        ctx.fail(RULE, b.path, "stage order", "%s runs its stages `%s`, expected N-1 down to 1: an upward loop would feed the current sample through all stages at once, a shorter one drops Pade terms" % (name, syms.describe(tl)), b.loc())
    # the state update s[i] <- F(s[i-1])
    sfield = by_0[0][2] if len(by_0) == 1 else None
    ok_state = False
    if sfield is None:
        ctx.fail(RULE, b.path, "s[0]", "%s does not store the fed-back sample into exactly one state[0] (found %d)" % (name, len(by_0)), b.loc())
    if first:
        # d[i] <- (1-a^2) s[i-1] + a d[i];  s[i] <- d[i] * b[1]
        dst = [x for x in by_t if x[2] != sfield]
        sst = [x for x in by_t if x[2] == sfield]
        if len(dst) == 1 and len(sst) == 1 and sfield is not None:
            dfield = dst[0][2]
            dv = to_poly(dst[0][3], atoms)
            sv = to_poly(sst[0][3], atoms)
            okd = dv == (one - A * A) * S(sfield, t - one) + A * S(dfield, t)
            order = _dom(b, dst[0][0], sst[0][0]) and (dst[0][0] != sst[0][0] or dst[0][1] < sst[0][1])
            # the state is b[1] times the *new* delay value: either re-read after the delay store, or
            # the stored value kept in a temporary (then nothing re-reads the element in between, and
            # the tree of the state value is the delay update itself)
            reread = order and _reads_between(b, eb, (dst[0][0], dst[0][1]), (sst[0][0], sst[0][1]), ("idx", ("field", ("arg", 1, b.local_name(1)), dfield), None), lambda e: e[0] == "idx" and e[1][0] == "field" and is_self(e[1][1]) and e[1][2] == dfield and syms.poly(e[2]) == t)
            if reread or not order:
                oks = sv == S(dfield, t) * B(1)
            else:
                oks = okd and sv == dv * B(1)
            if okd and oks and order:
                ok_state = True
                ctx.ok(RULE, "%s: %s[i] <- (1-a^2) %s[i-1] + a %s[i]; then %s[i] <- %s[i] * b[1]" % (name, dfield, sfield, dfield, sfield, dfield), dst[0][4])
            else:
                if not okd:
                    ctx.fail(RULE, b.path, "first-order basic filter", "%s[i] <- %s, expected (1-a^2)*%s[i-1] + a*%s[i]" % (dfield, dv, sfield, dfield), dst[0][4])
                if not oks:
                    ctx.fail(RULE, b.path, "first-order basic filter", "%s[i] <- %s, expected %s[i]*b[1]" % (sfield, sv, dfield), sst[0][4])
                if okd and oks and not order:
                    ctx.fail(RULE, b.path, "first-order basic filter", "the state %s[i] is computed before the delay %s[i] is updated" % (sfield, dfield), sst[0][4])
        else:
            ctx.fail(RULE, b.path, "first-order basic filter", "%s: expected one delay update and one state update per stage, found %d by-index stores" % (name, len(by_t)), b.loc())
    else:
        sst = [x for x in by_t if x[2] == sfield]
        if len(by_t) == 1 and len(sst) == 1:
            v = sst[0][3]
            okf = False
            why = show(v)[:100]
            if v[0] == "call" and v[1] == FIR and len(v[2]) == 4:
                recv, xin, a_, c_ = v[2]
                okr = recv[0] == "idx" and recv[1][0] == "field" and is_self(recv[1][1]) and recv[1][2] != sfield and syms.poly(recv[2]) == t - one
                oki = to_poly(xin, atoms) == S(sfield, t - one)
                oka = a_[0] == "arg" and a_[1] == al[0]
                okc = is_c(c_) or (c_[0] in ("idx", "call") and any(is_c(y) for y in walk(c_)) and not any(y[0] == "agg" and "Range" in y[1] and not y[1].endswith("RangeFull::RangeFull") for y in walk(c_)))
                okf = okr and oki and oka and okc
                if not okr:
                    why = "the FIR state is %s, expected element i-1 of the filter array" % show(recv)[:60]
                elif not oki:
                    why = "the FIR input is %s, expected %s[i-1]" % (show(xin)[:60], sfield)
                elif not oka:
                    why = "the warping argument is %s" % show(a_)[:40]
                elif not okc:
                    why = "the coefficient argument is %s" % show(c_)[:60]
            if okf:
                ok_state = True
                ctx.ok(RULE, "%s: %s[i] <- fir(filter[i-1], %s[i-1], alpha, b)" % (name, sfield, sfield), sst[0][4])
            else:
                ctx.fail(RULE, b.path, "basic filter call", "%s[i] <- %s" % (sfield, why), sst[0][4])
        else:
            ctx.fail(RULE, b.path, "basic filter call", "%s: expected exactly one state update per stage, found %d by-index stores" % (name, len(by_t)), b.loc())
    # x updates: in the loop x += +-v, after it s[0] <- x then x += out
    pfield = None
    in_loop = [u for u in xs if any(g[0] == "some" for g in paths.guards(b, u[0], eb))]
    after = [u for u in xs if u not in in_loop]
    V = None
    if len(in_loop) == 1 and sfield is not None:
        bb, i, val, loc = in_loop[0]
        good = False
        if val[0] == "bin" and val[1] in ("Add", "Sub") and is_x(val[2]):
            inc = val[3]
            alts = []
            if inc[0] == "var" and isinstance(inc[1], int):
                for (dbb, didx, item), d in zip([d for d in b.defs().get(inc[1], []) if not b.is_cleanup(d[0])], eb.def_exprs(inc[1])):
                    alts.append((dbb, d))
            else:
                alts.append((bb, inc))
            seen = {}
            for dbb, d in alts:
                pol = to_poly(d, atoms)
                if val[1] == "Sub":
                    pol = zero - pol
                # v = s[i] * p[i]
                sign = None
                for cand in (pol, zero - pol):
                    fs = [a for a in cand.atoms() if a[0] == "S"] if hasattr(cand, "atoms") else []
                    pf = [a[1] for a in fs if a[1] != sfield]
                    if len(pf) == 1 and cand == S(sfield, t) * S(pf[0], t):
                        sign = 1 if cand is pol else -1
                        pfield = pf[0]
                if sign is None:
                    ctx.fail(RULE, b.path, "feedback term", "x is updated by %s, expected +-%s[i]*p[i]" % (pol, sfield), loc)
                    seen = None
                    break
                par = None
                for g in paths.guards(b, dbb, eb):
                    if g[0] in ("true", "false"):
                        pos, c = paths.bool_atoms(g)
                        pr = _parity(c, pos, is_t)
                        if pr:
                            par = pr
                seen[sign] = par
            if seen is not None:
                if seen == {1: "odd", -1: "even"}:
                    good = True
                    ctx.ok(RULE, "%s: x += %s[i]*%s[i] for odd i, x -= for even i" % (name, sfield, pfield), loc)
                else:
                    ctx.fail(RULE, b.path, "feedback signs", "%s feeds back with signs %s, expected + for odd and - for even stages (denominator P(-F))" % (name, {("+" if k > 0 else "-"): v for k, v in seen.items()}), loc)
        else:
            ctx.fail(RULE, b.path, "feedback term", "x <- %s in the stage loop" % show(val)[:80], loc)
    else:
        ctx.fail(RULE, b.path, "feedback term", "%s: expected exactly one update of x per stage, found %d" % (name, len(in_loop)), b.loc())
    # after the loop
    if len(after) == 1 and sfield is not None and pfield is not None and len(by_0) == 1:
        bb, i, val, loc = after[0]
        okout = False
        if val[0] == "bin" and val[1] == "Add" and is_x(val[2]) and val[3][0] == "var" and isinstance(val[3][1], int):
            ov = val[3]
            defs = eb.def_exprs(ov[1])
            init = [d for d in defs if d[0] == "c" and d[1] == 0]
            upd = [d for d in defs if d[0] == "bin" and d[1] == "Add" and ((d[2] == ov and to_poly(d[3], atoms) == S(sfield, t) * S(pfield, t)) or (d[3] == ov and to_poly(d[2], atoms) == S(sfield, t) * S(pfield, t)))]
            okout = len(defs) == 2 and len(init) == 1 and len(upd) == 1
        s0 = by_0[0]
        oks0 = is_x(s0[3]) and _dom(b, s0[0], bb) and (s0[0] != bb or s0[1] < i) and not any(g[0] == "some" for g in paths.guards(b, s0[0], eb))
        if okout and oks0:
            ctx.ok(RULE, "%s: %s[0] <- x (after the feedback), then x += sum_i %s[i]*%s[i]" % (name, sfield, sfield, pfield), loc)
        else:
            if not okout:
                ctx.fail(RULE, b.path, "feed-forward sum", "%s: the output is not x + sum over the stages of %s[i]*%s[i] (x <- %s)" % (name, sfield, pfield, show(val)[:80]), loc)
            if not oks0:
                ctx.fail(RULE, b.path, "s[0]", "%s: %s[0] is not set to the fed-back sample between the stage loop and the feed-forward sum (%s[0] <- %s)" % (name, sfield, sfield, show(s0[3])[:60]), s0[4])
    elif sfield is not None and pfield is not None:
        ctx.fail(RULE, b.path, "feed-forward sum", "%s: expected exactly one update of x after the stage loop, found %d" % (name, len(after)), b.loc())
    return pfield


def r3_sections(ctx, p):
    ctx.rule("C06-R3", "each Pade section is direct form II: for i = N-1 down to 1: s[i] <- F(s[i-1]); x += s[i]p[i] (odd i) / x -= s[i]p[i] (even i); out += s[i]p[i]; then s[0] <- x; x += out.  First section: F(u) = b[1] * d with d <- (1-a^2) u + a d; second section: F = Df2::fir(.., u, alpha, b).  df applies both, each once, to the same sample with the same alpha and coefficients")
    pf1 = _section(ctx, p, "df1", True)
    pf2 = _section(ctx, p, "df2", False)
    if pf1 and pf2:
        if pf1 == pf2 == "ppade":
            ctx.ok("C06-R3", "both sections multiply by the row selected in new (field ppade)")
        else:
            ctx.fail("C06-R3", ML + "df1", "Pade row", "the sections multiply their states by self.%s / self.%s, the row selected in new is self.ppade" % (pf1, pf2), None)
    df = cm.body_or_fail(ctx, p, "C06-R3", ML + "df")
    if df is None:
        return
    deb = ExprBuilder(df)
    seq = []
    for bb, tm in df.calls():
        c = tm["callee"]
        if c["k"] == "fndef" and cm.callee_name(c) in (ML + "df1", ML + "df2"):
            seq.append((bb, cm.callee_name(c).rsplit("::", 1)[-1], [show(deb.at(bb).op(a)) for a in tm["args"]], cm.loc_of(tm["span"])))
    names = [x[1] for x in seq]
    params = [df.local_name(l) for l in range(1, df.argc + 1)]
    # (the two sections are linear filters in cascade: for a stationary spectrum their order does
    # not matter, so either order is accepted)
    if sorted(names) == ["df1", "df2"] and _dom(df, seq[0][0], seq[1][0]) and all(x[2] == params for x in seq) and not any(g for x in seq for g in paths.guards(df, x[0], deb)):
        ctx.ok("C06-R3", "df = both sections (%s then %s), each once with (self, x, alpha, coefficients) unchanged and unconditionally" % tuple(names), df.loc())
    else:
        ctx.fail("C06-R3", df.path, "cascade", "df does not run df1 and then df2 once each on the same sample/alpha/coefficients (calls: %s)" % [(x[1], x[2]) for x in seq], df.loc())


# ---------------------------------------------------------------------------------------------
# R4: the warped FIR basic filter

_STRIP = ("index_mut", "deref_mut", "into_iter", "iter_mut", "as_mut_slice", "deref", "index", "iter", "as_slice", "as_mut")


def _whole(e, is_line):
    """is `e` the whole delay line (self.0, possibly through [..] / iter_mut / deref wrappers)"""
    n = 0
    while n < 8:
        if is_line(e):
            return True
        if e[0] == "call" and e[1].rsplit("::", 1)[-1] in _STRIP and e[2]:
            if len(e[2]) == 2 and not (e[2][1][0] == "agg" and e[2][1][1].endswith("RangeFull::RangeFull")):
                return False
            e = e[2][0]
            n += 1
            continue
        return False
    return False


def r4_fir(ctx, p):
    RULE = "C06-R4"
    ctx.rule(RULE, "Df2::fir: d[0] <- x; then one sweep over the whole delay line in order, (d_i, r) <- (a d_i + r, (1-a^2) d_i - a r) from r = 0, both from the old d_i and r; y = sum_{i=2}^{len-1} d[i]*b[i] after the sweep")
    b = cm.body_or_fail(ctx, p, RULE, FIR)
    if b is None:
        return
    eb = ExprBuilder(b)
    fl = [l for l in range(1, b.argc + 1) if b.local_ty(l) == "f64"]
    cl = [l for l in range(1, b.argc + 1) if b.local_ty(l).replace(" ", "") == "&[f64]" or "Coefficients" in b.local_ty(l)]
    if len(fl) != 2 or len(cl) != 1:
        ctx.fail(RULE, b.path, "signature", "cannot identify the input, alpha and coefficient parameters of fir", b.loc())
        return
    is_c = lambda e: e[0] == "arg" and e[1] == cl[0]
    syms = LoopSyms(None)
    sts = stores(b, eb)
    ctx.anchor(RULE, "stores in fir", len(sts), 2, b.loc())
    line = None
    for bb, i, st, tgt, root, chain, val in sts:
        if tgt[0] == "idx" and tgt[1][0] == "field" and tgt[1][1][0] == "arg" and tgt[1][1][1] == 1 and syms.poly(tgt[2]) == Poly.const(0):
            line = canon(tgt[1])
    if line is None:
        ctx.fail(RULE, b.path, "d[0]", "fir does not store its input into element 0 of the delay line", b.loc())
        return
    is_line = lambda e: canon(e) == line
    first = sweep = None
    for bb, i, st, tgt, root, chain, val in sts:
        loc = cm.loc_of(st["span"])
        if tgt[0] == "idx" and is_line(tgt[1]) and syms.poly(tgt[2]) == Poly.const(0) and not any(g[0] == "some" for g in paths.guards(b, bb, eb)):
            if first is not None:
                ctx.fail(RULE, b.path, "d[0]", "element 0 of the delay line is stored twice", loc)
            first = (bb, i, val, loc)
            continue
        # an element of a traversal of the whole line
        el = None
        if tgt[0] == "field" and tgt[2] == "0" and tgt[1][0] == "variant" and tgt[1][2] == "Some" and tgt[1][1][0] == "call" and tgt[1][1][1].endswith("::next") and ("IterMut" in tgt[1][1][1]) and _whole(tgt[1][1][2][0], is_line):
            el = ("iter", tgt[1][1])
        elif tgt[0] == "idx" and is_line(tgt[1]):
            lv = _single_lv(syms.poly(tgt[2]))
            if lv is not None and syms.poly(tgt[2]) == syms.lv(lv):
                inf = syms.info[lv]
                lenp = frozenset([syms.poly(("len", tgt[1]))])
                if inf["dir"] == "up" and inf["start"] == Poly.const(0) and inf["end"] == lenp:
                    el = ("index", lv)
                else:
                    ctx.fail(RULE, b.path, "sweep range", "the delay line is swept `%s`, expected every element from 0 upwards" % syms.describe(lv), loc)
                    return
        if el is None or sweep is not None:
            ctx.fail(RULE, b.path, "store", "fir stores to %s: not d[0] <- x or the one all-pass sweep" % show(tgt)[:80], loc)
            return
        sweep = (bb, i, tgt, val, loc, st)
    if first is None or sweep is None:
        ctx.fail(RULE, b.path, "structure", "fir: missing %s" % ("the d[0] <- x store" if first is None else "the sweep over the delay line"), b.loc())
        return
    xl = [l for l in fl if first[2] == ("arg", l, b.local_name(l))]
    if len(xl) != 1:
        ctx.fail(RULE, b.path, "d[0]", "d[0] <- %s, expected the input sample" % show(first[2])[:60], first[3])
        return
    al = [l for l in fl if l != xl[0]][0]
    if not (_dom(b, first[0], sweep[0]) and first[0] != sweep[0]):
        ctx.fail(RULE, b.path, "d[0]", "d[0] <- x does not precede the sweep", first[3])
    else:
        ctx.ok(RULE, "d[0] <- x before the sweep", first[3])
    sbb, sidx, stgt, sval, sloc, sst = sweep
    E = Poly.atom(("e",))
    R = Poly.atom(("r",))
    A = Poly.atom(("A",))
    rvar = [None]

    def atoms(e):
        if canon(e) == canon(stgt):
            return ("e",)
        if e[0] == "arg" and e[1] == al:
            return ("A",)
        if e[0] == "var" and isinstance(e[1], int) and (rvar[0] is None or rvar[0] == e[1]) and len(eb.def_exprs(e[1])) == 2:
            rvar[0] = e[1]
            return ("r",)
        return None
    sv = to_poly(sval, atoms)
    okv = sv == A * E + R and rvar[0] is not None
    okr = False
    rdefs = []
    if rvar[0] is not None:
        rdefs = [d for d in b.defs().get(rvar[0], []) if not b.is_cleanup(d[0])]
        exprs = eb.def_exprs(rvar[0])
        init = [(d, x) for d, x in zip(rdefs, exprs) if x[0] == "c" and x[1] == 0]
        upd = [(d, x) for d, x in zip(rdefs, exprs) if not (x[0] == "c")]
        if len(init) == 1 and len(upd) == 1:
            up = to_poly(upd[0][1], atoms)
            okr = up == (Poly.const(1) - A * A) * E - A * R
            initbb = init[0][0][0]
            if not (_dom(b, initbb, sbb) and initbb != sbb and not any(g[0] == "some" for g in paths.guards(b, initbb, eb))):
                okr = False
            if not okr:
                ctx.fail(RULE, b.path, "all-pass sweep", "the carried term is updated as r <- %s, expected (1-a^2)*d_i - a*r from r = 0 before the sweep" % up, cm.loc_of(upd[0][0][2]["span"]) if upd[0][0][1] != "term" else sloc)
    if not okv:
        ctx.fail(RULE, b.path, "all-pass sweep", "d_i <- %s, expected a*d_i + r" % sv, sloc)
    # both new values come from the old d_i and the old r: every read of the element and of r in
    # the body of the sweep precedes the element store and the definition of r
    if okv and okr:
        rdef = [d for d in rdefs if any(g[0] == "some" for g in paths.guards(b, d[0], eb))]
        ok_order = len(rdef) == 1 and rdef[0][0] == sbb and rdef[0][1] != "term"
        late = []
        if ok_order:
            ridx = rdef[0][1]
            for k, st in enumerate(b.blocks[sbb]["stmts"]):
                if st["k"] != "assign":
                    continue
                for op in _operands(st["rv"]):
                    if op.get("k") not in ("copy", "move"):
                        continue
                    pl = op["place"]
                    if pl["local"] == rvar[0] and not pl["proj"]:
                        # the new r read before the element is stored: feeds the element
                        if ridx < k <= sidx:
                            late.append("r")
                    elif pl["proj"]:
                        try:
                            ex = eb.at(sbb, k).op(op)
                        except Exception:
                            continue
                        # the new element read before r is defined: feeds r
                        if canon(ex) == canon(stgt) and sidx < k <= ridx:
                            late.append("d_i")
        if ok_order and not late:
            ctx.ok(RULE, "sweep: (d_i, r) <- (a*d_i + r, (1-a^2)*d_i - a*r), both from the old d_i and r, r = 0 first, over the whole line in order", sloc)
        elif not ok_order:
            ctx.fail(RULE, b.path, "all-pass sweep", "cannot order the reads and writes of the sweep body (it is not one straight-line block)", sloc)
        else:
            ctx.fail(RULE, b.path, "all-pass sweep", "the sweep reads the already updated %s: the pair (d_i, r) has to be computed from the old values" % " and ".join(sorted(set(late))), sloc)
    # y
    from ..loops import enumerate_as_range
    from ..expr import resolve_upvars
    r0 = eb.local(0)
    oky = False
    why = show(r0)[:80]

    def summand(term, idx_poly_of):
        """(ok, why): term = d[i]*b[i] with the same index on both"""
        fs = [term[2], term[3]] if term[0] == "bin" and term[1] == "Mul" else []
        dl = [f for f in fs if f[0] == "idx" and is_line(f[1])]
        cc = [f for f in fs if f[0] == "idx" and is_c(f[1])]
        if len(dl) == 1 and len(cc) == 1:
            a_, c_ = idx_poly_of(dl[0][2]), idx_poly_of(cc[0][2])
            if a_ is not None and a_ == c_:
                return a_, dl[0][1], None
            return None, None, "the delay element and the coefficient are indexed differently: %s" % show(term)[:100]
        return None, None, "the summand is %s" % show(term)[:100]
    if r0[0] == "var" and isinstance(r0[1], int):
        defs = [d for d in b.defs().get(r0[1], []) if not b.is_cleanup(d[0])]
        exprs = [enumerate_as_range(x) for x in eb.def_exprs(r0[1])]
        init = [(d, x) for d, x in zip(defs, exprs) if x[0] == "c" and x[1] == 0]
        upd = [(d, x) for d, x in zip(defs, exprs) if x[0] != "c"]
        if len(init) == 1 and len(upd) == 1:
            d, x = upd[0]
            if x[0] == "bin" and x[1] == "Add" and (x[2] == r0 or x[3] == r0):
                term = x[3] if x[2] == r0 else x[2]
                ip, base, w = summand(term, syms.poly)
                if ip is not None:
                    lv = _single_lv(ip)
                    if lv is not None and ip == syms.lv(lv):
                        inf = syms.info[lv]
                        lenp = frozenset([syms.poly(("len", base))])
                        after = any(g[0] == "none" for g in paths.guards(b, d[0], eb)) or (_dom(b, sbb, d[0]) and not b.can_reach(d[0], sbb))
                        if inf["start"] == Poly.const(2) and inf["end"] == lenp and after:
                            oky = True
                        else:
                            why = "the sum runs `%s`%s" % (syms.describe(lv), "" if after else " and is not after the sweep")
                    else:
                        why = "the summand is indexed by %s" % ip
                else:
                    why = w
    elif r0[0] == "call" and r0[1].endswith("Iterator::fold") and len(r0[2]) == 3:
        # (2..len).fold(0.0, |y, i| y + d[i]*b[i])
        rng, ini, clo = r0[2]
        cb = p.bodies.get(clo[1][len("closure:"):]) if clo[0] == "agg" and clo[1].startswith("closure:") else None
        if cb is not None and rng[0] == "agg" and rng[1].endswith("Range::Range") and ini[0] == "c" and ini[1] == 0:
            rv = resolve_upvars(p, cb, ExprBuilder(cb).local(0))
            acc = ("arg", 2, cb.local_name(2))
            if rv[0] == "bin" and rv[1] == "Add" and (rv[2][0] == "arg" and rv[2][1] == 2 or rv[3][0] == "arg" and rv[3][1] == 2):
                term = rv[3] if (rv[2][0] == "arg" and rv[2][1] == 2) else rv[2]

                def ipoly(e):
                    return Poly.atom(("I",)) if e[0] == "arg" and e[1] == 3 else None
                ip, base, w = summand(term, ipoly)
                fold_bb = [bb for bb, t in b.calls() if t["callee"]["k"] == "fndef" and cm.callee_name(t["callee"]).endswith("Iterator::fold")]
                after = len(fold_bb) == 1 and any(g[0] == "none" for g in paths.guards(b, fold_bb[0], eb))
                if ip is not None and syms.poly(rng[2][0]) == Poly.const(2) and syms.poly(rng[2][1]) == syms.poly(("len", base)) and after:
                    oky = True
                else:
                    why = w or "the fold runs over %s%s" % (show(rng)[:60], "" if after else " and is not after the sweep")
            else:
                why = "the fold step is %s" % show(rv)[:80]
    if not oky and r0[0] == "call" and r0[1].endswith("::fold") and len(r0[2]) == 3:
        # d.iter().enumerate().skip(2).fold(0.0, |y, (i, di)| y + di*b[i]): the items are
        # (i, d[i]) for i = 2 .. len(d), in order
        rng, ini, clo = r0[2]
        cb = p.bodies.get(clo[1][len("closure:"):]) if clo[0] == "agg" and str(clo[1]).startswith("closure:") else None
        if cb is not None and ini[0] == "c" and ini[1] == 0 and rng[0] == "call" and rng[1].endswith("Iterator::skip") and len(rng[2]) == 2 \
                and rng[2][0][0] == "call" and rng[2][0][1].endswith("Iterator::enumerate") and len(rng[2][0][2]) == 1:
            from ..loops import rewrite
            fline = rng[2][0][2][0]
            while fline[0] == "call" and len(fline[2]) == 1 and fline[1].rsplit("::", 1)[-1] in ("iter", "into_iter", "deref", "as_slice"):
                fline = fline[2][0]
            item = ("arg", 3, cb.local_name(3))
            rv = resolve_upvars(p, cb, ExprBuilder(cb).local(0))

            def sub(n):
                if n == ("field", item, "1"):
                    return ("idx", fline, ("sym", "FOLD_I"))
                if n == ("field", item, "0"):
                    return ("sym", "FOLD_I")
                return None
            rv = rewrite(rv, sub)
            if rv[0] == "bin" and rv[1] == "Add" and (rv[2][0] == "arg" and rv[2][1] == 2 or rv[3][0] == "arg" and rv[3][1] == 2):
                term = rv[3] if (rv[2][0] == "arg" and rv[2][1] == 2) else rv[2]

                def ipoly2(e):
                    return Poly.atom(("I",)) if e == ("sym", "FOLD_I") else None
                ip, base, w = summand(term, ipoly2)
                fold_bb = [bb for bb, t in b.calls() if t["callee"]["k"] == "fndef" and cm.callee_name(t["callee"]).endswith("::fold")]
                after = len(fold_bb) == 1 and (any(g[0] == "none" for g in paths.guards(b, fold_bb[0], eb)) or (_dom(b, sbb, fold_bb[0]) and not b.can_reach(fold_bb[0], sbb)))
                if ip is not None and ip == Poly.atom(("I",)) and is_line(fline) and syms.poly(rng[2][1]) == Poly.const(2) and after:
                    oky = True
                else:
                    why = w or "the fold runs over %s%s" % (show(rng)[:60], "" if after else " and is not after the sweep")
            else:
                why = "the fold step is %s" % show(rv)[:80]
    if oky:
        ctx.ok(RULE, "y = sum_{i=2}^{len-1} d[i]*b[i], after the sweep", b.loc())
    else:
        ctx.fail(RULE, b.path, "output", "the output is not sum_{i>=2} d[i]*b[i] over the swept delay line (%s): b0 is the gain and b1 belongs to the first section" % why, b.loc())
    # the delay line has one element per coefficient
    nw = p.body("vocoder::mlsa::fir::Df2::new")
    mn = p.body(ML + "new")
    sn = p.body("vocoder::stage::Stage::new")
    okn = False
    if nw is not None and mn is not None and sn is not None:
        r = ExprBuilder(nw).local(0)
        a = show(r)
        okn = "from_elem(0.0, len)" in a.replace(nw.local_name(1) or "len", "len")
        cs = cm.local_calls(sn, p, exact=ML + "new")
        seb = ExprBuilder(sn)
        okn = okn and len(cs) == 1 and [show(seb.at(cs[0][0]).op(x)) for x in cs[0][1]["args"]] == [sn.local_name(2)] and sn.local_ty(2) == "usize"
        # every filter of the second section is Df2::new(nmcp)
        mr = ExprBuilder(mn).local(0)
        arrs = [x for x in walk(mr) if x[0] == "call" and x[1].endswith("array::from_fn") and x[2][0][0] == "agg" and x[2][0][1].startswith("closure:")]
        okc = False
        for x in arrs:
            cb = p.bodies.get(x[2][0][1][len("closure:"):])
            if cb is None:
                continue
            from ..expr import resolve_upvars
            rv = resolve_upvars(p, cb, ExprBuilder(cb).local(0))
            if rv[0] == "call" and rv[1] == "vocoder::mlsa::fir::Df2::new" and rv[2][0] == ("arg", 1, mn.local_name(1)):
                okc = True
        okn = okn and okc
    if okn:
        ctx.ok(RULE, "every basic filter has nmcp delay elements (Stage::new -> MLSA::new(nmcp) -> Df2::new(nmcp) -> vec![0.0; nmcp])", nw.loc() if nw else None)
    else:
        ctx.fail(RULE, "vocoder::mlsa::fir::Df2::new", "delay line length", "the FIR delay lines are not built with one element per cepstral coefficient (Stage::new(stage, nmcp) -> MelLogSpectrumApproximation::new(nmcp) -> Df2::new(nmcp))", nw.loc() if nw else None)


def _reads_between(b, eb, a, c, _unused, pred):
    """is there a memory read matching `pred` strictly after statement a = (bb, idx) and before
    statement c = (bb, idx), on blocks dominated by a's block that reach c's block"""
    (abb, ai), (cbb, ci) = a, c
    blocks = [bb for bb in range(len(b.blocks)) if not b.is_cleanup(bb) and _dom(b, abb, bb) and (bb == cbb or b.can_reach(bb, cbb))]
    for bb in blocks:
        for k, st in enumerate(b.blocks[bb]["stmts"]):
            if st["k"] != "assign":
                continue
            if bb == abb and k <= ai:
                continue
            if bb == cbb and k >= ci:
                continue
            for op in _operands(st["rv"]):
                if op.get("k") in ("copy", "move") and op["place"]["proj"]:
                    try:
                        ex = eb.at(bb, k).op(op)
                    except Exception:
                        continue
                    if pred(ex):
                        return True
    return False


def _operands(rv):
    k = rv.get("k")
    if k == "use":
        return [rv["op"]]
    if k == "binop":
        return [rv["a"], rv["b"]]
    if k == "unop":
        return [rv["a"]]
    if k == "cast":
        return [rv["op"]] if "op" in rv else []
    if k == "aggregate":
        return list(rv.get("ops", []))
    return [v for v in rv.values() if isinstance(v, dict) and v.get("k") in ("copy", "move")]


# ---------------------------------------------------------------------------------------------
# R5: wiring of the stage-zero branch of Vocoder::synthesize, and mc2b

VS = "vocoder::Vocoder::synthesize"
MC2B = "vocoder::cepstrum::CepstrumT::mc2b"


def _is_stage_field(e, name, variant="Zero"):
    return e[0] == "field" and e[2] == name and e[1][0] == "variant" and e[1][2] == variant and show(e[1][1]) == "self.stage"


def _is_zero_field(e, name):
    return _is_stage_field(e, name, "Zero")


def _is_frame_coef(e):
    """mc2b(MelCepstrum::new(spectrum, self.alpha)) - the b-coefficients of the current frame"""
    if not (e[0] == "call" and e[1] == MC2B and len(e[2]) == 1):
        return False
    c = e[2][0]
    return c[0] == "call" and c[1] == "vocoder::cepstrum::MelCepstrum::new" and [show(a) for a in c[2]] == ["spectrum", "self.alpha"]


def r5_wiring(ctx, p):
    RULE = "C06-R5"
    ctx.rule(RULE, "stage zero of Vocoder::synthesize: b = mc2b(MelCepstrum::new(spectrum, self.alpha)) (first frame: directly; later: the interpolation target); per sample x = excitation * exp(b[0]) (the product may be skipped only for x == 0), then filter.df(x, self.alpha, b), then b[i] += (b_next[i] - b[i]_frame_start)/fperiod for every i; afterwards b = b_next.  mc2b: b[last] = c[last], b[i] = c[i] - alpha*b[i+1] for i = last-1 down to 0, only for alpha != 0, and a copy of c otherwise")
    if stage_wiring(ctx, p, RULE, "Zero", ML + "df", _is_frame_coef, True) is None:
        return
    _r5_mc2b(ctx, p, RULE)


def stage_wiring(ctx, p, RULE, variant, df_path, is_frame_coef, gain_exp):
    """the per-frame wiring of one filter family in Vocoder::synthesize (shared by C06-R5 and C13-R7):
    the single df call and its arguments, the gain applied to the excitation (exp(b0) for stage
    zero, b0 itself for the generalised family), linear interpolation of the coefficients, first-
    frame and end-of-frame values.  Returns the synthesize body, or None when an anchor is missing."""
    from ..expr import resolve_upvars
    _fld = lambda e, name: _is_stage_field(e, name, variant)
    vs = cm.body_or_fail(ctx, p, RULE, VS)
    if vs is None:
        return
    bodies = [vs] + [b for b in p.nested(VS)]
    site = None
    for b in bodies:
        eb = ExprBuilder(b)
        for bb, t in b.calls():
            c = t["callee"]
            if c["k"] == "fndef" and cm.callee_name(c) == df_path:
                if site is not None:
                    ctx.fail(RULE, VS, "filter call", "the MLSA filter is applied at more than one site", cm.loc_of(t["span"]))
                    return
                site = (b, eb, bb, t)
    if site is None:
        ctx.fail(RULE, VS, "filter call", "Vocoder::synthesize never applies the MLSA filter (MelLogSpectrumApproximation::df)", vs.loc())
        return
    b, eb, cbb, ct = site
    res = (lambda e: resolve_upvars(p, b, e)) if b.kind == "Closure" else (lambda e: e)
    args = [res(eb.at(cbb).op(a)) for a in ct["args"]]
    loc = cm.loc_of(ct["span"])
    good = len(args) == 4 and _fld(args[0], "filter") and show(args[2]) == "self.alpha" and _fld(args[3], "coefficients")
    if good:
        ctx.ok(RULE, "filter.df(x, self.alpha, coefficients) on the stage-zero filter and coefficients", loc)
    else:
        ctx.fail(RULE, b.path, "filter call", "df is called with (%s)" % ", ".join(show(a)[:50] for a in args), loc)
    # the sample handed to the filter
    xl = None
    a1 = ct["args"][1]
    if a1.get("k") in ("move", "copy") and not a1["place"]["proj"]:
        cur, n = a1["place"]["local"], 0
        while n < 4:
            n += 1
            nxt = None
            for d in b.defs().get(cur, []):
                if d[1] != "term" and d[2]["rv"]["k"] == "ref":
                    pl = d[2]["rv"]["place"]
                    if not pl["proj"]:
                        xl = pl["local"]
                    elif [e["k"] for e in pl["proj"]] == ["deref"]:
                        nxt = pl["local"]        # a reborrow
            if xl is not None or nxt is None:
                break
            cur = nxt
    if xl is None:
        ctx.fail(RULE, b.path, "gain", "cannot find the sample variable handed to df", loc)
    else:
        ds = [d for d in b.defs().get(xl, []) if not b.is_cleanup(d[0]) and (_dom(b, d[0], cbb) or b.can_reach(d[0], cbb))]
        pre = []
        saved = (eb.cur_bb, eb.cur_idx)
        for d in ds:
            if d[1] == "term":
                if d[0] == cbb:
                    continue
                eb.cur_bb, eb.cur_idx = d[0], "term"
                pre.append((d, res(eb.call(d[2]))))
            else:
                if d[2]["rv"]["k"] == "ref":
                    continue
                eb.cur_bb, eb.cur_idx = d[0], d[1]
                pre.append((d, res(eb.rvalue(d[2]["rv"]))))
        eb.cur_bb, eb.cur_idx = saved
        # definitions that happen after the call in the same iteration do not reach it
        pre = [(d, e) for d, e in pre if not (_dom(b, cbb, d[0]) and d[0] != cbb)]
        exc = [(d, e) for d, e in pre if e[0] == "call" and e[1] == "vocoder::excitation::Excitation::get"]
        gained = []
        other = []
        for d, e in pre:
            if (d, e) in exc:
                continue
            fs = [e[2], e[3]] if e[0] == "bin" and e[1] == "Mul" else []
            ex = [f for f in fs if f[0] == "call" and f[1] == "f64::exp" and f[2][0][0] == "idx" and _fld(f[2][0][1], "coefficients") and f[2][0][2][0] == "c" and f[2][0][2][1] == 0] if gain_exp else [f for f in fs if f[0] == "idx" and _fld(f[1], "coefficients") and f[2][0] == "c" and f[2][1] == 0]
            src = [f for f in fs if exc and f == exc[0][1]]
            if len(ex) == 1 and len(src) == 1:
                gained.append((d, e))
            else:
                other.append((d, e))
        okg = False
        why = "x is defined as %s before the filter" % [show(e)[:70] for d, e in pre]
        if len(exc) == 1 and len(gained) == 1 and not other:
            gd = gained[0][0]
            gs = [g for g in paths.guards(b, gd[0], eb) if g[0] in ("true", "false")]
            if not gs and _dom(b, gd[0], cbb):
                okg = True
            elif len(gs) == 1:
                pos, c = paths.bool_atoms(gs[0])
                c = res(c)
                if c[0] == "bin" and c[1] in ("Ne", "Eq") and ((c[2] == exc[0][1] and c[3][0] == "c" and c[3][1] == 0) or (c[3] == exc[0][1] and c[2][0] == "c" and c[2][1] == 0)) and ((c[1] == "Ne") == pos):
                    okg = True
                else:
                    why = "the gain is applied only when %s%s" % ("" if pos else "not ", show(c)[:80])
            else:
                why = "the gain is applied under %d conditions" % len(gs)
        elif len(exc) == 1 and not gained and not other:
            why = "the excitation reaches the filter without the gain exp(b[0])"
        if okg:
            ctx.ok(RULE, "x = excitation.get(lpf) * exp(coefficients[0]) (skipped only for x == 0) before df", cm.loc_of(gained[0][0][2]["span"]))
        else:
            ctx.fail(RULE, b.path, "gain", "the sample entering the filter is not excitation * exp(b[0]): %s" % why, loc)
    # per-sample interpolation of the coefficients
    syms = LoopSyms(None)
    inter = None
    from ..loops import enumerate_as_range as _ear
    for sbb, i, st, tgt, root, chain, val in stores(b, eb):
        # `for (k, c) in coefficients.iter_mut().enumerate() { *c += cinc[k] }` reads as the index loop
        t_, v_ = _ear(res(tgt)), _ear(res(val))
        if t_[0] == "idx" and t_[1][0] == "call" and len(t_[1][2]) == 1 and t_[1][1].rsplit("::", 1)[-1] in ("iter_mut", "into_iter", "deref_mut"):
            t_ = ("idx", t_[1][2][0], t_[2])
        if t_[0] == "idx" and _fld(t_[1], "coefficients"):
            if not (_dom(b, cbb, sbb) and cbb != sbb):
                continue        # before the filter call: not the per-sample interpolation
            if inter is not None:
                ctx.fail(RULE, b.path, "interpolation", "the coefficients are stored element-wise at two places after the filter call", cm.loc_of(st["span"]))
                return
            inter = (sbb, t_, v_, cm.loc_of(st["span"]))
    cinc = None
    if inter is None:
        ctx.fail(RULE, b.path, "interpolation", "the coefficients are not moved towards the next frame sample by sample", loc)
    else:
        sbb, t_, v_, sloc = inter
        ip = syms.poly(t_[2])
        lv = _single_lv(ip)
        okr = False
        if lv is not None and ip == syms.lv(lv):
            inf = syms.info[lv]
            okr = inf["dir"] == "up" and inf["start"] == Poly.const(0) and inf["end"] == frozenset([syms.poly(("len", t_[1]))])
        okf = False
        if v_[0] == "bin" and v_[1] == "Add":
            for a_, c_ in ((v_[2], v_[3]), (v_[3], v_[2])):
                if canon(a_) == canon(t_) and c_[0] == "idx" and syms.poly(c_[2]) == ip:
                    cinc = c_[1]
                    okf = True
        after = _dom(b, cbb, sbb) and cbb != sbb
        if okr and okf and after:
            ctx.ok(RULE, "after df: coefficients[i] += cinc[i] for i in 0..len", sloc)
        else:
            ctx.fail(RULE, b.path, "interpolation", "expected coefficients[i] += cinc[i] for every i after the filter call; found %s <- %s (%s)" % (show(t_)[-60:], show(v_)[:80], "range" if not okr else ("form" if not okf else "order")), sloc)
    if cinc is not None:
        okc = False
        why = show(cinc)[:120]
        if cinc[0] == "call" and cinc[1].endswith("Iterator::collect") and cinc[2][0][0] == "call" and cinc[2][0][1].endswith("Iterator::map"):
            zp, clo = cinc[2][0][2]
            if zp[0] == "call" and zp[1].endswith("Iterator::zip") and clo[0] == "agg" and clo[1].startswith("closure:"):
                za, zb = zp[2]
                strip = lambda e: e[2][0] if e[0] == "call" and e[1].rsplit("::", 1)[-1] in ("iter", "into_iter", "deref") and len(e[2]) == 1 else e
                za, zb = strip(strip(za)), strip(strip(zb))
                cb = p.bodies.get(clo[1][len("closure:"):])
                if cb is not None:
                    rv = resolve_upvars(p, cb, ExprBuilder(cb).local(0))

                    def at(e):
                        if e[0] == "field" and e[1][0] == "arg" and e[1][1] == 2 and e[2] in ("0", "1"):
                            return ("Z", int(e[2]))
                        if e[0] == "cast" and show(e[2]) == "self.fperiod":
                            return ("FP",)
                        return None
                    pol = to_poly(rv, at)
                    Z0, Z1, FP = Poly.atom(("Z", 0)), Poly.atom(("Z", 1)), Poly.atom(("FP",))
                    fwd = is_frame_coef(za) and _fld(zb, "coefficients")
                    bwd = is_frame_coef(zb) and _fld(za, "coefficients")
                    if fwd and pol == (Z0 - Z1) * FP.inverse():
                        okc = True
                    elif bwd and pol == (Z1 - Z0) * FP.inverse():
                        okc = True
                    else:
                        why = "increment %s over zip(%s, %s)" % (pol, show(za)[:50], show(zb)[:50])
        if okc:
            # computed once per frame, before the sample loop: the closure / loop body only reads it
            ctx.ok(RULE, "cinc[i] = (b_next[i] - coefficients[i]) / fperiod with b_next = mc2b(MelCepstrum::new(spectrum, self.alpha)), computed before the sample loop", inter[3])
        else:
            ctx.fail(RULE, b.path, "increment", "the per-sample increment is not (b_next - b)/fperiod: %s" % why, inter[3])
    # whole-vector stores: first frame and end of frame
    veb = ExprBuilder(vs)
    whole = []
    for sbb, i, st, tgt, root, chain, val in stores(vs, veb):
        if _fld(tgt, "coefficients"):
            whole.append((sbb, val, cm.loc_of(st["span"]), [g for g in paths.guards(vs, sbb, veb)]))
    firsts = [w for w in whole if any(g[0] in ("true", "false") and show(paths.bool_atoms(g)[1]) == "self.is_first" and paths.bool_atoms(g)[0] for g in w[3])]
    lasts = [w for w in whole if w not in firsts]
    if len(firsts) == 1 and is_frame_coef(firsts[0][1]):
        ctx.ok(RULE, "first frame: coefficients = mc2b(MelCepstrum::new(spectrum, self.alpha))", firsts[0][2])
    else:
        ctx.fail(RULE, VS, "first frame", "the first frame does not start from mc2b(MelCepstrum::new(spectrum, self.alpha)) (%s)" % [show(w[1])[:80] for w in firsts], vs.loc())
    okl = False
    if len(lasts) == 1 and is_frame_coef(lasts[0][1]):
        # after the sample loop
        if b is vs:
            # plain loop: the store sits behind the exit edge of the sample loop the call is in
            inner = [canon(g[1]) for g in paths.guards(vs, cbb, veb) if g[0] == "some"]
            outer = [canon(g[1]) for g in lasts[0][3] if g[0] == "none"]
            okl = vs.can_reach(cbb, lasts[0][0]) and not vs.can_reach(lasts[0][0], cbb) and any(x in outer for x in inner)
        else:
            clo_sites = [bb for bb, t in vs.calls() if any(x[0] == "agg" and x[1] == "closure:" + b.path for a in t["args"] for x in walk(veb.at(bb).op(a)))]
            okl = len(clo_sites) == 1 and _dom(vs, clo_sites[0], lasts[0][0])
    if okl:
        ctx.ok(RULE, "end of frame: coefficients = b_next", lasts[0][2])
    else:
        ctx.fail(RULE, VS, "end of frame", "after the sample loop the coefficients are not set to the frame's own mc2b(..) (%s)" % [show(w[1])[:80] for w in lasts], vs.loc())
    return vs


def _r5_mc2b(ctx, p, RULE):
    # mc2b
    m = cm.body_or_fail(ctx, p, RULE, MC2B)
    if m is None:
        return
    meb = ExprBuilder(m)
    ret = meb.local(0)
    if ret[0] == "var" and isinstance(ret[1], int):
        # an early `return coefficients` next to the final one: the same buffer on every path
        ds = meb.def_exprs_deep(ret[1])
        if ds and len({canon(d) for d in ds}) == 1:
            ret = ds[0]
    msy = LoopSyms(lambda e: ("sym", "LEN") if e[0] == "len" and show(e[1]) == "self" else None)
    LEN = Poly.atom(("sym", "LEN"))
    one = Poly.const(1)
    oklast = okrec = False
    nst = 0
    for sbb, i, st, tgt, root, chain, val in stores(m, meb):
        if not (tgt[0] == "idx" and canon(tgt[1]) == canon(ret)):
            ctx.fail(RULE, MC2B, "store", "mc2b stores to %s" % show(tgt)[:60], cm.loc_of(st["span"]))
            continue
        nst += 1
        gs = paths.guards(m, sbb, meb)
        ga = False
        for g in gs:
            if g[0] in ("true", "false"):
                pos, c = paths.bool_atoms(g)
                if c[0] == "bin" and c[1] in ("Ne", "Eq") and (c[1] == "Ne") == pos and {show(c[2]), show(c[3])} >= {"0.0"} and any(x[0] == "call" and x[1].endswith("CepstrumT::alpha") for x in (c[2], c[3])):
                    ga = True
        if not ga:
            ctx.fail(RULE, MC2B, "alpha = 0", "a store of mc2b is not under alpha != 0: for alpha = 0 the coefficients are the cepstrum itself", cm.loc_of(st["span"]))
            continue
        ip = msy.poly(tgt[2])

        def at(e, ip=ip):
            if e[0] == "idx" and show(e[1]) == "self":
                return ("C", (msy.poly(e[2]) - ip).key())
            if e[0] == "idx" and canon(e[1]) == canon(ret):
                return ("B", (msy.poly(e[2]) - ip).key())
            if e[0] == "call" and e[1].endswith("CepstrumT::alpha"):
                return ("A",)
            return msy.atomize(e)
        vp = to_poly(val, at)
        C0 = Poly.atom(("C", Poly.const(0).key()))
        B1 = Poly.atom(("B", one.key()))
        if ip == LEN - one and vp == C0:
            oklast = True
        else:
            lv = _single_lv(ip)
            if lv is not None and ip == msy.lv(lv) and vp == C0 - Poly.atom(("A",)) * B1:
                inf = msy.info[lv]
                if inf["dir"] == "down" and inf["start"] == Poly.const(0) and inf["end"] == frozenset([LEN - one]):
                    okrec = True
                else:
                    ctx.fail(RULE, MC2B, "recursion range", "the recursion runs `%s`, expected last-1 down to 0" % msy.describe(lv), cm.loc_of(st["span"]))
            else:
                ctx.fail(RULE, MC2B, "recursion", "b[%s] <- %s, expected c[i] - alpha*b[i+1]" % (ip, vp), cm.loc_of(st["span"]))
    if oklast and okrec and nst == 2:
        ctx.ok(RULE, "mc2b (alpha != 0): b[last] = c[last]; b[i] = c[i] - alpha*b[i+1] for i = last-1 down to 0", m.loc())
    elif nst != 2 or not (oklast and okrec):
        ctx.fail(RULE, MC2B, "recursion", "mc2b is not the two-store recursion b[last] = c[last], b[i] = c[i] - alpha*b[i+1] (last=%s, recursion=%s, stores=%d)" % (oklast, okrec, nst), m.loc())
    # the starting point (and the alpha = 0 result) is a copy of the cepstrum
    tc = p.body("<vocoder::cepstrum::MelCepstrum as vocoder::cepstrum::CepstrumT>::to_coef")
    cn = p.body("vocoder::coefficients::Coefficients::new")
    okc = False
    if ret[0] == "call" and ret[1].endswith("CepstrumT::to_coef") and show(ret[2][0]) == "self" and tc is not None and cn is not None:
        r1 = ExprBuilder(tc).local(0)
        r2 = ExprBuilder(cn).local(0)
        okc = r1[0] == "call" and r1[1] == "vocoder::coefficients::Coefficients::new" and show(r1[2][0]) == "self" \
            and r2[0] == "agg" and len(r2[2]) == 1 and r2[2][0][0] == "call" and r2[2][0][1].endswith("to_vec") and r2[2][0][2][0][0] == "arg"
    if okc:
        ctx.ok(RULE, "mc2b starts from (and for alpha = 0 returns) to_coef(self) = Coefficients::new(self) = a copy of the cepstrum", m.loc())
    else:
        ctx.fail(RULE, MC2B, "alpha = 0", "mc2b does not start from a copy of the cepstrum (to_coef -> Coefficients::new -> to_vec): %s" % show(ret)[:80], m.loc())


def initial_state(ctx, p, RULE="C06-R3"):
    """a fresh filter is at rest: the state arrays of both Pade sections start as zeros (sweep
    survivor: `d22: [1.0; N]` - a transient at the start of every utterance)"""
    mn = p.body(ML + "new")
    if mn is None:
        return
    r = ExprBuilder(mn).local(0)
    vals = dict(zip(r[3], r[2])) if r[0] == "agg" and r[3] else {}
    state = [(f, v) for f, v in vals.items() if show(v).startswith("[") and "; " in show(v)]
    bad = [(f, show(v)) for f, v in state if not show(v).startswith("[0.0;")]
    if bad:
        ctx.fail(RULE, mn.path, "initial state", "state array(s) %s do not start as zeros: the filter is not at rest when the first sample arrives" % bad, mn.loc())
    elif len(state) >= 3:
        ctx.ok(RULE, "MelLogSpectrumApproximation::new: the %d scalar state arrays start as zeros" % len(state), mn.loc())
    else:
        ctx.note("C06-R3: state arrays of MelLogSpectrumApproximation::new not recognised as repeat literals; the at-rest clause was not evaluated")


def run(ctx):
    p = cm.program(ctx)
    r1_r2_table(ctx, p)
    r3_sections(ctx, p)
    initial_state(ctx, p)
    r4_fir(ctx, p)
    r5_wiring(ctx, p)
    ctx.note("not decided: the frequency-response law itself (log|H| = sum c_m cos(m w~) to 0.01 neper), the warped frequency axis, the effect of the per-sample interpolation, the SIMD variant of the FIR filter")
    expl = ("A numerical certificate computed from the evaluated Pade constants (P zero-free in |w| <= 2 by the winding number, "
            "|Log(P(w)/P(-w)) - w| bounded on the disc by the maximum principle with a Lipschitz-sampled boundary), the row "
            "selection as an exact index polynomial in the const parameter N, recurrence recognition of the two direct-form-II "
            "Pade sections (stage range and direction, state updates, parity-guarded feedback signs, feed-forward sum, order of "
            "the state-0 store), the all-pass sweep of the warped FIR filter as polynomial forms plus a statement-order rule "
            "(both new values from the old pair), and def-use / call-argument plumbing of the stage-zero branch of "
            "Vocoder::synthesize (gain exp(b0), df arguments, linear interpolation, frame start / end values) and of mc2b.")
    return expl, ["rustc MIR", "evaluated constants (rustc const eval)"]
