"""C18 - A malformed voice file is an error, not a crash.

E6 over the loader closure L: every panic-capable construct and every explicit allocation size
is T1 (mechanically discharged), T2 (audited, with a shape check) or a finding.
Termination is NOT decided (DESIGN.md §5 C18).
"""
import re

from .. import ledger
from ..expr import ExprBuilder, show, walk, canon, is_const
from ..model import classify
from . import common as cm

L_FLOOR = 300       # |L| on the pinned tree: 482
SITE_FLOOR = 30     # sites on the repaired tree: 39

# ---- T2: audited sites.  key -> (expect-regex on the site's expression text, reason)
# Keys carry no line numbers: kind|function|api|ordinal.
DE = "model::parser::header::de::Deserializer::<'de>::"
HM = "model::parser::header::deserialize_hashmap::"
T2 = {
    "index|%snext_char|str::index|0" % DE:
        (r"RangeFrom\{start: .*len_utf8", "slices off exactly the first char returned by peek_char (chars().next()), a char boundary inside the string"),
    "index|%snext_delimiter|str::index|0" % DE:
        (r"RangeFrom\{start: .*len_utf8", "guarded by input.starts_with(current): slices off exactly that char", [r"^true: .*starts_with\(self\.input"]),
    "slice-api|%sparse_string|str::split_at|0" % DE:
        (r"^str::split_at\((?P<s>.+?), \((?:core::str::<impl str>::find\((?P=s), 34\) as Some\)\.0\)$|<std::result::Result<T, E> as std::ops::Try>::branch\(std::option::Option::<T>::ok_or(?:_else)?\(core::str::<impl str>::find\((?P=s), 34\), )", "the split point is the *Some* result of find('\"') on the same string: a char boundary in range"),
    "index|%sparse_string|str::index|0" % DE:
        (r"^str::index\(core::str::<impl str>::split_at\((?P<s>.+?), \((?:core::str::<impl str>::find\((?P=s), 34\) as Some\)\.0\)\.1, .*RangeFrom\{start: 1\}|<std::result::Result<T, E> as std::ops::Try>::branch\(std::option::Option::<T>::ok_or(?:_else)?\(core::str::<impl str>::find\((?P=s), 34\), )", "`rest` starts at the '\"' that find located (its Some result, not a fallback length); '\"' is one byte, so rest[1..] exists"),
    "overflow|%sparse_unsigned|Sub|0" % DE:
        (r"^Sub\(\((?P<ch>.*) as u8\), 48\)$", "ch matched '0'..='9' so ch as u8 >= b'0'", [r"^true: Le\(48, {ch}\)$", r"^true: Le\({ch}, 57\)$"]),
    "overflow|%sparse_unsigned::{closure#0}|Sub|0" % DE:
        (r"^Sub\(\((?P<ch>.*) as u8\), 48\)$", "ch matched '0'..='9' so ch as u8 >= b'0' (closure of the checked accumulation)",
         [r"^(parent )?true: Le\(48, {ch}\)$", r"^(parent )?true: Le\({ch}, 57\)$"]),
    "index|%sparse_unsigned|str::index|0" % DE:
        (r"str::index\((?P<s>.*), std::ops::RangeFrom::RangeFrom\{start: 1\}\)", "the next char matched '0'..='9': one ASCII byte",
         [r"^true: Le\(48, \(<std::str::Chars<'a> as std::iter::Iterator>::next\(core::str::<impl str>::chars\({s}\)\) as Some\)\.0\)$",
          r"^true: Le\(\(<std::str::Chars<'a> as std::iter::Iterator>::next\(core::str::<impl str>::chars\({s}\)\) as Some\)\.0, 57\)$"]),
    "slice-api|%suntil_delim|str::split_at|0" % DE:
        (r"find\(self\.input", "index is the result of self.input.find(..) on the same string"),
    "overflow|<%sAlreadySeparated<'_, 'de> as serde::de::MapAccess<'de>>::next_key_seed|Add|0" % HM:
        (r"self\.index, 1", "index counts entries of an in-memory Vec; cannot reach usize::MAX"),
    "overflow|<%sAlreadySeparated<'_, 'de> as serde::de::MapAccess<'de>>::next_key_seed|Sub|0" % HM:
        (r"self\.index, 1", "index was incremented on the line before"),
    "overflow|<%sAlreadySeparated<'_, 'de> as serde::de::MapAccess<'de>>::next_value_seed|Sub|0" % HM:
        (r"self\.index, 1", "serde MapAccess protocol: next_value_seed follows a next_key_seed that returned Some (index >= 1)"),
    "index|<%sAlreadySeparated<'_, 'de> as serde::de::MapAccess<'de>>::next_value_seed|Vec::index|0" % HM:
        (r"self\.de\.inner, Sub\(self\.index, 1\)", "same element next_key_seed obtained with get(index-1) == Some"),
    "overflow|<%sStrMapVisitor as serde::de::Visitor<'de>>::visit_map|Add|0" % HM:
        (r"find\(", "start is an offset inside key"),
    "overflow|<%sStrMapVisitor as serde::de::Visitor<'de>>::visit_map|Sub|0" % HM:
        (r"len\(", "key ends with ']' so it is non-empty", [r"^true: core::str::<impl str>::ends_with\(.*, 93\)$"]),
    "index|<%sStrMapVisitor as serde::de::Visitor<'de>>::visit_map|str::index|0" % HM:
        (r"Range\{start: Add\(.*find", "key ends with ']' and '[' was found at start <= len-1 and != the last byte, so start+1 <= len-1; both are ASCII boundaries", [r"^true: core::str::<impl str>::ends_with\(.*, 93\)$", r"^some: core::str::<impl str>::find\(.*, 91\)$"]),
    "index|<%sStrMapVisitor as serde::de::Visitor<'de>>::visit_map|str::index|1" % HM:
        (r"RangeTo\{end: .*find", "end is the offset of '[' found in key"),
    "index|model::parser::model::convert_tree|Vec::index|0":
        (r"orig_tree\.nodes, 0", "evaluated only after `orig_tree.nodes.len() == 1 &&` (short-circuit)", [r"^true: Eq\(len\(orig_tree\.nodes\), 1\)$"]),
    "index|model::parser::model::convert_tree|Vec::index|1":
        (r"orig_tree\.nodes, 0", "evaluated only after `orig_tree.nodes.len() == 1 &&` (short-circuit)", [r"^true: Eq\(len\(orig_tree\.nodes\), 1\)$"]),
    "index|model::parser::model::convert_tree|Vec::index|2":
        (r"orig_tree\.nodes, 0", "inside the branch guarded by nodes.len() == 1", [r"^true: Eq\(len\(orig_tree\.nodes\), 1\)$"]),
    "overflow|model::parser::model::convert_tree::{closure#1}|Add|0":
        (r"Add\(%1, len\(", "v < pdfs.len() <= 2*nodes.len(); both are lengths of in-memory Vecs"),
    "overflow|model::parser::model::convert_tree::{closure#2}|Add|0":
        (r"Add\(%1, len\(", "v < pdfs.len() <= 2*nodes.len(); both are lengths of in-memory Vecs"),
    "index|model::voice::model::ModelParameter::from_linear|Vec::index|0":
        (r"Vec::index\(lin, ", "i ranges over 0..len with len = lin.len()/2 <= lin.len()"),
    "index|model::voice::model::ModelParameter::from_linear|Vec::index|1":
        (r"Add\(", "i + len < 2*len <= lin.len()"),
    "overflow|model::voice::model::ModelParameter::from_linear|Add|0":
        (r"Div\(len\(lin\), 2\)", "i + len < lin.len()"),
    "overflow|model::voice::model::ModelParameter::from_linear|Mul|0":
        (r"Mul\(Div\(len\(lin\), 2\), 2\)", "(lin.len()/2)*2 <= lin.len()"),
    "unwrap|model::voice_set::VoiceSet::first|Option::unwrap|0":
        (r"first\(self\.0\)", "VoiceSet is non-empty by construction (C19-R1: only VoiceSet::new builds it, after first().ok_or(EmptyVoice))"),
    "index|model::voice_set::VoiceSet::new|Vec::index|0":
        (r"RangeFrom\{start: 1\}", "reached only after voices.first() returned Some, so len >= 1 and [1..] is in range", [r"^ok: .*ok_or\(.*first\(voices\)"]),
    "alloc|engine::Condition::load_model|slice::repeat|0":
        (r"num_streams", "num_streams == number of listed (and fully parsed) streams: validated by parse_htsvoice (rule C18-R4), so the size is bounded by data present in the file"),
    "alloc|engine::Condition::load_model|slice::repeat|1":
        (r"num_streams", "as above (C18-R4)"),
    "alloc|model::interporation_weight::InterporationWeight::new|from_elem|0":
        (r"nstream\)$", "nstream = metadata.num_streams, validated against the listed streams (C18-R4)"),
    "alloc|model::interporation_weight::InterporationWeight::new|from_elem|1":
        (r"nstream\)$", "nstream = metadata.num_streams, validated against the listed streams (C18-R4)"),
    "index|model::voice_set::VoiceSet::stream_metadata|Vec::index|0":
        (r"stream_models, stream_index\)", "in the loader this is stream 0 of a voice with >= 1 stream (C18-R4: empty STREAM_TYPE is rejected; one StreamModels per listed stream)"),
    "alloc|model::interporation_weight::Weights::average|from_elem|0":
        (r"nvoices\)$", "nvoices is the number of voices the caller passed (in-memory list), not a file value"),
}

# external families in L whose panics/allocations are modelled rather than enumerated
MODEL_NOTES = [
    "nom 8: many_m_n pre-allocates at most 64 KiB (MAX_INITIAL_CAPACITY_BYTES) and errors on min > max; take/tag/number parsers return Err on short input",
    "serde: derive-generated visitors return Err for missing/duplicate/unknown fields",
    "std: str::parse, String::from_utf8, binary_search, sort_unstable, get/first do not panic",
]


def const_small(e):
    """value of a constant integer expression, or None"""
    if e[0] == "c" and isinstance(e[1], int) and not isinstance(e[1], bool):
        return e[1]
    if e[0] == "c" and isinstance(e[1], bool):
        return int(e[1])
    if e[0] == "cast":
        return const_small(e[2])
    if e[0] == "bin" and e[1] in ("Add", "Sub", "Mul"):
        a, b = const_small(e[2]), const_small(e[3])
        if a is None or b is None:
            return None
        return {"Add": a + b, "Sub": a - b, "Mul": a * b}[e[1]]
    return None


def t1(site, p):
    """mechanical discharge; returns reason or None"""
    k = site.kind
    x = site.extra
    r0 = ledger.t1_common(site)
    if r0:
        return r0
    if ledger.is_str_slice(site):
        return None
    if k == "overflow":
        a, b = const_small(x.get("a", ("unk",))), const_small(x.get("b", ("unk",)))
        if a is not None and b is not None:
            v = {"Add": a + b, "Sub": a - b, "Mul": a * b}.get(x.get("op"))
            if v is not None and 0 <= v < 2 ** 31:
                return "constant arithmetic (%s) cannot overflow" % v
    if k.startswith("assert-") and site.span.get("exp") and (site.mac() or "").split("::")[-1] in ("vec",):
        return "compiler-inserted pointer check inside std's vec![] expansion (pointer comes from Box::new_uninit)"
    if k == "divzero":
        d = x.get("divisor")
        if d is not None and is_const(d) and d[1] not in (0, False):
            return "divisor is the non-zero constant %s" % d[1]
    if k == "bounds":
        r = ledger.guard_bounds(site)
        if r:
            return r
    if k == "index":
        args = x.get("args") or []
        if len(args) == 2:
            obj, idx = args
            # x[..min(len(x), c)] / x[..len(x)]
            if idx[0] == "agg" and idx[1].endswith("RangeTo::RangeTo"):
                end = idx[2][0]
                if end[0] == "call" and end[1].split("::")[-1] == "min":
                    for a in end[2]:
                        if a[0] == "len" and canon(a[1]) == canon(obj):
                            return "range end is min(len(x), _) of the sliced object"
                if end[0] == "len" and canon(end[1]) == canon(obj):
                    return "range end is len(x) of the sliced object"
        r = ledger.guard_index_call(site)
        if r:
            return r
    if k == "alloc":
        args = x.get("args") or []
        size = args[-1] if args else None
        if size is not None and site.body.kind == "Closure" and p is not None:
            # a captured variable stands for the value the constructing function bound it to
            from ..expr import resolve_upvars
            try:
                size = resolve_upvars(p, site.body, size)
            except Exception:  # noqa: BLE001
                pass
        if size is not None:
            if size[0] == "len":
                return "capacity is the length of an existing collection"
            if size[0] == "bin" and size[1] == "Div" and size[2][0] == "len" and is_const(size[3]):
                return "capacity is a fraction of the length of an existing collection"
            if is_const(size):
                return "constant capacity"
    return None


def run(ctx):
    ctx.rule("C18-L", "loader closure L = everything reachable from Engine::load / load_htsvoice_file / Condition::load_model / VoiceSet::new, through serde and nom generics")
    ctx.rule("C18-R1", "every panic-capable construct in L is T1 (mechanical guard) or T2 (audited entry whose shape check still matches)")
    ctx.rule("C18-R2", "every explicit allocation size in L is bounded by in-memory data, not by a number read from the file")
    ctx.rule("C18-R3", "every external callee in L is modelled (panic-capable APIs are enumerated as sites)")
    ctx.rule("C18-R4", "declared stream count is validated: parse_htsvoice returns Ok only if STREAM_TYPE is non-empty and NUM_STREAMS equals the number of listed streams; one StreamModels is built per listed stream")
    ctx.rule("controls", "the enumerator flags every control construct in fixtures/controls::panics and discharges those in ::guarded")

    # ---- controls
    cp = cm.controls(ctx)
    cs = ledger.enumerate_sites(cp, ["panics"])
    kinds = {}
    for s in cs:
        kinds.setdefault(s.kind, []).append(s)
    need = {"bounds": 1, "index": 2, "unwrap": 2, "overflow": 2, "divzero": 1, "panic": 2, "alloc": 2}
    missing = {k: n for k, n in need.items() if len(kinds.get(k, [])) < n}
    undis = [s for s in cs if t1(s, cp) is None]
    if missing or len(undis) < 10:
        ctx.fail("controls", "fixtures/controls::panics", "enumerator", "missed control constructs: %s (undischarged %d)" % (missing, len(undis)))
    else:
        ctx.ok("controls", "enumerator finds %d sites in controls::panics (%s), %d undischarged" % (
            len(cs), {k: len(v) for k, v in kinds.items()}, len(undis)))
    gs = ledger.enumerate_sites(cp, ["guarded"])
    gund = [s for s in gs if t1(s, cp) is None and s.kind in ("bounds", "index")]
    if gund:
        ctx.fail("controls", "fixtures/controls::guarded", "T1", "guard rule failed to discharge a `for i in 0..v.len() { v[i] }` access: %s" % gund)
    else:
        ctx.ok("controls", "T1 discharges the guarded index in controls::guarded")

    for config in cm.configs_for(ctx):
        if config == "nodefault":
            ctx.note("config nodefault has no loader (feature htsvoice off): nothing to analyse")
            continue
        p = cm.program(ctx, config)
        cg = cm.callgraph(p)
        L, roots = cm.loader_closure(ctx, p, cg)
        for r in cm.LOADER_ROOTS:
            if r not in p.bodies:
                ctx.fail("C18-L", r, "anchor", "loader entry point not found")
        ctx.units.setdefault("L", {})[config] = len(L)
        ctx.anchor("C18-L", "loader closure (%s)" % config, len(L), L_FLOOR)
        must = ["model::parser::parse_htsvoice", "model::parser::header::de::Deserializer::<'de>::parse_unsigned",
                "model::parser::model::convert_tree", "model::parser::parse_all::{closure#0}",
                "model::voice::model::ModelParameter::from_linear"]
        for m in must:
            if m in L:
                ctx.ok("C18-L", "L contains " + m)
            else:
                ctx.fail("C18-L", m, "reachability", "expected loader function is not in the computed closure (call-graph linking lost it)")

        sites = ledger.enumerate_sites(p, L)
        ctx.anchor("C18-R1", "panic/alloc sites enumerated (%s)" % config, len(sites), SITE_FLOOR)
        used_t2 = set()
        tiers = {"T1": 0, "T2": 0, "finding": 0}
        for s in sites:
            rule = "C18-R2" if s.kind == "alloc" else "C18-R1"
            r = t1(s, p)
            if r:
                tiers["T1"] += 1
                ctx.ok(rule, "T1 %s  %s" % (s.key, s.detail[:120]), s.loc(), r)
                continue
            ent = ledger.t2_lookup(T2, s)
            if ent is None and s.kind == "alloc" and s.fn == "engine::Condition::load_model":
                # whatever API builds the per-stream vectors ([x].repeat(n), vec![x; n],
                # Vec::with_capacity(n)), the audited fact is about the size: it is the validated
                # stream count (rule C18-R4)
                ent = (r"global_metadata\([^()]*\)\.num_streams\)$", "the size is metadata.num_streams == number of listed (and fully parsed) streams: validated by parse_htsvoice (rule C18-R4)")
            if ent is None and s.kind == "alloc" and s.fn.startswith("model::interporation_weight::"):
                # the same for the weight tables: sized by the constructor's two parameters, which
                # load_model passes as (voices.len(), metadata.num_streams) - an in-memory count
                # and the validated stream count (the call site is checked by C18-R4)
                ent = (r", (nvoices|nstream)\)$", "sized by InterporationWeight::new's parameter: the number of voices the caller passed (in-memory list) / the validated stream count (C18-R4)")
            if ent:
                reason = ent[1]
                used_t2.add(s.key)
                okm, whynot = ledger.t2_match(ent, s)
                if okm:
                    tiers["T2"] += 1
                    ctx.ok(rule, "T2 %s  %s" % (s.key, s.detail[:120]), s.loc(), reason)
                    continue
                ctx.fail(rule, s.fn, "%s %s" % (s.kind, s.api),
                         "%s (audit: %s)" % (whynot, reason),
                         s.loc(), extra={"site_key": s.key})
                tiers["finding"] += 1
                continue
            tiers["finding"] += 1
            via = " -> ".join(cg.path_to(L, s.fn)[-5:])
            what = ("input-controlled allocation size" if s.kind == "alloc" else "panic-capable construct")
            v = ctx.fail(rule, s.fn, "%s %s" % (s.kind, s.api),
                         "unguarded %s reachable while loading a voice: %s `%s` (%s); via %s" % (
                             what, s.kind, s.detail[:160], s.why, via), s.loc(),
                         extra={"site_key": s.key, "detail": s.detail})
        ctx.units.setdefault("tiers", {})[config] = tiers
        if config == "default":
            for k in T2:
                if k not in used_t2:
                    ctx.note("T2 entry not matched by any site (code changed or fixed): " + k)

        # R4: the validation the allocation/index audits rely on
        if config == "default":
            r4(ctx, p)

        # R3: external callees modelled
        bad = 0
        n = 0
        for path in sorted(L):
            for name, c, t in cg.ext.get(path, []):
                n += 1
                cls, why = classify(name)
                if cls is None:
                    bad += 1
                    ctx.fail("C18-R3", path, "call " + name, "unmodelled external callee in the loader (may panic or allocate): add a model entry after reading it",
                             cm.loc_of(t["span"]) if t else None)
                elif cls in ("nondet", "interior"):
                    pass  # not this property's concern
        if not bad:
            ctx.ok("C18-R3", "%d external call sites in L, all modelled (%s)" % (n, config))

    for m in MODEL_NOTES:
        ctx.assume(m)
    ctx.assume("allocation proportional to data already in memory succeeds (OOM on a file-sized buffer is outside the property)")
    ctx.note("not decided: termination. Non-iterator loops in L (`loop` in parse_unsigned, `while let` in visit_map / next_key_seed) consume input on every iteration by reading; no rule judges them.")
    ctx.note("negative tree/PDF ids are cast with `as usize` (no load-time panic); noted, not a finding of this rule")
    expl = ("Panic-capable-construct and allocation ledger over the whole loader closure L (resolved call graph through "
            "serde/nom generics): Assert terminators (bounds, overflow, division), panic!/todo!/unwrap/expect, Vec/slice/str "
            "indexing and range slicing, length-precondition APIs, integer operator traits on generic integers, explicit "
            "capacities. Each site is mechanically discharged (T1), matched to an audited entry whose shape regex still "
            "holds (T2), or reported. Decides the no-panic and no-header-sized-allocation clauses for every byte sequence; "
            "does not decide termination.")
    return expl, ["rustc MIR", "PANIC_API table (jbv/ledger.py)", "T2 audited table (jbv/props/c18.py)", "nom/serde/std models"]


def r4(ctx, p):
    from .. import paths
    b = cm.body_or_fail(ctx, p, "C18-R4", "model::parser::parse_htsvoice")
    if b is None:
        return
    eb = ExprBuilder(b)
    oks = [(bb, e) for bb, e, item in paths.return_exprs(b, eb) if paths.is_ok(e)]
    ctx.anchor("C18-R4", "parse_htsvoice Ok return", len(oks), 1, b.loc())
    for bb, e in oks:
        nonempty = counted = False
        for g in paths.guards(b, bb, eb):
            if g[0] not in ("true", "false"):
                continue
            pos, c = paths.bool_atoms(g)
            s = show(c)
            if c[0] == "call" and c[1].endswith("is_empty") and "stream_type" in s and not pos:
                nonempty = True
            if c[0] == "bin" and "num_streams" in s and "len(" in s and "stream_type" in s:
                if (c[1] == "Ne" and not pos) or (c[1] == "Eq" and pos):
                    counted = True
                    # with the count equal and > 0 the list is non-empty as well
            if c[0] == "bin" and "len(" in s and "stream_type" in s and c[3][0] == "c" and ((c[1] in ("Gt", "Ne") and c[3][1] == 0 and pos) or (c[1] == "Eq" and c[3][1] == 0 and not pos)):
                nonempty = True
        if nonempty and counted:
            ctx.ok("C18-R4", "Ok(Voice) is dominated by `!stream_type.is_empty()` and `num_streams == stream_type.len()`", b.loc())
        else:
            ctx.fail("C18-R4", b.path, "stream count validation", "a voice can be returned whose declared NUM_STREAMS is not backed by listed streams (non-empty=%s, count-equal=%s): the per-stream allocations in load_model are then sized by an unchecked header number" % (nonempty, counted), b.loc())
    pds = p.body("model::parser::parse_data_section")
    if pds is not None:
        eb2 = ExprBuilder(pds)
        txt = " ".join(show(eb2.call(t)) for bb, t in pds.calls())
        if "global.stream_type" in txt and "Iterator::map(" in txt and "collect" in txt and not any(k in txt for k in ("::skip(", "::take(", "::filter(", "::step_by(")):
            ctx.ok("C18-R4", "parse_data_section builds one StreamModels per entry of global.stream_type", pds.loc())
        else:
            ctx.fail("C18-R4", pds.path, "stream list", "stream models are not built one per listed stream", pds.loc())
    lm = p.body("engine::Condition::load_model")
    if lm is not None:
        eb3 = ExprBuilder(lm)
        # by role: every per-stream size in load_model ([x].repeat(n), InterporationWeight::new(_, n))
        sizes = []
        for bb_, t_ in lm.calls():
            c_ = t_["callee"]
            nm_ = cm.callee_name(c_) if c_["k"] == "fndef" else ""
            if (nm_.endswith("::repeat") or nm_.endswith("vec::from_elem")) and len(t_["args"]) == 2:
                sizes.append(show(eb3.at(bb_).op(t_["args"][1])))
            if nm_.endswith("InterporationWeight::new") and len(t_["args"]) == 2:
                sizes.append(show(eb3.at(bb_).op(t_["args"][1])))
        if len(sizes) >= 3 and all(s_.endswith("global_metadata(voices).num_streams") for s_ in sizes):
            ctx.ok("C18-R4", "load_model sizes its per-stream vectors with metadata.num_streams", lm.loc())
        else:
            ctx.fail("C18-R4", lm.path, "nstream", "nstream is not metadata.num_streams", lm.loc())
