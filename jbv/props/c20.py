"""C20 - Condition setters clamp to their documented ranges and round-trip; defaults."""
from ..expr import ExprBuilder, Clamp, to_clamp, show, stores, root_of, mut_arg_calls, walk, NEG_INF, POS_INF
from .. import paths
from . import common as cm

COND = "engine::Condition::"

# setter -> (field, indexed?, expected clamp)  -- the documented ranges of the property statement
RANGES = {
    "set_sampling_frequency": ("sampling_frequency", False, Clamp(1.0, POS_INF)),
    "set_fperiod": ("fperiod", False, Clamp(1.0, POS_INF)),
    "set_msd_threshold": ("msd_threshold", True, Clamp(0.0, 1.0)),
    "set_gv_weight": ("gv_weight", True, Clamp(0.0, POS_INF)),
    "set_speed": ("speed", False, Clamp(1e-6, POS_INF)),
    "set_alpha": ("alpha", False, Clamp(0.0, 1.0)),
    "set_beta": ("beta", False, Clamp(0.0, 1.0)),
    "set_additional_half_tone": ("additional_half_tone", False, Clamp()),
    "set_phoneme_alignment_flag": ("phoneme_alignment_flag", False, Clamp()),
}
GETTERS = {
    "get_sampling_frequency": ("sampling_frequency", False),
    "get_fperiod": ("fperiod", False),
    "get_msd_threshold": ("msd_threshold", True),
    "get_gv_weight": ("gv_weight", True),
    "get_speed": ("speed", False),
    "get_alpha": ("alpha", False),
    "get_beta": ("beta", False),
    "get_additional_half_tone": ("additional_half_tone", False),
    "get_phoneme_alignment_flag": ("phoneme_alignment_flag", False),
}
DEFAULTS = {"volume": 1.0, "speed": 1.0, "beta": 0.0, "additional_half_tone": 0.0,
            "phoneme_alignment_flag": False}
USER_LEVEL = {"volume", "speed", "beta", "additional_half_tone", "phoneme_alignment_flag"}


def is_self(e):
    return e[0] == "arg" and e[1] == 1


def check_setter(ctx, p, RULE, name):
    """one setter of Condition: a single unconditional store of the documented clamp into its own field"""
    field, indexed, want = RANGES[name]
    b = cm.body_or_fail(ctx, p, RULE, COND + name)
    if b is None:
        return
    eb = ExprBuilder(b)
    val_arg = b.argc  # the value is the last parameter
    sts = [s for s in stores(b, eb) if is_self(s[4])]
    if len(sts) != 1:
        ctx.fail(RULE, b.path, "stores", "expected exactly one store through self, found %d" % len(sts), b.loc())
        return
    bb, i, st, tgt, root, chain, val = sts[0]
    want_chain = [field, "[]"] if indexed else [field]
    if chain != want_chain:
        ctx.fail(RULE, b.path, "store target", "stores into self.%s, expected self.%s" % (".".join(chain), ".".join(want_chain)), cm.loc_of(st["span"]))
        return
    if indexed:
        idx = tgt[2]
        if not (idx[0] == "arg" and idx[1] == 2):
            ctx.fail(RULE, b.path, "store index", "element index is %s, expected the stream_index parameter" % show(idx), cm.loc_of(st["span"]))
            return
    # the store happens for every argument: no path reaches the return around it
    rets = [r for r in range(len(b.blocks)) if not b.is_cleanup(r) and b.blocks[r]["term"]["k"] == "return"]
    if any(b.can_reach(0, r, avoid={bb}) for r in rets):
        conds = [show(paths.bool_atoms(g)[1])[:80] for g in paths.guards(b, bb, eb) if g[0] in ("true", "false")]
        ctx.fail(RULE, b.path, "conditional store", "%s can return without storing (the store is under `%s`): for those arguments the old value stays instead of the documented clamp" % (name, " && ".join(conds) or "?"), cm.loc_of(st["span"]))
        return
    got = to_clamp(val, lambda e: e[0] == "arg" and e[1] == val_arg)
    if got is None:
        ctx.fail(RULE, b.path, "stored value", "unmodelled operation in the stored value %s (outside the clamp domain: max/min/clamp with constants)" % show(val), cm.loc_of(st["span"]))
        return
    if got == want:
        ctx.ok(RULE, "%s: self.%s <- %s of the argument" % (name, ".".join(chain), got), cm.loc_of(st["span"]))
    else:
        ctx.fail(RULE, b.path, "stored value", "stores %s of the argument, documented range requires %s" % (got, want), cm.loc_of(st["span"]))
    # no other writer: calls receiving self mutably (other than index_mut on the field)
    for cbb, t, cname, k, ref in mut_arg_calls(b, eb):
        r, ch = root_of(ref)
        if is_self(r) and "index_mut" not in cname and "IndexMut" not in cname:
            ctx.fail(RULE, b.path, "call " + cname, "self passed mutably to another function", cm.loc_of(t["span"]))


def getters_verbatim(ctx, p, RULE):
    """each getter returns its field (or the element at the given stream index) verbatim: what a
    setter stored is what the getter shows - there is no second, hidden representation of a setting
    (also run under C03: two conditions with equal getter values are equal conditions)"""
    for name, (field, indexed) in GETTERS.items():
        b = cm.body_or_fail(ctx, p, RULE, COND + name)
        if b is None:
            continue
        eb = ExprBuilder(b)
        ret = eb.local(0)
        r, ch = root_of(ret)
        want_chain = [field, "[]"] if indexed else [field]
        okk = is_self(r) and ch == want_chain
        if okk and indexed:
            okk = ret[0] == "idx" and ret[2][0] == "arg" and ret[2][1] == 2
        if okk:
            ctx.ok(RULE, "%s returns self.%s" % (name, ".".join(ch)), b.loc())
        else:
            ctx.fail(RULE, b.path, "return value", "returns %s, expected self.%s" % (show(ret), ".".join(want_chain)), b.loc())


def run(ctx):
    ctx.rule("C20-R1", "each range-limited setter stores T(v) into its own field only, T = the documented clamp; unrestricted setters store the identity")
    ctx.rule("C20-R2", "each getter returns its field (or element at the given stream index)")
    ctx.rule("C20-R3", "defaults: Condition::default (volume 1.0 = 0 dB, speed 1, beta 0, half tone 0, alignment off); load_model sets thresholds 0.5 and GV weights 1.0 per stream and touches no user-level setting; Engine::load = default() then load_model with no setter in between")
    p = cm.program(ctx)

    # ---- R1
    for name in RANGES:
        check_setter(ctx, p, "C20-R1", name)

    # ---- R2
    getters_verbatim(ctx, p, "C20-R2")

    # ---- R3
    b = cm.body_or_fail(ctx, p, "C20-R3", "<engine::Condition as std::default::Default>::default")
    if b is not None:
        ret = ExprBuilder(b).local(0)
        if ret[0] != "agg" or not ret[3]:
            ctx.fail("C20-R3", b.path, "return value", "not a struct literal: " + show(ret), b.loc())
        else:
            vals = dict(zip(ret[3], ret[2]))
            for f, want in DEFAULTS.items():
                v = vals.get(f)
                if v is not None and v[0] == "c" and float(v[1]) == float(want) and isinstance(v[1], bool) == isinstance(want, bool):
                    ctx.ok("C20-R3", "default %s = %s" % (f, want), b.loc())
                else:
                    ctx.fail("C20-R3", b.path, "field " + f, "default is %s, expected %s" % (show(v) if v else None, want), b.loc())
    b = cm.body_or_fail(ctx, p, "C20-R3", COND + "load_model")
    if b is not None:
        eb = ExprBuilder(b)
        written = {}
        for bb, i, st, tgt, root, chain, val in stores(b, eb):
            if is_self(root) and chain:
                written.setdefault(chain[0], []).append((st, val))
        for cbb, t, cname, k, ref in mut_arg_calls(b, eb):
            r, ch = root_of(ref)
            if is_self(r):
                if not ch:
                    ctx.fail("C20-R3", b.path, "call " + cname, "whole condition passed mutably to another function during load_model", cm.loc_of(t["span"]))
                else:
                    written.setdefault(ch[0], []).append((t, ("unk", cname)))
        badw = USER_LEVEL & set(written)
        if badw:
            for f in sorted(badw):
                ctx.fail("C20-R3", b.path, "store " + f, "load_model overwrites the user-level setting `%s`" % f, cm.loc_of(written[f][0][0]["span"]))
        else:
            ctx.ok("C20-R3", "load_model writes %s; none of %s" % (sorted(written), sorted(USER_LEVEL)), b.loc())
        for f, want in (("msd_threshold", 0.5), ("gv_weight", 1.0)):
            ws = written.get(f, [])
            good = False
            for st, val in ws:
                # slice::repeat([c], nstream)
                if val[0] == "call" and val[1].endswith("::repeat") and len(val[2]) == 2:
                    src, n = val[2]
                    elems = src[2] if src[0] == "agg" else ()
                    nst = show(n)
                    if len(elems) == 1 and elems[0][0] == "c" and float(elems[0][1]) == want and "num_streams" in nst:
                        good = True
                if val[0] == "call" and val[1].endswith("from_elem") and len(val[2]) == 2:
                    c0, n = val[2]
                    if c0[0] == "c" and float(c0[1]) == want and "num_streams" in show(n):
                        good = True
            if good and len(ws) == 1:
                ctx.ok("C20-R3", "load_model: %s = [%s; num_streams]" % (f, want), b.loc())
            else:
                ctx.fail("C20-R3", b.path, "store " + f, "expected a single store of [%s; num_streams], found %s" % (want, [show(v) for _, v in ws]), b.loc())
    b = cm.body_or_fail(ctx, p, "C20-R3", "engine::Engine::load")
    if b is not None:
        eb = ExprBuilder(b)
        # the condition local: result of Condition::default()
        cond_locals = [t["dest"]["local"] for bb, t in cm.local_calls(b, p, exact="<engine::Condition as std::default::Default>::default")]
        if len(cond_locals) != 1:
            ctx.fail("C20-R3", b.path, "Condition::default()", "expected one call of Condition::default, found %d" % len(cond_locals), b.loc())
        else:
            cl = cond_locals[0]
            muts = []
            for cbb, t, cname, k, ref in mut_arg_calls(b, eb):
                r, ch = root_of(ref)
                if r[0] == "var" and r[1] == cl or (r[0] == "call" and "Default" in r[1]):
                    muts.append(cname)
            partial = b.partial_stores(cl)
            if muts == [COND + "load_model"] and not partial:
                ctx.ok("C20-R3", "Engine::load: condition = default(); only load_model receives it mutably; then Engine::new", b.loc())
            else:
                ctx.fail("C20-R3", b.path, "condition writers", "condition is modified by %s (+%d direct field stores); expected only load_model" % (muts, len(partial)), b.loc())
    b = cm.body_or_fail(ctx, p, "C20-R3", "engine::Engine::new")
    if b is not None:
        ret = ExprBuilder(b).local(0)
        if ret[0] == "agg" and dict(zip(ret[3], ret[2])).get("condition", ("x",))[0] == "arg":
            ctx.ok("C20-R3", "Engine::new stores the given condition unchanged", b.loc())
        else:
            ctx.fail("C20-R3", b.path, "return value", "Engine::new does not store its condition argument unchanged: " + show(ret), b.loc())

    ctx.assume("arguments are finite (as the property states); NaN handling of clamp/max is outside the statement")
    ctx.assume("volume's dB mapping is C16-R1; `0 dB` default = stored 1.0 by that rule")
    expl = ("Abstract interpretation of each setter's single store into the clamp domain (max/min/clamp with constants) and "
            "comparison with the documented range table; store target = own field (and the stream_index element); getters "
            "return that field; defaults read from Condition::default's struct literal and load_model's stores; load_model's "
            "write set excludes user-level settings; Engine::load applies no setter. Holds for every finite argument because "
            "the clamp domain is exact.")
    return expl, ["rustc MIR", "semantics of f64::max/min/clamp and Ord::max (std)"]
