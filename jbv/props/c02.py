"""C02 - Incremental generation equals one-shot synthesis."""
from ..expr import ExprBuilder, show, stores, root_of, walk, mut_arg_calls, to_poly, Poly, canon
from .. import paths
from . import common as cm

SG = "speech::SpeechGenerator::"
VS = "vocoder::Vocoder::synthesize"


def is_self(e):
    return e[0] == "arg" and e[1] == 1


def field_writers(p, adt, field):
    out = []
    for path, bd in p.bodies.items():
        if bd.is_derived():
            continue
        for bb, i, st in bd.iter_stmts():
            if st["k"] == "assign":
                for e in st["place"]["proj"]:
                    if e["k"] == "field" and e.get("name") == field and e.get("of") == adt:
                        out.append((path, bb, i, st))
    return out


def param_roles_synthesize(p):
    """role of each parameter of Vocoder::synthesize by how it is used:
       'lf0'      compared with the no-data constant
       'spectrum' passed to a cepstrum / LSP constructor
       'lpf'      passed (through a closure) to Excitation::get
       'out'      the mutable output buffer"""
    b = p.body(VS)
    roles = {}
    if b is None:
        return roles
    eb = ExprBuilder(b)
    for sb, t, arms in b.switch_edges():
        d = eb.op(t["discr"])
        if d[0] == "bin" and d[1] in ("Eq", "Ne"):
            for x, y in ((d[2], d[3]), (d[3], d[2])):
                if x[0] == "arg" and y[0] == "c" and y[3] == "constants::NODATA":
                    roles[x[1]] = "lf0"
    for bb, t in b.calls():
        c = t["callee"]
        if c["k"] != "fndef":
            continue
        nm = cm.callee_name(c)
        if nm in ("vocoder::cepstrum::MelCepstrum::new", "vocoder::lsp::LineSpectralPairs::new"):
            a = eb.op(t["args"][0])
            if a[0] == "arg":
                roles[a[1]] = "spectrum"
    for bb, t in b.calls():
        c = t["callee"]
        if c["k"] == "fndef" and cm.callee_name(c) == "vocoder::excitation::Excitation::get":
            a = eb.at(bb).op(t["args"][1])
            if a[0] == "arg":
                roles[a[1]] = "lpf"
    for cb in p.nested(VS):
        ceb = ExprBuilder(cb)
        for bb, t in cb.calls():
            c = t["callee"]
            if c["k"] == "fndef" and cm.callee_name(c) == "vocoder::excitation::Excitation::get":
                a = ceb.op(t["args"][1])
                if a[0] == "upvar":
                    nm = a[1].lstrip("*")
                    for l in range(1, b.argc + 1):
                        if b.local_name(l) == nm:
                            roles[l] = "lpf"
    for l in range(1, b.argc + 1):
        if b.local_ty(l).startswith("&mut [f64]"):
            roles[l] = "out"
    return roles


def run(ctx):
    ctx.rule("C02-R1", "cursor discipline: SpeechGenerator::next is written only by new (constant 0) and generate_step (next+1); the increment is dominated by exactly one Vocoder::synthesize call and is on no path that returns 0")
    ctx.rule("C02-R2", "exhausted => returns 0 and writes nothing: on the path guarded by len(lf0) <= next nothing is stored through self/speech and neither is passed mutably")
    ctx.rule("C02-R3", "the producing path returns field fperiod; synthesized_frames returns field next; fperiod() returns field fperiod")
    ctx.rule("C02-R4", "one frame index for all three streams: Vocoder::synthesize receives lf0[next][0], spectrum[next], lpf[next] in the parameters of those roles")
    ctx.rule("C02-R5", "batch = loop of steps laid out contiguously: only generate_step writes the buffer; loop runs while it returns non-zero; with o(k) the slice offset at next=k, s=next at entry, L=len(lf0), f=fperiod, B=buffer length: o(s)=0, o(k+1)-o(k)=f, B=o(L)")
    ctx.rule("C02-R6", "all cross-frame state is owned by the generator: Vocoder is held only in the private field SpeechGenerator::vocoder")
    p = cm.program(ctx)

    # ---- R1
    ws = field_writers(p, "speech::SpeechGenerator", "next")
    by = {}
    for path, bb, i, st in ws:
        by.setdefault(path, []).append((bb, i, st))
    extra = set(by) - {SG + "generate_step"}
    for e in sorted(extra):
        ctx.fail("C02-R1", e, "store next", "the frame cursor is written outside new/generate_step", p.bodies[e].loc())
    nb = cm.body_or_fail(ctx, p, "C02-R1", SG + "new")
    if nb is not None:
        rets = [e for bb, e, item in paths.return_exprs(nb)]
        good = False
        for e in rets:
            if e[0] == "agg" and "next" in e[3]:
                v = e[2][e[3].index("next")]
                good = v[0] == "c" and v[1] == 0
        if good:
            ctx.ok("C02-R1", "SpeechGenerator::new initialises next = 0", nb.loc())
        else:
            ctx.fail("C02-R1", nb.path, "field next", "next is not initialised with constant 0", nb.loc())
    # aggregates of SpeechGenerator elsewhere
    for path, b2 in p.bodies.items():
        for bb, i, st in b2.iter_stmts():
            if st["k"] == "assign" and st["rv"]["k"] == "aggregate" and st["rv"]["kind"].get("def") == "speech::SpeechGenerator" and path != SG + "new":
                ctx.fail("C02-R1", path, "constructs SpeechGenerator", "a generator is built outside SpeechGenerator::new (cursor may not start at 0)", b2.loc())
    gs = cm.body_or_fail(ctx, p, "C02-R1", SG + "generate_step")
    if gs is not None:
        eb = ExprBuilder(gs)
        incs = by.get(SG + "generate_step", [])
        if len(incs) != 1:
            ctx.fail("C02-R1", gs.path, "store next", "expected exactly one store to next in generate_step, found %d" % len(incs), gs.loc())
        else:
            bb, i, st = incs[0]
            val = eb.rvalue(st["rv"])
            pol = to_poly(val)
            nxt = to_poly(("field", ("arg", 1, "self"), "next"))
            if pol - nxt == Poly.const(1):
                ctx.ok("C02-R1", "generate_step: next <- next + 1", cm.loc_of(st["span"]))
            else:
                ctx.fail("C02-R1", gs.path, "cursor increment", "next <- %s, expected next + 1" % show(val), cm.loc_of(st["span"]))
            syn = cm.local_calls(gs, p, exact=VS)
            dom = gs.dominators()
            doms = [cb for cb, t in syn if cb in dom.get(bb, ())]
            if len(syn) == 1 and len(doms) == 1:
                ctx.ok("C02-R1", "the increment is dominated by the single Vocoder::synthesize call", cm.loc_of(st["span"]))
            else:
                ctx.fail("C02-R1", gs.path, "increment vs synthesize", "%d synthesize call(s), %d dominate the increment: a frame could be skipped or produced twice" % (len(syn), len(doms)), cm.loc_of(st["span"]))
            # increment must post-dominate the synthesize call as well (every produced frame advances)
            if syn:
                pd = gs.post_dominators()
                if bb in pd.get(syn[0][0], ()):
                    ctx.ok("C02-R1", "every synthesize call is followed by the increment (post-dominance)", cm.loc_of(st["span"]))
                else:
                    ctx.fail("C02-R1", gs.path, "synthesize without increment", "a path produces a frame without advancing the cursor", cm.loc_of(st["span"]))

        # ---- R2 / R3
        rets = paths.return_exprs(gs, eb)
        zero_blocks = [bb for bb, e, item in rets if e[0] == "c" and e[1] == 0]
        prod_blocks = [(bb, e) for bb, e, item in rets if not (e[0] == "c" and e[1] == 0)]
        ctx.anchor("C02-R2", "generate_step `return 0` exits", len(zero_blocks), 1, gs.loc())
        for zb in zero_blocks:
            gl = paths.guards(gs, zb, eb)
            exhausted = False
            for g in gl:
                if g[0] in ("true", "false"):
                    pos, c = paths.bool_atoms(g)
                    if c[0] == "bin":
                        l, r = show(c[2]), show(c[3])
                        op = c[1]
                        # len(lf0) <= next (true) ; next >= len ; len > next (false); next < len (false)
                        if (l, r) == ("len(self.lf0)", "self.next") and ((op == "Le" and pos) or (op == "Gt" and not pos)):
                            exhausted = True
                        if (l, r) == ("self.next", "len(self.lf0)") and ((op == "Ge" and pos) or (op == "Lt" and not pos)):
                            exhausted = True
            if not exhausted:
                ctx.fail("C02-R2", gs.path, "return 0", "a `return 0` exit is not guarded by len(lf0) <= next (guards: %s)" % [(g[0], show(g[1])[:50]) for g in gl], gs.loc())
                continue
            # blocks from which this exit is reachable AND that are themselves guarded... simpler:
            # every block that can reach zb without passing a producing block: check effects on all
            # blocks that lie on some entry->zb path.
            on_path = {x for x in gs.reachable() if gs.can_reach(x, zb)}
            prod_only = set()
            for pb, e in prod_blocks:
                prod_only |= {x for x in gs.reachable() if gs.can_reach(x, pb)}
            eff = []
            for bb2, i2, st2, tgt, root, chain, val in stores(gs, eb):
                if bb2 in on_path and (root[0] == "arg"):
                    eff.append("store " + show(tgt))
            for cbb, t, cname, k, ref in mut_arg_calls(gs, eb):
                r, ch = root_of(ref)
                if cbb in on_path and r[0] == "arg":
                    eff.append("call " + cname)
            if eff:
                ctx.fail("C02-R2", gs.path, "effect on exhausted path", "the exhausted path has effects: %s" % eff, gs.loc())
            else:
                ctx.ok("C02-R2", "exhausted path (len(lf0) <= next) returns 0 with no store through self/speech and no mutable call", gs.loc())
        # the complementary edge leads to the producing path: synthesize is guarded by next < len
        for cb, t in cm.local_calls(gs, p, exact=VS):
            gl = paths.guards(gs, cb, eb)
            okg = False
            for g in gl:
                if g[0] in ("true", "false"):
                    pos, c = paths.bool_atoms(g)
                    if c[0] == "bin" and {show(c[2]), show(c[3])} == {"len(self.lf0)", "self.next"}:
                        okg = True
            if okg:
                ctx.ok("C02-R2", "synthesize is guarded by the cursor/length comparison", cm.loc_of(t["span"]))
            else:
                ctx.fail("C02-R2", gs.path, "unguarded synthesize", "a frame is synthesized without comparing the cursor with the frame count", cm.loc_of(t["span"]))
        for bb, e in prod_blocks:
            if e[0] == "field" and is_self(e[1]) and e[2] == "fperiod":
                ctx.ok("C02-R3", "producing path returns self.fperiod", gs.loc())
            else:
                ctx.fail("C02-R3", gs.path, "return value", "the producing path returns %s, expected self.fperiod" % show(e), gs.loc())
        ctx.anchor("C02-R3", "producing return", len(prod_blocks), 1, gs.loc())

        # ---- R4
        roles = param_roles_synthesize(p)
        syn = cm.local_calls(gs, p, exact=VS)
        want_field = {"lf0": "lf0", "spectrum": "spectrum", "lpf": "lpf"}
        for cb, t in syn:
            seen = {}
            for k, a in enumerate(t["args"]):
                role = roles.get(k + 1)
                if role not in want_field:
                    continue
                e = eb.op(a)
                # expected: self.<field>[self.next] (and [0] for lf0)
                base = e
                if role == "lf0":
                    if not (base[0] == "idx" and base[2][0] == "c" and base[2][1] == 0):
                        ctx.fail("C02-R4", gs.path, "argument lf0", "lf0 argument is %s, expected self.lf0[next][0]" % show(e), cm.loc_of(t["span"]))
                        continue
                    base = base[1]
                if base[0] == "idx" and base[1][0] == "field" and is_self(base[1][1]):
                    fld = base[1][2]
                    idx = base[2]
                    seen[role] = (fld, idx)
                else:
                    ctx.fail("C02-R4", gs.path, "argument " + role, "%s argument is %s, expected self.%s[next]" % (role, show(e), want_field[role]), cm.loc_of(t["span"]))
            for role, (fld, idx) in seen.items():
                if fld != want_field[role]:
                    ctx.fail("C02-R4", gs.path, "argument " + role, "the %s parameter receives self.%s" % (role, fld), cm.loc_of(t["span"]))
                elif show(idx) != "self.next":
                    ctx.fail("C02-R4", gs.path, "index " + role, "the %s stream is indexed with %s, expected self.next" % (role, show(idx)), cm.loc_of(t["span"]))
                else:
                    ctx.ok("C02-R4", "%s parameter <- self.%s[self.next]" % (role, fld), cm.loc_of(t["span"]))
            if set(seen) != set(want_field):
                ctx.fail("C02-R4", gs.path, "roles", "could not identify all three stream parameters of Vocoder::synthesize (found roles %s)" % roles, cm.loc_of(t["span"]))

    for nm, fld in (("synthesized_frames", "next"), ("fperiod", "fperiod")):
        b = cm.body_or_fail(ctx, p, "C02-R3", SG + nm)
        if b is not None:
            e = ExprBuilder(b).local(0)
            if e[0] == "field" and is_self(e[1]) and e[2] == fld:
                ctx.ok("C02-R3", "%s() returns self.%s" % (nm, fld), b.loc())
            else:
                ctx.fail("C02-R3", b.path, "return value", "%s() returns %s, expected self.%s" % (nm, show(e), fld), b.loc())

    # ---- R5
    ga = cm.body_or_fail(ctx, p, "C02-R5", SG + "generate_all")
    if ga is not None:
        r5(ctx, p, ga)

    # ---- R7
    r7_write_only(ctx, p)

    # ---- R6
    a = p.adts.get("speech::SpeechGenerator")
    if a:
        f = [x for v in a["variants"] for x in v["fields"] if x["name"] == "vocoder"]
        if f and f[0]["vis"] != "pub":
            ctx.ok("C02-R6", "SpeechGenerator::vocoder is private", cm.loc_of(a["span"]))
        else:
            ctx.fail("C02-R6", "speech::SpeechGenerator", "field vocoder", "the vocoder field is public or missing", cm.loc_of(a["span"]))
    holders = []
    for path, ad in p.adts.items():
        for v in ad["variants"]:
            for x in v["fields"]:
                if "vocoder::Vocoder" in x["ty"].replace("vocoder::Vocoder::", ""):
                    holders.append("%s.%s" % (path, x["name"]))
    if holders == ["speech::SpeechGenerator.vocoder"]:
        ctx.ok("C02-R6", "the only field of type Vocoder in the crate is SpeechGenerator::vocoder")
    else:
        ctx.fail("C02-R6", "vocoder::Vocoder", "holders", "Vocoder is stored in %s" % holders)
    if not p.statics:
        ctx.ok("C02-R6", "no statics in the crate (C03-R1): no cross-generator state")
    else:
        bad = [s["path"] for s in p.statics if s["mutable"] or not s["freeze"] or s["thread_local"]]
        if bad:
            ctx.fail("C02-R6", "crate", "statics", "mutable/interior-mutable statics: %s" % bad)
        else:
            ctx.ok("C02-R6", "statics are immutable and Freeze")
    # generate_all consumes the generator (finish cannot be followed by a step)
    if ga is not None:
        if ga.local_ty(1) == "speech::SpeechGenerator":
            ctx.ok("C02-R6", "generate_all takes self by value: no step after finish type-checks", ga.loc())
        else:
            ctx.fail("C02-R6", ga.path, "receiver", "generate_all takes %s" % ga.local_ty(1), ga.loc())

    ctx.assume("Vocoder::synthesize writes exactly fperiod samples at the start of the buffer it is given (C16-R2 enumerates the stores: rawdata[i] for i in 0..fperiod)")
    expl = ("Write-set of the frame cursor, dominance/post-dominance between the synthesize call and the increment, effect-freedom of "
            "the exhausted path, returned fields, index agreement of the three stream arguments with parameter roles derived from "
            "Vocoder::synthesize's own body, and three exact polynomial identities on the batch loop's buffer size and slice offset "
            "(symbolic in the entry cursor s, current cursor k, frame count L and frame period f). These imply that concatenated steps, "
            "one-shot synthesis and finish-after-steps produce the same samples for every call history.")
    return expl, ["rustc MIR"]


def r7_write_only(ctx, p):
    """R7: what a step leaves in the caller's buffer does not depend on what the buffer held: no
    element of the output buffer is read anywhere in generate_step, Vocoder::synthesize or their
    closures (the buffer is written, sliced and measured, never loaded)."""
    from ..expr import resolve_upvars
    from .c06 import _operands
    ctx.rule("C02-R8", "one frame period for the generator and its vocoder: Engine::generator hands condition.fperiod to SpeechGenerator::new and to Vocoder::new (the step count / stride and the samples written per frame are the same number); the clause C01-R1 decides, stated for C02")
    from .c01 import fperiod_wiring
    fperiod_wiring(ctx, p, "C02-R8")
    ctx.rule("C02-R7", "the output buffer is write-only: no statement of generate_step / Vocoder::synthesize (closures included) loads an element of the `&mut [f64]` output parameter - a chunk equals the one-shot waveform whatever the caller's buffer held before")
    n_bodies = 0
    n_out_stores = 0
    for fn in (SG + "generate_step", VS):
        top = cm.body_or_fail(ctx, p, "C02-R7", fn)
        if top is None:
            continue
        outs = [l for l in range(1, top.argc + 1) if top.local_ty(l).replace(" ", "") == "&mut[f64]"]
        if len(outs) != 1:
            ctx.fail("C02-R7", fn, "output parameter", "expected exactly one `&mut [f64]` parameter, found %d" % len(outs), top.loc())
            continue
        out = ("arg", outs[0], top.local_name(outs[0]))
        reads = []
        for b in [top] + list(p.nested(fn)):
            n_bodies += 1
            eb = ExprBuilder(b)
            res = (lambda e, b=b: resolve_upvars(p, b, e)) if b.kind == "Closure" else (lambda e: e)

            def is_elem(e):
                # out[i] (also through a reslice out[a..b][i]); a sub-slice itself is not a load
                if e[0] == "idx" and not (e[2][0] == "agg" and "Range" in e[2][1]):
                    r = e[1]
                    while r[0] == "idx" or (r[0] == "call" and r[2]):
                        r = r[1] if r[0] == "idx" else r[2][0]
                    return res(r) == out
                return False
            if fn == VS:
                for sbb, si, sst, stgt, sroot, schain, sval in stores(b, eb):
                    if res(sroot) == out:
                        n_out_stores += 1
            for bb in range(len(b.blocks)):
                if b.is_cleanup(bb):
                    continue
                for k, st in enumerate(b.blocks[bb]["stmts"]):
                    if st["k"] != "assign":
                        continue
                    for op in _operands(st["rv"]):
                        if op.get("k") in ("copy", "move") and op["place"]["proj"]:
                            try:
                                ex = eb.at(bb, k).op(op)
                            except Exception:
                                continue
                            if is_elem(ex):
                                reads.append((b, cm.loc_of(st["span"]), show(res(ex))[:60]))
                t = b.blocks[bb]["term"]
                if t["k"] == "call":
                    for a_ in t["args"]:
                        if a_.get("k") in ("copy", "move") and a_["place"]["proj"]:
                            try:
                                ex = eb.at(bb).op(a_)
                            except Exception:
                                continue
                            if is_elem(ex):
                                reads.append((b, cm.loc_of(t["span"]), show(res(ex))[:60]))
        if reads:
            for b, loc, what in reads[:3]:
                ctx.fail("C02-R7", b.path, "buffer load", "`%s` is read: the samples written by a step depend on what the caller's buffer held (accumulating instead of overwriting?)" % what, loc)
        else:
            ctx.ok("C02-R7", "%s: no element of `%s` is ever loaded" % (fn.split("::")[-1], out[2]), top.loc())
    ctx.anchor("C02-R7", "bodies scanned for loads of the output buffer", n_bodies, 2, None)
    ctx.anchor("C02-R7", "stores into the output buffer seen in Vocoder::synthesize (one per filter family)", n_out_stores, 2, None)


def r5(ctx, p, ga):
    loops = ga.natural_loops()
    step_calls = cm.local_calls(ga, p, exact=SG + "generate_step")
    if len(step_calls) != 1:
        ctx.fail("C02-R5", ga.path, "generate_step calls", "expected exactly one generate_step call in generate_all, found %d" % len(step_calls), ga.loc())
        return
    cb, ct = step_calls[0]
    loop = None
    for h, body in loops:
        if cb in body:
            loop = (h, body)
    if loop is None:
        ctx.fail("C02-R5", ga.path, "loop", "generate_step is not called in a loop", ga.loc())
        return
    h, lbody = loop
    S, K = ("sym", "s"), ("sym", "k")

    _alias = {}

    def is_self_local(l, depth=0):
        # `self`, or a temporary that just re-borrows / copies it (an inlined &self helper)
        if l == 1:
            return True
        if l in _alias:
            return _alias[l]
        _alias[l] = False
        ds = [d for d in ga.defs().get(l, []) if not ga.is_cleanup(d[0])]
        if depth < 4 and len(ds) == 1 and ds[0][1] != "term":
            rv = ds[0][2]["rv"]
            if rv["k"] == "ref" and [e["k"] for e in rv["place"]["proj"]] in (["deref"], []) and is_self_local(rv["place"]["local"], depth + 1):
                _alias[l] = True
            if rv["k"] == "use" and rv["op"].get("k") in ("move", "copy") and not rv["op"]["place"]["proj"] and is_self_local(rv["op"]["place"]["local"], depth + 1):
                _alias[l] = True
        return _alias[l]

    def hook(pl, bb):
        # reads of self.next: entry value outside the loop, current cursor inside
        if is_self_local(pl["local"]):
            names = [e.get("name") for e in pl["proj"] if e["k"] == "field"]
            if names == ["next"]:
                return K if bb in lbody else S
        return None
    eb = ExprBuilder(ga, place_hook=hook)

    def atomize(e):
        if e[0] == "sym":
            return e
        if e[0] == "field" and is_self(e[1]) and e[2] == "fperiod":
            return ("sym", "f")
        if e[0] == "len" and show(e[1]) == "self.lf0":
            return ("sym", "L")
        return None
    s, k, f, L = (Poly.atom(("sym", x)) for x in "skfL")

    # only generate_step (and index_mut) receive the buffer mutably
    buf_local = None
    ret = eb.local(0)
    for bb2, idx, item in ga.defs().get(0, []):
        if idx != "term" and item["rv"]["k"] == "use" and item["rv"]["op"]["k"] in ("move", "copy"):
            buf_local = item["rv"]["op"]["place"]["local"]
    if buf_local is None:
        ctx.fail("C02-R5", ga.path, "return value", "generate_all does not return a local buffer", ga.loc())
        return
    ballocs = [d for d in ga.defs().get(buf_local, []) if not ga.is_cleanup(d[0])]
    if len(ballocs) != 1 or ballocs[0][1] != "term":
        ctx.fail("C02-R5", ga.path, "buffer", "the returned buffer has %d definitions" % len(ballocs), ga.loc())
        return
    abb, _, aterm = ballocs[0]
    if abb in lbody:
        ctx.fail("C02-R5", ga.path, "buffer", "the buffer is allocated inside the loop", ga.loc())
        return
    eb.at(abb)
    alloc = eb.call(aterm)
    if not (alloc[0] == "call" and alloc[1].endswith("from_elem") and len(alloc[2]) == 2):
        ctx.fail("C02-R5", ga.path, "buffer", "buffer is not vec![x; n]: %s" % show(alloc), cm.loc_of(aterm["span"]))
        return
    # a.saturating_sub(b) is a - b wherever the plain subtraction does not underflow
    from ..loops import rewrite as _rw
    B = to_poly(_rw(alloc[2][1], lambda n: ("bin", "Sub", n[2][0], n[2][1]) if n[0] == "call" and n[1].endswith("saturating_sub") and len(n[2]) == 2 else None), atomize)
    for cbb, t, cname, kk, ref in mut_arg_calls(ga, ExprBuilder(ga)):
        r, ch = root_of(ref)
        if r[0] == "var" and r[1] == buf_local or (r[0] == "call" and r[1].endswith("from_elem")):
            if cname != SG + "generate_step" and "index_mut" not in cname and "deref_mut" not in cname:
                ctx.fail("C02-R5", ga.path, "call " + cname, "the batch buffer is written by something other than generate_step", cm.loc_of(t["span"]))
    # slice passed to generate_step
    eb.at(cb)
    sl = eb.op(ct["args"][1])
    off = None
    if sl[0] == "idx" and sl[2][0] == "agg" and sl[2][1].endswith("RangeFrom::RangeFrom"):
        off = sl[2][2][0]
        base = sl[1]
    elif sl[0] == "idx" and sl[2][0] == "agg" and sl[2][1].endswith("Range::Range"):
        off = sl[2][2][0]
        base = sl[1]
    if off is None:
        ctx.fail("C02-R5", ga.path, "slice", "generate_step receives %s, expected &mut buf[offset..]" % show(sl), cm.loc_of(ct["span"]))
        return
    o = offset_poly(ga, eb, off, lbody, atomize, f)
    if o is None:
        ctx.fail("C02-R5", ga.path, "offset", "unmodelled slice offset %s (neither a closed form in the cursor nor a loop-carried accumulator)" % show(off), cm.loc_of(ct["span"]))
        return
    o_k = o

    def subst(pol, atom_from, pol_to):
        res = Poly()
        for mono, c in pol.t.items():
            term = Poly.const(c)
            for at, ex in mono:
                base_p = pol_to if at == atom_from else Poly.atom(at)
                if ex < 0:
                    return None
                for _ in range(ex):
                    term = term * base_p
            res = res + term
        return res
    o_s = subst(o_k, K, s)
    o_k1 = subst(o_k, K, k + Poly.const(1))
    o_L = subst(o_k, K, L)
    ok1 = o_s is not None and o_s == Poly()
    ok2 = o_k1 is not None and (o_k1 - o_k) == f
    ok3 = o_L is not None and B == o_L
    sample = {"o(k)": repr(o_k), "B": repr(B), "o(s)": repr(o_s), "o(k+1)-o(k)": repr(o_k1 - o_k) if o_k1 is not None else None, "o(L)": repr(o_L)}
    ctx.sample(sample)
    if ok2:
        ctx.ok("C02-R5", "o(k+1) - o(k) = f  (o(k) = %s)" % o_k, cm.loc_of(ct["span"]))
    else:
        ctx.fail("C02-R5", ga.path, "stride", "consecutive steps are not laid out one frame apart: o(k) = %s" % o_k, cm.loc_of(ct["span"]))
    if ok1 and ok3:
        ctx.ok("C02-R5", "o(s) = 0 and B = o(L) = %s: the steps tile the buffer exactly" % B, cm.loc_of(ct["span"]))
    else:
        ctx.fail("C02-R5", ga.path, "layout",
                 "the batch buffer has %s samples but step k writes at offset %s: o(s) = %s (must be 0), o(L) = %s (must equal the buffer length). "
                 "Finishing a generator that has already produced s > 0 frames slices past the buffer / misplaces the suffix"
                 % (B, o_k, o_s, o_L), cm.loc_of(ct["span"]))
    # loop continues while generate_step returns non-zero
    exit_ok = False
    for sb, t, arms in ga.switch_edges():
        if sb not in lbody:
            continue
        d = ExprBuilder(ga).op(t["discr"])
        outs = [(v, tg) for v, tg in arms if tg not in lbody]
        if not outs:
            continue
        if d[0] == "bin" and d[2][0] == "call" and d[2][1] == SG + "generate_step" and d[3][0] == "c" and d[3][1] == 0:
            for v, tg in outs:
                # Gt/Ne false -> exit ; Eq true -> exit
                if d[1] in ("Gt", "Ne") and v == 0:
                    exit_ok = True
                if d[1] == "Eq" and (v is None or v == 1):
                    exit_ok = True
    if exit_ok:
        ctx.ok("C02-R5", "the loop exits exactly when generate_step returns 0", ga.loc())
    else:
        ctx.fail("C02-R5", ga.path, "loop exit", "the batch loop does not run until generate_step returns 0", ga.loc())


def offset_poly(ga, eb, off, lbody, atomize, f):
    """closed form in k, or loop-carried accumulator (init c outside loop, += f inside) -> (k - s)*f + c"""
    pol = to_poly(off, atomize)
    K, S = ("sym", "k"), ("sym", "s")
    vars_ = [a for a in pol.atoms() if isinstance(a, tuple) and a and a[0] == "var"]
    if not vars_:
        bad = [a for a in pol.atoms() if not (isinstance(a, tuple) and a and a[0] == "sym")]
        if bad:
            return None
        return pol
    # accumulator: pol must be exactly one variable
    if len(pol.t) == 1 and len(vars_) == 1:
        v = vars_[0]
        name = v[1]
        local = None
        for l, d in enumerate(ga.locals):
            if d.get("name") == name or l == name:
                local = l
        if local is None:
            return None
        defs = [d for d in ga.defs().get(local, []) if not ga.is_cleanup(d[0])]
        init = [d for d in defs if d[0] not in lbody]
        upd = [d for d in defs if d[0] in lbody]
        if len(init) != 1 or len(upd) != 1 or init[0][1] == "term" or upd[0][1] == "term":
            return None
        ie = to_poly(eb.rvalue(init[0][2]["rv"]), atomize)
        ue = to_poly(eb.rvalue(upd[0][2]["rv"]), atomize)
        from ..expr import Poly as P
        step = ue - P.atom(v)
        if step != f and len(step.t) == 1 and list(step.t.values()) == [1]:
            # `filled += written` with `written` the value generate_step just returned: under
            # `written != 0` that value is fperiod (C02-R2: generate_step returns 0 or fperiod)
            (mono, _c), = step.t.items()
            at = mono[0][0] if len(mono) == 1 and mono[0][1] == 1 else None
            if isinstance(at, tuple) and at and at[0] == "call" and str(at[1]).endswith("SpeechGenerator::generate_step"):
                from .. import paths as _paths
                from ..expr import canon as _canon
                for g in _paths.guards(ga, upd[0][0], eb):
                    if g[0] in ("true", "false"):
                        pos, c = _paths.bool_atoms(g)
                        if c[0] == "bin" and c[2][0] == "call" and str(c[2][1]).endswith("SpeechGenerator::generate_step") and c[3][0] == "c" and c[3][1] == 0 and ((c[1] == "Eq" and not pos) or (c[1] == "Ne" and pos) or (c[1] == "Gt" and pos)):
                            step = f
            elif isinstance(at, tuple) and at and at[0] == "var":
                wl = None
                for l, d in enumerate(ga.locals):
                    if d.get("name") == at[1] or l == at[1]:
                        wl = l
                wdefs = [d for d in ga.defs().get(wl, []) if not ga.is_cleanup(d[0])] if wl is not None else []
                from .. import paths as _paths
                if len(wdefs) == 1 and wdefs[0][1] == "term" and cm.callee_name(wdefs[0][2]["callee"]).endswith("SpeechGenerator::generate_step") and wdefs[0][0] in lbody:
                    gsu = _paths.guards(ga, upd[0][0], eb)
                    nz = False
                    for g in gsu:
                        if g[0] in ("true", "false"):
                            pos, c = _paths.bool_atoms(g)
                            if c[0] == "bin" and c[2] == ("var", at[1], at[2] if len(at) > 2 else None) or (c[0] == "bin" and show(c[2]) == show(at)):
                                if c[3][0] == "c" and c[3][1] == 0 and ((c[1] == "Eq" and not pos) or (c[1] == "Ne" and pos) or (c[1] == "Gt" and pos)):
                                    nz = True
                    if nz:
                        step = f
        if step == f and ie.is_const():
            k, s = P.atom(K), P.atom(S)
            return (k - s) * f + ie
    return None
