"""C10 - Voice interpolation is the weighted average."""
from ..expr import resolve_upvars, ExprBuilder, show, walk, root_of, stores, to_poly, Poly, canon
from .. import paths
from . import common as cm

WEIGHTED = "model::voice_set::VoiceSet::weighted"
MUL = "model::voice::model::ModelParameter::mul"
MAA = "model::voice::model::ModelParameter::mul_add_assign"
BAD_ADAPTORS = ("skip", "take", "step_by", "rev", "filter", "skip_while", "take_while", "chain", "cycle", "nth", "last", "filter_map", "peekable")


def adaptors(e):
    return [x[1].rsplit("::", 1)[-1] for x in walk(e) if x[0] == "call"]


def r2_blend(ctx, p, RULE="C10-R2"):
    """component coverage of the blend (mean, variance, msd); also run by C11 under its own rule id,
    because the voicing decision compares the *interpolated* msd with the threshold"""
    mv = cm.body_or_fail(ctx, p, RULE, "model::mean_vari::MeanVari::weighted")
    if mv is not None:
        ret = ExprBuilder(mv).local(0)
        okk = False
        if ret[0] == "agg" and len(ret[2]) == 2:
            p0, p1 = to_poly(ret[2][0]), to_poly(ret[2][1])
            w = Poly.atom(("arg", "weight"))
            f0 = Poly.atom(canon(("field", ("arg", 1, "self"), "0")))
            f1 = Poly.atom(canon(("field", ("arg", 1, "self"), "1")))
            if p0 == f0 * w and p1 == f1 * w:
                okk = True
        if okk:
            ctx.ok(RULE, "MeanVari::weighted = (mean*w, vari*w)", mv.loc())
        else:
            ctx.fail(RULE, mv.path, "return value", "MeanVari::weighted returns %s, expected (mean*w, vari*w)" % show(ret), mv.loc())
    mb = cm.body_or_fail(ctx, p, RULE, MUL)
    if mb is not None:
        ret = ExprBuilder(mb).local(0)
        if ret[0] == "agg" and set(ret[3]) == {"parameters", "msd"}:
            f = dict(zip(ret[3], ret[2]))
            pe = f["parameters"]
            ad = adaptors(pe)
            clos = [x for x in walk(pe) if x[0] == "agg" and x[1].startswith("closure:")]
            okp = False
            if "map" in ad and "collect" in ad and not [a for a in ad if a in BAD_ADAPTORS] and "self.parameters" in show(pe) and len(clos) == 1:
                cb = p.bodies.get(clos[0][1][len("closure:"):])
                r = ExprBuilder(cb).local(0)
                if r[0] == "call" and r[1] == "model::mean_vari::MeanVari::weighted" and r[2][0][0] == "arg" and r[2][1][0] == "upvar" and r[2][1][1].lstrip("*") == "weight":
                    okp = True
            if not okp:
                # loop form: let mut v = Vec::with_capacity(n); for mv in &self.parameters { v.push(mv.weighted(weight)) }
                import re as _re
                meb = ExprBuilder(mb)
                pushes = [(bb, t) for bb, t in mb.calls() if t["callee"]["k"] == "fndef" and cm.callee_name(t["callee"]).endswith("Vec::<T, A>::push")]
                if len(pushes) == 1 and pe[0] == "call" and (pe[1].endswith("with_capacity") or pe[1].endswith("Vec::<T>::new")):
                    pbb, pt = pushes[0]
                    v_ = meb.at(pbb).op(pt["args"][1])
                    gs_ = paths.guards(mb, pbb, meb)
                    plain = len(gs_) == 1 and gs_[0][0] == "some" and _re.match(r"^<std::slice::Iter<'a, T> as std::iter::Iterator>::next\((?:[^()]*::(?:into_iter|iter)\()?self\.parameters\)?\)$", show(gs_[0][1]))
                    if plain and v_[0] == "call" and v_[1] == "model::mean_vari::MeanVari::weighted" and show(v_[2][0]) == "(%s as Some).0" % show(gs_[0][1]) and show(v_[2][1]) == "weight":
                        okp = True
                    # ... or the pair written out: MeanVari(mean * weight, vari * weight) of the element
                    if plain and v_[0] == "agg" and v_[1].endswith("MeanVari::MeanVari") and len(v_[2]) == 2:
                        el_ = "(%s as Some).0" % show(gs_[0][1])

                        def at_(e):
                            if e[0] == "field" and e[2] in ("0", "1") and show(e[1]) == el_:
                                return ("EL", e[2])
                            if e[0] == "arg" and show(e) == "weight":
                                return ("W",)
                            return None
                        W_ = Poly.atom(("W",))
                        if to_poly(v_[2][0], at_) == Poly.atom(("EL", "0")) * W_ and to_poly(v_[2][1], at_) == Poly.atom(("EL", "1")) * W_:
                            okp = True
            if okp:
                ctx.ok(RULE, "mul: parameters = every MeanVari.weighted(weight)", mb.loc())
            else:
                ctx.fail(RULE, mb.path, "parameters", "mul does not scale every (mean, variance) pair by the weight: %s" % show(pe)[:160], mb.loc())
            me = f["msd"]
            okm = False
            if me[0] == "call" and me[1].endswith("Option::<T>::map") and show(me[2][0]) == "self.msd":
                cl = [x for x in walk(me) if x[0] == "agg" and x[1].startswith("closure:")]
                if cl:
                    cb = p.bodies.get(cl[0][1][len("closure:"):])
                    r = ExprBuilder(cb).local(0)
                    pol = to_poly(r)
                    if len(pol.t) == 1:
                        (mono, c), = pol.t.items()
                        ats = [a for a, e in mono]
                        if c == 1 and len(ats) == 2 and any(a[0] == "upvar" and a[1].lstrip("*") == "weight" for a in ats) and any(a[0] == "arg" for a in ats):
                            okm = True
            if not okm:
                # match form: Some(m) => Some(weight * m), None => None
                from ..expr import alternatives
                meb2 = ExprBuilder(mb)
                alts = alternatives(meb2, me)
                somes = [a for a in alts if a[0] == "agg" and a[1].endswith("Option::Some")]
                nones = [a for a in alts if a[0] == "agg" and a[1].endswith("Option::None")]
                if len(somes) == 1 and len(nones) == 1 and len(alts) == 2:
                    pol = to_poly(somes[0][2][0], lambda e: ("W",) if e[0] == "arg" and e[2] == "weight" else (("M",) if show(e) == "(self.msd as Some).0" else None))
                    okm = pol == Poly.atom(("W",)) * Poly.atom(("M",))
            if okm:
                ctx.ok(RULE, "mul: msd = self.msd.map(|m| weight*m)", mb.loc())
            else:
                ctx.fail(RULE, mb.path, "msd", "mul does not scale the voicing weight: %s" % show(me)[:160], mb.loc())
        else:
            ctx.fail(RULE, mb.path, "return value", "mul returns %s" % show(ret)[:120], mb.loc())
    ab = cm.body_or_fail(ctx, p, RULE, MAA)
    if ab is not None:
        eb = ExprBuilder(ab)
        sts = stores(ab, eb)
        seen = set()
        w = ("W",)
        for bb, i, st, tgt, root, chain, val in sts:
            def atomize(e, tgt=tgt):
                if canon(e) == canon(tgt):
                    return ("OLD",)
                if e[0] == "arg" and e[2] == "weight":
                    return w
                return None
            pol = to_poly(val, atomize)
            delta = pol - Poly.atom(("OLD",))
            comp = None
            tshow = show(tgt)
            if len(delta.t) == 1:
                (mono, c), = delta.t.items()
                d = dict(mono)
                others = [a for a in d if a != w]
                if c == 1 and d.get(w) == 1 and len(others) == 1 and d[others[0]] == 1:
                    y = others[0]
                    ys = repr(y)
                    # which component: target and source must be the same component of lhs/rhs
                    if chain[-1] in ("0", "1") and "parameters" in tshow and y[0] == "field" and y[2] == chain[-1] and "rhs" in ys and "parameters" in ys:
                        comp = "mean" if chain[-1] == "0" else "variance"
                    elif "msd" in tshow and "rhs" in ys and "msd" in ys:
                        comp = "msd"
            if comp:
                seen.add(comp)
                ctx.ok(RULE, "mul_add_assign: %s <- %s + weight*rhs.%s" % (comp, comp, comp), cm.loc_of(st["span"]))
            else:
                ctx.fail(RULE, ab.path, "store " + tshow[-50:], "store %s = %s is not `x += weight * (same component of rhs)`" % (tshow[-80:], show(val)[:160]), cm.loc_of(st["span"]))
        # closure form: self.parameters.iter_mut().zip(&rhs.parameters).for_each(|(acc, term)| { acc.k += weight * term.k })
        from ..expr import resolve_upvars
        for fbb, ft in ab.calls():
            fc = ft["callee"]
            if fc["k"] != "fndef" or not cm.callee_name(fc).endswith("Iterator::for_each") or len(ft["args"]) != 2:
                continue
            recv = eb.at(fbb).op(ft["args"][0])
            clo = eb.op(ft["args"][1])
            rs = show(recv).replace("std::iter::Iterator::", "")
            if not (recv[0] == "call" and recv[1].endswith("Iterator::zip") and "self.parameters" in show(recv[2][0]) and "rhs.parameters" in show(recv[2][1]) and clo[0] == "agg" and clo[1].startswith("closure:")):
                continue
            if any(k in rs for k in ("skip(", "take(", "filter(", "step_by(", "rev(")):
                continue
            cb = p.bodies.get(clo[1][len("closure:"):])
            if cb is None or paths.guards(ab, fbb, eb):
                continue
            ceb = ExprBuilder(cb)
            for bb, i, st, tgt, root, chain, val in stores(cb, ceb):
                if not (root[0] == "arg" and root[1] == 2 and len(chain) >= 2 and chain[0] == "0" and chain[-1] in ("0", "1")) or paths.guards(cb, bb, ceb):
                    continue
                v2 = resolve_upvars(p, cb, val)

                def atomize2(e, tgt=tgt):
                    if canon(e) == canon(tgt):
                        return ("OLD",)
                    if e[0] == "arg" and e[2] == "weight":
                        return w
                    return None
                delta = to_poly(v2, atomize2) - Poly.atom(("OLD",))
                if len(delta.t) == 1:
                    (mono, c), = delta.t.items()
                    d = dict(mono)
                    others = [a for a in d if a != w]
                    if c == 1 and d.get(w) == 1 and len(others) == 1 and d[others[0]] == 1:
                        y = others[0]
                        # the same component of the paired element: arg2.1.<k>
                        if y[0] == "field" and y[2] == chain[-1] and y[1][0] == "field" and y[1][2] == "1" and y[1][1][0] == "arg":
                            comp = "mean" if chain[-1] == "0" else "variance"
                            seen.add(comp)
                            ctx.ok(RULE, "mul_add_assign: %s <- %s + weight*rhs.%s (for_each over zip(self.parameters, rhs.parameters))" % (comp, comp, comp), cm.loc_of(st["span"]))
        for comp in ("mean", "variance", "msd"):
            if comp not in seen:
                ctx.fail(RULE, ab.path, "component " + comp, "mul_add_assign leaves the %s unweighted / unaccumulated" % comp, ab.loc())
        # the blend is linear in the weight for every weight: nothing in mul / mul_add_assign is
        # decided by the weight (no "skip small / zero / negative weights" shortcut)
        for fb_ in (ab, p.body(MUL)):
            if fb_ is None:
                continue
            feb = ExprBuilder(fb_)
            wl = [l for l in range(1, fb_.argc + 1) if fb_.local_ty(l) == "f64"]
            bad = None
            for bb in range(len(fb_.blocks)):
                if fb_.is_cleanup(bb):
                    continue
                for g in paths.guards(fb_, bb, feb):
                    if g[0] in ("true", "false") and any(x[0] == "arg" and x[1] in wl for x in walk(g[1])):
                        bad = (bb, show(g[1])[:80])
            if bad:
                ctx.fail(RULE, fb_.path, "weight-dependent branch", "%s branches on the weight (`%s`): voices with such weights are not blended linearly" % (fb_.path.split("::")[-1], bad[1]), fb_.loc())
            else:
                ctx.ok(RULE, "%s: no branch depends on the weight" % fb_.path.split("::")[-1], fb_.loc())
        # the pair loop zips the two parameter vectors without skipping
        its = [eb.call(t) for bb, t in ab.calls() if t["callee"]["k"] == "fndef" and cm.callee_name(t["callee"]).endswith("Iterator::zip")]
        if len(its) == 1 and "self.parameters" in show(its[0]) and "rhs.parameters" in show(its[0]) and not [a for a in adaptors(its[0]) if a in BAD_ADAPTORS]:
            ctx.ok(RULE, "mul_add_assign iterates zip(self.parameters, rhs.parameters) without skipping", ab.loc())
        else:
            ctx.fail(RULE, ab.path, "pair loop", "the component loop is not a plain zip of both parameter vectors", ab.loc())



def run(ctx):
    ctx.rule("C10-R1", "sum over all voices: VoiceSet::weighted advances the voice iterator and the weight iterator exactly once each (first term), then zips the rest in the same order; no skipping adaptor; every remaining pair goes through mul_add_assign(weight_i, param_i); the accumulated value is returned")
    ctx.rule("C10-R2", "component coverage: mul yields w*x and mul_add_assign stores x + w*y for each of mean, variance and msd; MeanVari::weighted scales both fields")
    ctx.rule("C10-R3", "which weights feed what: duration uses get_duration with duration_model; stream(i) uses get_parameter(i) with stream_models[i].stream_model; gv(i) uses get_gv(i) with stream_models[i].gv_model; set_X / get_X of InterporationWeight address field X at the given stream index")
    p = cm.program(ctx)

    # ---- R1
    b = cm.body_or_fail(ctx, p, "C10-R1", WEIGHTED)
    if b is not None:
        r1(ctx, p, b)

    # ---- R2
    r2_blend(ctx, p)

    # ---- R3
    want = {
        "model::Models::<'a>::duration": ("get_duration", None, "duration_model"),
        "model::Models::<'a>::stream": ("get_parameter", "stream_index", "stream_model"),
        "model::Models::<'a>::gv": ("get_gv", "stream_index", "gv_model"),
    }
    for fn, (getter, idx, model) in want.items():
        b = cm.body_or_fail(ctx, p, "C10-R3", fn)
        if b is None:
            continue
        eb = ExprBuilder(b)
        # the weights value: result of InterporationWeight::<getter>(self.weights, [stream_index])
        wcalls = [(bb, t) for bb, t in b.calls() if t["callee"]["k"] == "fndef" and cm.callee_name(t["callee"]).startswith("model::interporation_weight::InterporationWeight::get_")]
        okw = len(wcalls) == 1 and cm.callee_name(wcalls[0][1]["callee"]).endswith("::" + getter)
        if okw and idx:
            a = show(eb.at(wcalls[0][0]).op(wcalls[0][1]["args"][1]))
            okw = a == idx
        if okw:
            ctx.ok("C10-R3", "%s reads weights.%s(%s)" % (fn.split("::")[-1], getter, idx or ""), b.loc())
        else:
            ctx.fail("C10-R3", fn, "weight vector", "%s uses %s, expected %s(%s)" % (fn.split("::")[-1], [cm.callee_name(t["callee"]).split("::")[-1] for bb, t in wcalls], getter, idx or ""), b.loc())
        # weighted(weights, closure) calls in the nested closures (or the body): first arg is that value
        wsites = []
        for cb in [b] + p.nested(fn):
            ceb = ExprBuilder(cb)
            for bb, t in cm.local_calls(cb, p, exact=WEIGHTED):
                wsites.append((cb, bb, t, ceb))
        if not wsites:
            ctx.fail("C10-R3", fn, "weighted call", "VoiceSet::weighted is not called", b.loc())
        for cb, bb, t, ceb in wsites:
            a1 = resolve_upvars(p, cb, ceb.at(bb).op(t["args"][1]))
            s1 = show(a1)
            # by value: the weights handed to weighted() are <getter>(self.weights[, stream_index]) itself
            src_ok = s1 == "model::interporation_weight::InterporationWeight::%s(self.weights%s)" % (getter, ", " + idx if idx else "")
            clos = [x for x in walk(ceb.op(t["args"][2])) if x[0] == "agg" and x[1].startswith("closure:")]
            sel_ok = False
            for c in clos:
                sb = p.bodies.get(c[1][len("closure:"):])
                if sb is None:
                    continue
                sret = resolve_upvars(p, sb, ExprBuilder(sb).local(0))
                r = show(sret)
                # the model is a field of the selector closure's own parameter (the voice)
                own = [x for x in walk(sret) if x[0] == "field" and x[2] in ("duration_model", "stream_model", "gv_model")]
                def _root_is_own_param(x):
                    while x[0] in ("field", "idx"):
                        x = x[1]
                    return x[0] == "arg" and not str(x[2] or "").startswith("{closure")
                if model == "duration_model":
                    sel_ok = len(own) == 1 and own[0][2] == model and _root_is_own_param(own[0]) and "stream_models" not in r
                else:
                    sel_ok = len(own) == 1 and own[0][2] == model and _root_is_own_param(own[0]) and (".stream_models[stream_index].%s" % model) in r
                if not sel_ok:
                    ctx.fail("C10-R3", sb.path, "selected model", "%s blends %s, expected the voice's %s%s" % (fn.split("::")[-1], r[:120], "stream_models[stream_index]." if idx else "", model), sb.loc())
            if src_ok and sel_ok:
                ctx.ok("C10-R3", "%s: weighted(%s weights, |voice| voice.%s...)" % (fn.split("::")[-1], getter, model), cm.loc_of(t["span"]))
            elif not src_ok:
                ctx.fail("C10-R3", cb.path, "weights argument", "weighted() receives %s, expected the %s weights" % (s1[:100], getter), cm.loc_of(t["span"]))
    # the three weight vectors are reached through accessors: set_X / get_X must address field X
    from .c19 import accessor_agreement
    accessor_agreement(ctx, p, "C10-R3")
    expl = ("Iterator typestate of the two cursors in VoiceSet::weighted (each advanced once, then zipped in order), exact polynomial "
            "forms of every store in mul/mul_add_assign per component (mean, variance, msd), and callee/field identity of the weight "
            "vector and model selected for duration, stream and GV. The sum is then exactly sum_i w_i x_i for every component; vertex "
            "weights and identical voices follow. None of this code is executed by the passing test suite.")
    return expl, ["rustc MIR"]


def r1(ctx, p, b):
    eb = ExprBuilder(b)
    names = {d.get("name"): l for l, d in enumerate(b.locals) if d.get("name")}
    zips = [(bb, t) for bb, t in b.calls() if t["callee"]["k"] == "fndef" and cm.callee_name(t["callee"]).endswith("Iterator::zip")]
    if len(zips) != 1:
        ctx.fail("C10-R1", b.path, "zip", "expected one zip of the voice and weight iterators, found %d" % len(zips), b.loc())
        return
    zb, zt = zips[0]
    its = []
    for a in zt["args"]:
        l = a["place"]["local"]
        # one move step
        for dbb, didx, ditem in b.defs().get(l, []):
            if didx != "term" and ditem["rv"]["k"] == "use" and ditem["rv"]["op"].get("k") in ("move", "copy") and not ditem["rv"]["op"]["place"]["proj"]:
                l = ditem["rv"]["op"]["place"]["local"]
        its.append(l)
    dom = b.dominators()
    firsts = []
    roles = []
    zipped_first = []
    for pos, l in enumerate(its):
        ds = [d for d in b.defs().get(l, []) if not b.is_cleanup(d[0])]
        if len(ds) != 1:
            ctx.fail("C10-R1", b.path, "iterator %d" % pos, "iterator has %d definitions" % len(ds), b.loc())
            return
        ce = eb.at(ds[0][0], ds[0][1]).call(ds[0][2]) if ds[0][1] == "term" else eb.rvalue(ds[0][2]["rv"])
        ad = adaptors(ce)
        bad = [a for a in ad if a in BAD_ADAPTORS]
        s = show(ce)
        role = "voices" if ("self" in s and "param" in s and "map" in ad) else ("weights" if "weights" in s else "?")
        roles.append(role)
        if bad or role == "?":
            ctx.fail("C10-R1", b.path, "iterator %d creation" % pos, "iterator is %s (adaptors %s): voices or weights may be skipped" % (s[:120], bad), b.loc())
            continue
        # uses: exactly one `next` through &mut, then the move into zip
        nexts = []
        other = []
        for ubb, ui, item in b.uses(l):
            if ui != "term" and item["rv"]["k"] == "ref" and item["rv"]["mut"]:
                rl = item["place"]["local"]
                for u2bb, u2i, it2 in b.uses(rl):
                    if u2i == "term" and it2["k"] == "call" and cm.callee_name(it2["callee"]).endswith("Iterator>::next"):
                        nexts.append((u2bb, it2))
                    else:
                        other.append(it2)
            elif ui != "term" and item["rv"]["k"] == "use":
                pass  # the move into zip's argument temp
            elif ui == "term" and item is zt:
                pass  # handed to zip directly
            else:
                other.append(item)
        if len(nexts) == 1 and not other and nexts[0][0] in dom.get(zb, ()):
            ctx.ok("C10-R1", "%s iterator: created without skipping, advanced exactly once, then zipped" % role, b.loc())
            firsts.append((role, nexts[0][1]["dest"]["local"]))
        elif not nexts and not other:
            # zipped first, advanced afterwards: judged on the zip iterator below
            zipped_first.append(role)
        else:
            ctx.fail("C10-R1", b.path, "%s iterator typestate" % role, "the %s iterator is advanced %d times before the zip (other uses: %d): the first or a later voice/weight is dropped or reused" % (role, len(nexts), len(other)), b.loc())
    if roles != ["voices", "weights"] and roles != ["weights", "voices"]:
        ctx.fail("C10-R1", b.path, "zip roles", "zip does not pair the voice iterator with the weight iterator: %s" % roles, b.loc())
        return
    zmode = False
    if zipped_first:
        # `let mut z = voices.zip(weights); let (p0, w0) = z.next().unwrap(); for (p, w) in z { .. }`:
        # the pair iterator is advanced exactly once before the loop takes the rest
        zl = zt["dest"]["local"]
        n_ = 0
        while n_ < 4:
            n_ += 1
            mv = [item["place"]["local"] for ubb, ui, item in b.uses(zl) if ui != "term" and item["rv"]["k"] == "use" and item["rv"]["op"].get("k") == "move" and not item["rv"]["op"]["place"]["proj"] and b.local_name(item["place"]["local"])]
            if len(mv) == 1 and not b.local_name(zl):
                zl = mv[0]
            else:
                break
        znext, zother = [], []
        for ubb, ui, item in b.uses(zl):
            if ui != "term" and item["rv"]["k"] == "ref" and item["rv"]["mut"]:
                rl_ = item["place"]["local"]
                for u2bb, u2i, it2 in b.uses(rl_):
                    if u2i == "term" and it2["k"] == "call" and cm.callee_name(it2["callee"]).endswith("Iterator>::next"):
                        znext.append((u2bb, it2))
                    else:
                        zother.append(it2)
            elif ui != "term" and item["rv"]["k"] == "use":
                pass
            elif ui == "term" and item["k"] == "call" and cm.callee_name(item["callee"]).endswith("into_iter"):
                pass
            else:
                zother.append(item)
        lps = b.natural_loops()
        if len(zipped_first) == 2 and len(znext) == 1 and not zother and len(lps) == 1 and znext[0][0] not in lps[0][1] and znext[0][0] in dom.get(lps[0][0], ()):
            zmode = True
            ctx.ok("C10-R1", "voices and weights are zipped without skipping; the pair iterator is advanced exactly once (first term) before the loop takes the rest", b.loc())
        else:
            ctx.fail("C10-R1", b.path, "pair iterator typestate", "the zipped (voice, weight) iterator is advanced %d times outside the loop (other uses: %d): the first or a later voice/weight is dropped or reused" % (len(znext), len(zother)), b.loc())
            return
    # first term
    muls = cm.local_calls(b, p, exact=MUL)
    if len(muls) != 1:
        ctx.fail("C10-R1", b.path, "first term", "expected one ModelParameter::mul call, found %d" % len(muls), b.loc())
    else:
        mbb, mt = muls[0]
        a0 = show(eb.at(mbb).op(mt["args"][0]))
        a1 = show(eb.op(mt["args"][1]))
        pidx_, widx_ = roles.index("voices"), roles.index("weights")
        if zmode and "unwrap(" in a0 and "Zip<A, B>" in a0 and a0.endswith(".%d" % pidx_) and "unwrap(" in a1 and "Zip<A, B>" in a1 and a1.endswith(".%d" % widx_):
            ctx.ok("C10-R1", "first term = mul(first pair's parameter, first pair's weight)", cm.loc_of(mt["span"]))
        elif "unwrap(" in a0 and "Map<I, F>" in a0 and "unwrap(" in a1 and "next(" in a1 and "weights" in a1:
            ctx.ok("C10-R1", "first term = mul(first voice's parameter, first weight)", cm.loc_of(mt["span"]))
        else:
            ctx.fail("C10-R1", b.path, "first term", "first term is mul(%s, %s)" % (a0[:80], a1[:80]), cm.loc_of(mt["span"]))
    # loop body
    maas = cm.local_calls(b, p, exact=MAA)
    loops = b.natural_loops()
    if not maas and not loops:
        # fold form: voices.zip(weights).fold(first.mul(w0), |mut acc, (p, w)| { acc.mul_add_assign(w, p); acc })
        folds = [(bb, t) for bb, t in b.calls() if t["callee"]["k"] == "fndef" and (cm.callee_name(t["callee"]).endswith("Iterator::fold") or cm.callee_name(t["callee"]).endswith("Iterator>::fold")) and len(t["args"]) == 3]
        okf = False
        if len(folds) == 1 and len(muls) == 1:
            fbb, ft = folds[0]
            recv_ = eb.at(fbb).op(ft["args"][0])
            init_ = eb.op(ft["args"][1])
            clo_ = eb.op(ft["args"][2])
            cb_ = p.bodies.get(clo_[1][len("closure:"):]) if clo_[0] == "agg" and clo_[1].startswith("closure:") else None
            widx = roles.index("weights")
            pidx = roles.index("voices")
            if cb_ is not None and recv_[0] == "call" and recv_[1].endswith("Iterator::zip") and init_[0] == "call" and init_[1] == MUL and ft["dest"]["local"] == 0 or \
                    (cb_ is not None and recv_[0] == "call" and recv_[1].endswith("Iterator::zip") and init_[0] == "call" and init_[1] == MUL and "Iterator>::fold(" in show(eb.at(None).local(0))[:80] or show(eb.at(None).local(0)).startswith("std::iter::Iterator::fold(")):
                ceb_ = ExprBuilder(cb_)
                cm_ = cm.local_calls(cb_, p, exact=MAA)
                if len(cm_) == 1 and not cb_.natural_loops():
                    cbb_, ct_ = cm_[0]
                    r_ = ceb_.at(cbb_).op(ct_["args"][0])
                    w_ = ceb_.op(ct_["args"][1])
                    p_ = ceb_.op(ct_["args"][2])
                    uncond = not [g for g in paths.guards(cb_, cbb_, ceb_) if g[0] in ("true", "false", "some", "none", "ok", "err")]
                    ret_ = ceb_.at(None).local(0)
                    if r_[0] == "arg" and r_[1] == 2 and show(w_) == "arg3.%d" % widx and show(p_) == "arg3.%d" % pidx and uncond and ret_[0] == "arg" and ret_[1] == 2:
                        okf = True
        if okf:
            ctx.ok("C10-R1", "every remaining (param_i, weight_i) pair: acc.mul_add_assign(weight_i, param_i) in a fold started by mul(first, w0), unconditionally; the fold's value is returned", b.loc())
        else:
            ctx.fail("C10-R1", b.path, "accumulation", "expected one mul_add_assign call inside the single loop (or the equivalent fold)", b.loc())
        return
    if len(maas) != 1 or len(loops) != 1 or maas[0][0] not in loops[0][1]:
        ctx.fail("C10-R1", b.path, "accumulation", "expected one mul_add_assign call inside the single loop", b.loc())
        return
    abb, at = maas[0]
    eb.at(abb)
    recv = eb.op(at["args"][0])
    wt = eb.op(at["args"][1])
    pr = eb.op(at["args"][2])
    widx = roles.index("weights")
    pidx = roles.index("voices")
    okw = wt[0] == "field" and wt[2] == str(widx) and "Zip" in show(wt)
    okp = pr[0] == "field" and pr[2] == str(pidx) and "Zip" in show(pr)
    # the loop visits every remaining item: the body is entered on every Some(..) of the zip iterator
    gs = paths.guards(b, abb, eb)
    every = any(g[0] == "some" and "Zip" in show(g[1]) for g in gs) and len([g for g in gs if g[0] in ("true", "false")]) == 0
    if okw and okp and every:
        ctx.ok("C10-R1", "every remaining (param_i, weight_i) pair: result.mul_add_assign(weight_i, param_i), unconditionally", cm.loc_of(at["span"]))
    else:
        ctx.fail("C10-R1", b.path, "loop body", "the accumulation is mul_add_assign(%s, %s) %s" % (show(wt)[-60:], show(pr)[-60:], "under an extra condition" if not every else ""), cm.loc_of(at["span"]))
    ret = eb.at(None).local(0)
    rl = [x for x in eb.expand_all(ret) if x[0] == "call" and x[1] == MUL]
    if rl and (recv[0] == "var" or (recv[0] == "call" and recv[1] == MUL)):
        ctx.ok("C10-R1", "the accumulated value (started by mul, updated by mul_add_assign) is returned", b.loc())
    else:
        ctx.fail("C10-R1", b.path, "return value", "weighted() does not return the accumulated value", b.loc())
