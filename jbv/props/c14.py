"""C14 - The postfilter sharpens formants and preserves energy (structural clauses)."""
from fractions import Fraction

from ..expr import ExprBuilder, show, walk, root_of, stores, to_poly, Poly, canon, mut_arg_calls, origin_calls
from ..flow import condition_flow
from .. import paths
from . import common as cm
from . import c14_energy

PF = "vocoder::cepstrum::MelCepstrum::postfilter_mcp"
PFL = "vocoder::lsp::LineSpectralPairs::postfilter_lsp"


def noop_guards(ctx, p, fn):
    """R1: every store through self / mutable use of self is under beta > 0 and len > 2"""
    b = cm.body_or_fail(ctx, p, "C14-R1", fn)
    if b is None:
        return
    eb = ExprBuilder(b)
    effects = []
    for bb, i, st, tgt, root, chain, val in stores(b, eb):
        if root[0] == "arg" and root[1] == 1:
            effects.append((bb, st["span"], "store " + show(tgt)[:40]))
    for bb, i, st in b.iter_stmts():
        if st["k"] == "assign" and st["place"]["local"] == 1 and [e["k"] for e in st["place"]["proj"]] == ["deref"]:
            effects.append((bb, st["span"], "store *self"))
    for cbb, t, cname, k, ref in mut_arg_calls(b, eb):
        r, ch = root_of(ref)
        if r[0] == "arg" and r[1] == 1:
            effects.append((cbb, t["span"], "call " + cname.split("::")[-1]))
    if not effects:
        ctx.fail("C14-R1", fn, "effects", "no effect found at all (the postfilter does nothing?)", b.loc())
        return
    bad = 0
    over = []
    for bb, span, what in effects:
        gs = paths.guards(b, bb, eb)
        g_beta = g_len = False
        for g in gs:
            if g[0] in ("true", "false"):
                pos, c = paths.bool_atoms(g)
                if c[0] == "bin":
                    l, r = c[2], c[3]
                    if show(l) == "beta" and r[0] == "c" and float(r[1]) == 0.0 and ((c[1] == "Gt" and pos) or (c[1] == "Le" and not pos)):
                        g_beta = True
                    # `len cmp k`, or the same on the order m = len - 1 (`len.saturating_sub(1) cmp k`)
                    off = 0
                    if l[0] == "call" and l[1].endswith("saturating_sub") and l[2][1][0] == "c":
                        l, off = l[2][0], l[2][1][1]
                    elif l[0] == "bin" and l[1] == "Sub" and l[3][0] == "c":
                        l, off = l[2], l[3][1]
                    if l[0] == "len" and show(l[1]) == "self" and r[0] == "c":
                        k = r[1] + off
                        if (c[1] == "Gt" and pos and k >= 2) or (c[1] == "Ge" and pos and k >= 3) or (c[1] == "Le" and not pos and k >= 2) or (c[1] == "Lt" and not pos and k >= 3):
                            g_len = True
                            # ... and not more than that: three coefficients (c0, c1, c2) are already
                            # postfiltered, so the threshold is exactly len > 2
                            exact = (c[1] in ("Gt", "Le") and k == 2) or (c[1] in ("Ge", "Lt") and k == 3)
                            if not exact:
                                over.append((span, what, show(c)))
        if not (g_beta and g_len):
            bad += 1
            ctx.fail("C14-R1", fn, what, "`%s` is not under both `beta > 0` and `len > 2`: beta = 0 (or order 2) would change the coefficients" % what, cm.loc_of(span))
    if not bad:
        ctx.ok("C14-R1", "%s: all %d effects on self are under beta > 0 and len > 2 (no-op otherwise)" % (fn.split("::")[-1], len(effects)), b.loc())
    if over:
        span, what, cond = over[0]
        ctx.fail("C14-R1", fn, "length threshold", "the postfilter is skipped for more than the two-coefficient case: `%s` (expected exactly len > 2); a three-coefficient spectrum with beta > 0 would be left unsharpened" % cond, cm.loc_of(span))
    elif not bad:
        ctx.ok("C14-R1", "%s: the length threshold is exactly len > 2" % fn.split("::")[-1], b.loc())


def run(ctx):
    ctx.rule("C14-R1", "no-op: postfilter_mcp / postfilter_lsp store nothing when beta <= 0 or len <= 2")
    ctx.rule("C14-R2", "coefficient updates in normal form: b1 <- b1 - beta*alpha*b2; b_k <- (1+beta)*b_k for k from constant 2; b0 <- b0 + ln(e1/e2)/2 with e1/e2 = b2en before/after; conversion mc2b/b2mc with c_i = b_i + alpha*b_{i+1}; implied: c1 unchanged, c_k scaled by 1+beta")
    ctx.rule("C14-R3", "plumbing: condition.beta -> the Vocoder::new parameter stored in field beta -> argument of postfilter_mcp / postfilter_lsp; beta reaches nothing but the vocoder")
    p = cm.program(ctx)
    cg = cm.callgraph(p)
    c14_energy.check(ctx, p)
    noop_guards(ctx, p, PF)
    noop_guards(ctx, p, PFL)

    # ---- R2
    b = p.body(PF)
    if b is not None:
        eb = ExprBuilder(b)
        # the working buffer, by role: the variable that receives self.mc2b()
        cl = None
        for bb_, t_ in cm.local_calls(b, p, exact="vocoder::cepstrum::CepstrumT::mc2b"):
            cl = t_["dest"]["local"]
            for _ in range(4):
                nxt = None
                for l2 in b.defs():
                    for d2 in b.defs().get(l2, []):
                        if d2[1] != "term" and d2[2]["rv"]["k"] == "use" and d2[2]["rv"]["op"].get("k") in ("move", "copy") and d2[2]["rv"]["op"]["place"]["local"] == cl and not d2[2]["rv"]["op"]["place"]["proj"]:
                            nxt = l2
                if nxt is None or b.local_name(cl):
                    break
                cl = nxt
        # coefficients = mc2b(self)
        ds = [d for d in b.defs().get(cl, []) if not b.is_cleanup(d[0])] if cl is not None else []
        if len(ds) == 1 and ds[0][1] == "term" and show(eb.call(ds[0][2])) == "vocoder::cepstrum::CepstrumT::mc2b(self)":
            ctx.ok("C14-R2", "coefficients = self.mc2b()", b.loc())
        else:
            ctx.fail("C14-R2", PF, "mc2b", "the working coefficients are not self.mc2b()", b.loc())
        beta = Poly.atom(("arg", "beta"))
        alpha = Poly.atom(canon(("field", ("arg", 1, "self"), "alpha")))
        seen = {}
        e_calls = cm.local_calls(b, p, exact="vocoder::coefficients::CoefficientsT::b2en")
        dom = b.dominators()
        coeff_stores = []
        for bb, i, st, tgt, root, chain, val in stores(b, eb):
            # element-wise form: for b in coefficients.iter_mut().skip(2) { *b = f(*b) }
            if tgt[0] == "field" and tgt[2] == "0" and tgt[1][0] == "variant" and tgt[1][1][0] == "call" and tgt[1][1][1] == "<std::iter::Skip<I> as std::iter::Iterator>::next":
                sk = tgt[1][1][2][0]
                if sk[0] == "call" and sk[1].endswith("Iterator::skip") and "mc2b(self)" in show(sk[2][0]):
                    pol = to_poly(val, lambda e, tgt=tgt: ("OLD",) if e == tgt else None)
                    coeff_stores.append((bb, ("skip",)))
                    seen["_bk_bb"] = bb
                    if sk[2][1][0] == "c" and sk[2][1][1] == 2 and pol == Poly.atom(("OLD",)) * (Poly.const(1) + beta):
                        seen["bk"] = True
                        ctx.ok("C14-R2", "b_k <- (1+beta)*b_k for every element after the first two (iter_mut().skip(2))", cm.loc_of(st["span"]))
                    else:
                        ctx.fail("C14-R2", PF, "b_k update", "element-wise update %s over skip(%s), expected (1+beta)*b_k over skip(2)" % (pol, show(sk[2][1])), cm.loc_of(st["span"]))
                    continue
            # element-wise form over a suffix slice: for b in coefficients[2..].iter_mut() { *b = f(*b) }
            if tgt[0] == "field" and tgt[2] == "0" and tgt[1][0] == "variant" and tgt[1][1][0] == "call" and "IterMut" in tgt[1][1][1] and tgt[1][1][1].endswith("::next"):
                sl = tgt[1][1][2][0]
                if sl[0] == "idx" and "mc2b(self)" in show(sl[1]) and sl[2][0] == "agg" and sl[2][1].endswith("RangeFrom::RangeFrom"):
                    pol = to_poly(val, lambda e, tgt=tgt: ("OLD",) if e == tgt else None)
                    coeff_stores.append((bb, ("skip",)))
                    seen["_bk_bb"] = bb
                    st0 = sl[2][2][0]
                    if st0[0] == "c" and st0[1] == 2 and pol == Poly.atom(("OLD",)) * (Poly.const(1) + beta):
                        seen["bk"] = True
                        ctx.ok("C14-R2", "b_k <- (1+beta)*b_k for every element after the first two (coefficients[2..].iter_mut())", cm.loc_of(st["span"]))
                    else:
                        ctx.fail("C14-R2", PF, "b_k update", "element-wise update %s over [%s..], expected (1+beta)*b_k over [2..]" % (pol, show(st0)), cm.loc_of(st["span"]))
                    continue
            if not (root[0] in ("var", "call") and chain == ["[]"]):
                continue
            idx = tgt[2]

            def atomize(e, tgt=tgt):
                if canon(e) == canon(tgt):
                    return ("OLD",)
                if e[0] == "idx" and canon(e[1]) == canon(tgt[1]) and e[2][0] == "c":
                    return ("B", e[2][1])
                return None
            pol = to_poly(val, atomize)
            old = Poly.atom(("OLD",))
            coeff_stores.append((bb, idx))
            if idx[0] == "c" and idx[1] == 1:
                want = old - beta * alpha * Poly.atom(("B", 2))
                seen["_b1_bb"] = bb
                if pol == want:
                    seen["b1"] = True
                    ctx.ok("C14-R2", "b1 <- b1 - beta*alpha*b2", cm.loc_of(st["span"]))
                else:
                    ctx.fail("C14-R2", PF, "b1 update", "b1 <- %s, expected b1 - beta*alpha*b2" % pol, cm.loc_of(st["span"]))
            elif idx[0] == "c" and idx[1] == 0:
                d = pol - old
                good = False
                if len(d.t) == 1:
                    (mono, c), = d.t.items()
                    if c == Fraction(1, 2) and len(mono) == 1 and mono[0][0][0] == "call" and mono[0][0][1] == "f64::ln":
                        # argument e1/e2
                        for x in walk(val):
                            if x[0] == "call" and x[1] == "f64::ln":
                                q = x[2][0]
                                if q[0] == "bin" and q[1] == "Div":
                                    n, dn = q[2], q[3]
                                    if "b2en" in show(n) and "b2en" in show(dn):
                                        good = True
                                        seen["_ratio"] = (n, dn)
                if good:
                    seen["b0"] = True
                    ctx.ok("C14-R2", "b0 <- b0 + ln(e1/e2)/2", cm.loc_of(st["span"]))
                else:
                    ctx.fail("C14-R2", PF, "b0 update", "b0 <- %s, expected b0 + ln(e1/e2)/2" % show(val)[:120], cm.loc_of(st["span"]))
                seen["_b0_bb"] = bb
            else:
                # loop variable from the range starting at constant 2
                from ..ledger import _range_loop_var
                r = _range_loop_var(b, eb, idx)
                want = old * (Poly.const(1) + beta)
                seen["_bk_bb"] = bb
                # the range end as a polynomial in len(self): `2..len`, `2..=len-1`, `2..m+1` with
                # m = len.saturating_sub(1) (exact under the len > 2 guard of R1)
                from ..loops import rewrite
                end_ok = False
                if r:
                    desat = rewrite(r[1], lambda n: ("bin", "Sub", n[2][0], n[2][1]) if n[0] == "call" and n[1].endswith("saturating_sub") and len(n[2]) == 2 else None)
                    ep = to_poly(desat, lambda e: ("LEN",) if e[0] == "len" and show(e[1]) == "self" else None)
                    if r[2]:
                        ep = ep + Poly.const(1)
                    end_ok = ep == Poly.atom(("LEN",))
                if r and r[0][0] == "c" and r[0][1] == 2 and end_ok and pol == want:
                    seen["bk"] = True
                    ctx.ok("C14-R2", "b_k <- (1+beta)*b_k for k in 2..len", cm.loc_of(st["span"]))
                else:
                    ctx.fail("C14-R2", PF, "b_k update", "b[%s] <- %s over range %s, expected (1+beta)*b_k for k in 2..len" % (show(idx)[-20:], pol, [show(x) for x in r[:2]] if r else None), cm.loc_of(st["span"]))
        # closure form: coefficients.iter_mut().skip(2).for_each(|b| *b *= 1 + beta)
        from ..expr import resolve_upvars
        for fbb, ft in b.calls():
            fc = ft["callee"]
            if fc["k"] != "fndef" or not cm.callee_name(fc).endswith("Iterator::for_each") or len(ft["args"]) != 2:
                continue
            sk = eb.at(fbb).op(ft["args"][0])
            clo = eb.op(ft["args"][1])
            if not (sk[0] == "call" and sk[1].endswith("Iterator::skip") and "mc2b(self)" in show(sk[2][0]) and clo[0] == "agg" and clo[1].startswith("closure:")):
                continue
            cb = p.bodies.get(clo[1][len("closure:"):])
            if cb is None:
                continue
            ceb = ExprBuilder(cb)
            csts = [x for x in stores(cb, ceb) if x[4][0] == "arg" and x[4][1] == 2]
            for cbb, ci, cst, ctgt, croot, cchain, cval in csts:
                cval = resolve_upvars(p, cb, cval)
                pol = to_poly(cval, lambda e, ctgt=ctgt: ("OLD",) if canon(e) == canon(ctgt) else None)
                coeff_stores.append((fbb, ("skip",)))
                seen["_bk_bb"] = fbb
                if len(csts) == 1 and sk[2][1][0] == "c" and sk[2][1][1] == 2 and pol == Poly.atom(("OLD",)) * (Poly.const(1) + beta):
                    seen["bk"] = True
                    ctx.ok("C14-R2", "b_k <- (1+beta)*b_k for every element after the first two (iter_mut().skip(2).for_each)", cm.loc_of(cst["span"]))
                else:
                    ctx.fail("C14-R2", PF, "b_k update", "element-wise update %s over skip(%s), expected (1+beta)*b_k over skip(2)" % (pol, show(sk[2][1])), cm.loc_of(cst["span"]))
        if "_b1_bb" in seen and "_bk_bb" in seen:
            b1b, bkb = seen["_b1_bb"], seen["_bk_bb"]
            if b1b != bkb and b.can_reach(b1b, bkb) and not b.can_reach(bkb, b1b):
                ctx.ok("C14-R2", "b1 is compensated with the unscaled b2 (the b1 update precedes the scaling of b_k, k >= 2): c1 = b1 + alpha*b2 is unchanged", b.loc())
            else:
                ctx.fail("C14-R2", PF, "b1 after scaling", "the b1 update does not precede the scaling of b2..: it reads an already scaled b2, so order 1 of the cepstrum changes by -alpha*beta^2*b2", b.loc())
        for k in ("b1", "bk", "b0"):
            if k not in seen:
                ctx.fail("C14-R2", PF, "missing " + k, "the %s update was not found" % k, b.loc())
        # e1 before all updates, e2 after b1/bk and before b0; ratio = e1 / e2
        if len(e_calls) == 2:
            (xb, xt), (yb, yt) = e_calls
            if xb in dom.get(yb, ()) and xb != yb:
                (e1b, e1t), (e2b, e2t) = (xb, xt), (yb, yt)
            elif yb in dom.get(xb, ()) and xb != yb:
                (e1b, e1t), (e2b, e2t) = (yb, yt), (xb, xt)
            else:
                e1b = None
            if e1b is None:
                ctx.fail("C14-R2", PF, "energy order", "the two energy measurements are not ordered by dominance", b.loc())
            else:
                b0bb = seen.get("_b0_bb")
                shape = [sb for sb, _ in coeff_stores if sb != b0bb]
                before = all(e1b in dom.get(sb, ()) and sb != e1b for sb in shape)
                after = all(sb == e2b or (b.can_reach(sb, e2b) and not b.can_reach(e2b, sb)) for sb in shape)  # same block: a store precedes the terminator call
                b0_after = b0bb is not None and e2b in dom.get(b0bb, ())
                args_ok = all(show(eb.at(bb_).op(t_["args"][1])) == "self.alpha" for bb_, t_ in e_calls)
                ratio_ok = False
                for bb2, i2, st2, tgt2, root2, chain2, val2 in stores(b, ExprBuilder(b)):
                    if chain2 == ["[]"] and tgt2[2][0] == "c" and tgt2[2][1] == 0:
                        # find the Div feeding ln
                        isb2en = lambda nm: nm.endswith("CoefficientsT::b2en")
                        for dbb, di, dst in b.iter_stmts():
                            if dst["k"] == "assign" and dst["rv"]["k"] == "binop" and dst["rv"]["op"] == "Div":
                                na = origin_calls(b, dst["rv"]["a"], isb2en)
                                da = origin_calls(b, dst["rv"]["b"], isb2en)
                                if len(na) == 1 and len(da) == 1 and na[0][0] == e1b and da[0][0] == e2b:
                                    ratio_ok = True
                if before and after and b0_after and args_ok and ratio_ok:
                    ctx.ok("C14-R2", "e1 = b2en(alpha) before the shape updates, e2 = b2en(alpha) after them and before the b0 update; the logarithm is of e1/e2", b.loc())
                else:
                    ctx.fail("C14-R2", PF, "energy order", "energy compensation is wrong: e1-before-updates=%s, e2-after-updates=%s, b0-after-e2=%s, alpha-args=%s, ratio-is-e1/e2=%s" % (before, after, b0_after, args_ok, ratio_ok), b.loc())
        else:
            ctx.fail("C14-R2", PF, "energy calls", "expected two b2en calls, found %d" % len(e_calls), b.loc())
        # *self = coefficients.b2mc(self.alpha)
        okw = False
        for bb, i, st in b.iter_stmts():
            if st["k"] == "assign" and st["place"]["local"] == 1 and [e["k"] for e in st["place"]["proj"]] == ["deref"]:
                v = eb.at(bb, i).rvalue(st["rv"])
                if v[0] == "call" and v[1] == "vocoder::coefficients::CoefficientsT::b2mc" and show(v[2][1]) == "self.alpha" and "mc2b(self)" in show(v[2][0]):
                    okw = True
        if okw:
            ctx.ok("C14-R2", "*self = coefficients.b2mc(self.alpha)", b.loc())
        else:
            ctx.fail("C14-R2", PF, "write back", "the result is not written back as coefficients.b2mc(self.alpha)", b.loc())
    # recurrences
    rec = {}
    for fn, sign, key in (("vocoder::coefficients::CoefficientsT::b2mc", 1, "b2mc"), ("vocoder::cepstrum::CepstrumT::mc2b", -1, "mc2b")):
        rb = cm.body_or_fail(ctx, p, "C14-R2", fn)
        if rb is None:
            continue
        reb = ExprBuilder(rb)
        good_last = good_rec = False
        range_bad = False
        for bb, i, st, tgt, root, chain, val in stores(rb, reb):
            # out.iter_mut().zip(self.windows(2)): element i of the output with the pair (in[i], in[i+1])
            if key == "b2mc" and tgt[0] == "field" and tgt[2] == "0" and tgt[1][0] == "field" and tgt[1][2] == "0" and tgt[1][1][0] == "variant" \
                    and tgt[1][1][1][0] == "call" and "Zip" in tgt[1][1][1][1] and tgt[1][1][1][1].endswith("::next"):
                item = tgt[1]
                z = tgt[1][1][1][2][0]
                if z[0] == "call" and z[1].endswith("Iterator::zip") and len(z[2]) == 2:
                    a0, a1 = z[2]
                    while a0[0] == "call" and len(a0[2]) == 1 and a0[1].rsplit("::", 1)[-1] in ("iter_mut", "into_iter", "deref_mut"):
                        a0 = a0[2][0]
                    okw = a1[0] == "call" and a1[1].endswith("<impl [T]>::windows") and len(a1[2]) == 2 and show(a1[2][0]) == "self" and a1[2][1][0] == "c" and a1[2][1][1] == 2 \
                        and a0[0] == "call" and a0[1].rsplit("::", 1)[-1] == "to_cep"

                    def at2(e, item=item):
                        if e[0] == "idx" and e[1] == ("field", item, "1") and e[2][0] == "c":
                            return ("SELF", int(e[2][1]))
                        if e[0] == "arg" and e[2] == "alpha":
                            return ("ALPHA",)
                        return None
                    pol2 = to_poly(val, at2)
                    if okw and pol2 == Poly.atom(("SELF", 0)) + Poly.atom(("ALPHA",)) * Poly.atom(("SELF", 1)):
                        good_rec = True
                continue
            if chain != ["[]"]:
                continue
            idx = tgt[2]
            vs = show(val)
            _len = lambda e: ("LEN",) if e[0] == "len" and show(e[1]) == "self" else None
            if "last" in show(idx) or (idx[0] == "bin"):
                if val[0] == "idx" and canon(val[2]) == canon(idx) and show(val[1]) == "self":
                    # ... and `last` is the last element
                    if to_poly(idx, _len) == Poly.atom(("LEN",)) - Poly.const(1):
                        good_last = True
                    else:
                        ctx.fail("C14-R2", fn, "last element", "%s copies element %s, expected the last one (len - 1)" % (key, show(idx)[:60]), cm.loc_of(st["span"]))
                    continue
            # the recurrence covers every element below the last: i runs over 0 .. len - 1
            from ..loops import loop_var_parts as _lvp
            lv_ = _lvp(idx)
            if lv_ is not None:
                d_, s_, e_ = lv_
                if not (to_poly(s_, _len) == Poly.const(0) and to_poly(e_, _len) == Poly.atom(("LEN",)) - Poly.const(1)):
                    ctx.fail("C14-R2", fn, "recurrence range", "%s computes elements %s..%s only, expected 0..len-1 (every element below the last)" % (key, show(s_)[:30], show(e_)[:40]), cm.loc_of(st["span"]))
                    range_bad = True
            # recurrence: out[i] = self[i] +/- alpha * X[i+1]
            def atomize(e, idx=idx, tgt=tgt):
                if e[0] == "idx":
                    d = to_poly(e[2]) - to_poly(idx)
                    base = "SELF" if show(e[1]) == "self" else ("OUT" if canon(e[1]) == canon(tgt[1]) else None)
                    if base and d.is_const():
                        return (base, int(d.const_value()))
                if e[0] == "arg" and e[2] == "alpha":
                    return ("ALPHA",)
                if e[0] == "call" and e[1].endswith("CepstrumT::alpha"):
                    return ("ALPHA",)
                return None
            pol = to_poly(val, atomize)
            a = Poly.atom(("ALPHA",))
            if key == "b2mc" and pol == Poly.atom(("SELF", 0)) + a * Poly.atom(("SELF", 1)):
                good_rec = True
            if key == "mc2b" and pol == Poly.atom(("SELF", 0)) - a * Poly.atom(("OUT", 1)):
                good_rec = True
        # every element is defined for every alpha: a store skipped under a condition leaves the
        # initial buffer, which is the right value only if that buffer is a copy of the input
        # (mc2b starts from to_coef = a copy; b2mc starts from to_cep = zeros)
        guarded = []
        for bb, i, st, tgt, root, chain, val in stores(rb, reb):
            gs = [g for g in paths.guards(rb, bb, reb) if g[0] in ("true", "false")]
            if gs:
                guarded.append((show(paths.bool_atoms(gs[0])[1])[:60], cm.loc_of(st["span"])))
        if guarded:
            base = reb.local(0)
            if base[0] == "var" and isinstance(base[1], int):
                # an early `return buffer` next to the final one: the same buffer on every path
                ds_ = reb.def_exprs_deep(base[1])
                if ds_ and len({canon(d_) for d_ in ds_}) == 1:
                    base = ds_[0]
            copy_ok = False
            if base[0] == "call" and base[1].rsplit("::", 1)[-1] in ("to_coef", "to_cep"):
                meth = base[1].rsplit("::", 1)[-1]
                impls = [b2 for pth, b2 in p.bodies.items() if pth.endswith(">::" + meth)]
                def is_copy(b2):
                    r = ExprBuilder(b2).local(0)
                    txt = show(r)
                    if r[0] == "call" and r[1].endswith("::new") and show(r[2][0]) == "self":
                        nb = p.body(r[1])
                        txt = show(ExprBuilder(nb).local(0)) if nb is not None else txt
                    return "to_vec(" in txt and "from_elem" not in txt
                copy_ok = bool(impls) and all(is_copy(b2) for b2 in impls)
            if not copy_ok:
                ctx.fail("C14-R2", fn, "conditional conversion", "%s writes its result only under `%s`, and the buffer it starts from is not a copy of the input: otherwise the result is that initial buffer (zeros)" % (key, guarded[0][0]), guarded[0][1])
                good_rec = False
        if range_bad:
            good_rec = False
        if good_rec and good_last:
            rec[key] = True
            ctx.ok("C14-R2", "%s: out[last] = in[last]; out[i] = in[i] %s alpha*%s[i+1]" % (key, "+" if sign > 0 else "-", "in" if key == "b2mc" else "out"), rb.loc())
        else:
            ctx.fail("C14-R2", fn, "recurrence", "%s is not the standard recurrence (last=%s, rec=%s)" % (key, good_last, good_rec), rb.loc())
    if rec.get("b2mc") and {"b1", "bk"} <= set(k for k in ("b1", "bk") if True):
        # algebraic consequence, computed by the checker
        B = lambda k: Poly.atom(("b", k))
        be, al = Poly.atom(("beta",)), Poly.atom(("alpha",))
        b1n = B(1) - be * al * B(2)
        bkn = lambda k: B(k) * (Poly.const(1) + be)
        c1_old = B(1) + al * B(2)
        c1_new = b1n + al * bkn(2)
        c2_old = B(2) + al * B(3)
        c2_new = bkn(2) + al * bkn(3)
        if c1_new == c1_old and c2_new == c2_old * (Poly.const(1) + be):
            ctx.ok("C14-R2", "identity (checker algebra): with c_i = b_i + alpha*b_{i+1}, the updates give c1' = c1 and c_k' = (1+beta)*c_k for k >= 2")
        else:
            ctx.fail("C14-R2", PF, "identity", "the update forms do not imply c1 unchanged / c_k scaled")

    # ---- R3
    vn = cm.body_or_fail(ctx, p, "C14-R3", "vocoder::Vocoder::new")
    bp = None
    if vn is not None:
        ret = ExprBuilder(vn).local(0)
        if ret[0] == "agg" and "beta" in ret[3]:
            v = ret[2][ret[3].index("beta")]
            if v[0] == "arg":
                bp = v[1]
                ctx.ok("C14-R3", "Vocoder::new stores parameter #%d (%s) in field beta" % (v[1], v[2]), vn.loc())
            else:
                ctx.fail("C14-R3", vn.path, "field beta", "Vocoder::beta is initialised with %s" % show(v), vn.loc())
    g = p.body("engine::Engine::generator")
    if g is not None and bp is not None:
        eb = ExprBuilder(g)
        for bb, t in cm.local_calls(g, p, exact="vocoder::Vocoder::new"):
            a = show(eb.at(bb).op(t["args"][bp - 1]))
            if a == "self.condition.beta":
                ctx.ok("C14-R3", "Engine::generator passes self.condition.beta as that parameter", cm.loc_of(t["span"]))
            else:
                ctx.fail("C14-R3", g.path, "beta argument", "the beta parameter receives %s" % a, cm.loc_of(t["span"]))
    vs = p.body("vocoder::Vocoder::synthesize")
    if vs is not None:
        eb = ExprBuilder(vs)
        n = 0
        for fn in (PF, PFL):
            for bb, t in cm.local_calls(vs, p, exact=fn):
                n += 1
                a = show(eb.at(bb).op(t["args"][1]))
                # for every beta: the call is not skipped for some values (the postfilter decides
                # itself that beta <= 0 is a no-op - R1; a `beta > 0` test in front of it is the same)
                def _beta_pos(pos, c):
                    return c[0] == "bin" and show(c[2]) == "self.beta" and c[3][0] == "c" and float(c[3][1]) == 0.0 and ((c[1] in ("Gt", "Ne") and pos) or (c[1] in ("Le", "Eq") and not pos))
                cgd = cm.value_guards(vs, eb, bb, _beta_pos)
                cgd = [x for x in cgd if "is_first" not in x]
                if cgd:
                    ctx.fail("C14-R3", vs.path, "conditional postfilter", "%s is applied only when %s: for other settings the spectrum is not sharpened" % (fn.split("::")[-1], " and ".join(cgd)), cm.loc_of(t["span"]))
                if a == "self.beta":
                    ctx.ok("C14-R3", "Vocoder::synthesize calls %s(self.beta)" % fn.split("::")[-1], cm.loc_of(t["span"]))
                else:
                    ctx.fail("C14-R3", vs.path, "postfilter argument", "%s receives %s, expected self.beta" % (fn.split("::")[-1], a), cm.loc_of(t["span"]))
        ctx.anchor("C14-R3", "postfilter calls in Vocoder::synthesize (one per filter family)", n, 2, vs.loc())
    tn, res = condition_flow(p, cg, ["condition", "beta"])
    if tn is not None:
        reached = sorted(k for k, v in res.items() if v and not k.startswith("_"))
        if reached == ["vocoder"] and not res["_branches"]:
            ctx.ok("C14-R3", "condition.beta reaches only the vocoder argument of SpeechGenerator::new")
        else:
            ctx.fail("C14-R3", "engine::Engine::generator", "beta flow", "condition.beta reaches %s" % reached)
    ctx.note("not decided: impulse-response energy preserved within 1% (depends on the 576-tap truncation in b2en)")
    expl = ("Dominating-guard rule for the no-op cases, exact polynomial forms of the three coefficient updates and of the mc2b/b2mc "
            "recurrences, dominance ordering of the two energy measurements, a polynomial identity computed by the checker (c1 unchanged, "
            "c_k scaled by 1+beta), and parameter->field->argument plumbing of beta.")
    return expl, ["rustc MIR"]
