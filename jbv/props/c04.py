"""C04 - A loaded voice is exactly what the file says (layout conventions between reader and consumer)."""
from ..expr import ExprBuilder, show, walk, root_of, stores, to_poly, Poly, canon, success_value, alternatives
from .. import paths
from . import common as cm

HDR = "model::parser::header::"
TRYFROM = HDR + "<impl std::convert::TryFrom<model::parser::header::Global> for model::voice::GlobalModelMetadata>::try_from"
FROMSD = HDR + "<impl std::convert::From<model::parser::header::StreamData> for model::voice::StreamModelMetadata>::from"


def leaves_fields(eb, e, names):
    """field names among `names` read in the (fully expanded) sources of e"""
    out = set()
    for x in eb.expand_all(e):
        if x[0] == "field" and x[2] in names:
            out.add(x[2])
    return out


def visit_str_keys(p, adt):
    """string constants compared in the serde-derived __FieldVisitor::visit_str of `adt`"""
    keys = []
    for path, b in p.bodies.items():
        if path.endswith("__FieldVisitor as serde::de::Visitor<'de>>::visit_str") and ("for %s>" % adt) in path:
            for bb, t in b.calls():
                for a in t["args"]:
                    if a.get("k") == "const" and "str" in a:
                        keys.append(a["str"])
            for bb, i, st in b.iter_stmts():
                pass
    return keys



def leaf_table(ctx, p, ct):
    """C04-R2, leaf table of convert_tree.  By role: the id vector is the vector whose element type
    is the payload type of TreeIndex::Pdf (the type binary_search is instantiated with).
      (1) every push into it happens before the sort (nothing is appended to a sorted table);
      (2) every binary_search on it - in the function or in a closure built there - comes after the sort;
      (3) a found position v is turned into the node index v + len(orig_tree.nodes);
      (4) the leaves are built from the elements of that vector (pdf_index = element as usize),
          after the loop over the inner nodes."""
    from ..expr import resolve_upvars
    bodies = [ct] + list(p.nested(ct.path))
    searches = []
    for bd in bodies:
        for bb, t in bd.calls():
            c = t["callee"]
            if c["k"] == "fndef" and cm.callee_name(c).endswith("::binary_search"):
                searches.append((bd, bb, t, (c.get("args") or ["?"])[0]))
    ctx.anchor("C04-R2", "binary_search calls locating a leaf", len(searches), 1, ct.loc())
    if not searches:
        return
    idty = searches[0][3]
    sorts, pushes = [], []
    for bb, t in ct.calls():
        c = t["callee"]
        if c["k"] != "fndef":
            continue
        nm = cm.callee_name(c)
        ga = c.get("args") or []
        if (nm.endswith("::sort_unstable") or nm.endswith("::sort")) and ga[:1] == [idty]:
            sorts.append(bb)
        if nm.endswith("Vec::<T, A>::push") and ga[:1] == [idty]:
            pushes.append(bb)
    if len(sorts) != 1:
        ctx.fail("C04-R2", ct.path, "leaf table sort", "the leaf-id vector (Vec<%s>) is sorted %d times; binary_search needs it sorted exactly once, after it is complete" % (idty, len(sorts)), ct.loc())
        return
    srt = sorts[0]
    dom = ct.dominators()
    late = [b_ for b_ in pushes if ct.can_reach(srt, b_)]
    if late or not pushes:
        ctx.fail("C04-R2", ct.path, "leaf table order", "ids are pushed into the leaf table after it was sorted (or never): binary_search would miss leaves", ct.loc())
    else:
        ctx.ok("C04-R2", "all %d pushes into the leaf-id vector precede its sort" % len(pushes), ct.loc())
    okpos = True
    for bd, bb, t, ty in searches:
        if bd is ct:
            after = srt in dom.get(bb, ())
        else:
            # the closure is constructed in convert_tree after the sort
            after = False
            for sbb, si, st in ct.iter_stmts():
                if st.get("k") == "assign" and st["rv"]["k"] == "aggregate" and st["rv"]["kind"].get("k") == "closure" and st["rv"]["kind"].get("def") in (bd.path, bd.j.get("path")):
                    after = srt in dom.get(sbb, ())
        if not after:
            okpos = False
            ctx.fail("C04-R2", bd.path, "search before sort", "binary_search on the leaf table is not dominated by its sort", cm.loc_of(t["span"]))
        # (3) the position -> node index map
        ebd = ExprBuilder(bd)
        maps = []
        for ubb, ui, item in bd.uses(t["dest"]["local"]):
            if ui == "term" and item["k"] == "call" and item["callee"]["k"] == "fndef" and cm.callee_name(item["callee"]).endswith("Result::<T, E>::map"):
                maps.append((ubb, item))
        if not maps:
            # match form: Ok(v) => v + len
            okpos = False
            ctx.fail("C04-R2", bd.path, "leaf position", "the result of binary_search is not mapped to a node index with Result::map (unrecognised form)", cm.loc_of(t["span"]))
            continue
        for ubb, item in maps:
            clo = ebd.at(ubb).op(item["args"][1])
            cb = p.bodies.get(clo[1][len("closure:"):]) if clo[0] == "agg" and clo[1].startswith("closure:") else None
            good = False
            if cb is not None:
                r = resolve_upvars(p, cb, ExprBuilder(cb).local(0))
                pol = to_poly(r, lambda e: ("POS",) if e[0] == "arg" and e[1] == 2 else (("NODES",) if e[0] == "len" and show(e[1]).endswith("orig_tree.nodes") else None))
                good = pol == Poly.atom(("POS",)) + Poly.atom(("NODES",))
            if good:
                ctx.ok("C04-R2", "a leaf found at sorted position v is referenced as node v + orig_tree.nodes.len()", cm.loc_of(item["span"]))
            else:
                okpos = False
                ctx.fail("C04-R2", bd.path, "leaf position", "the node index of a leaf is not (position in the sorted id table) + (number of inner nodes): %s" % (show(r)[:120] if cb is not None else show(clo)[:120]), cm.loc_of(item["span"]))
    # (4) the leaves
    leaves = []
    for bd in bodies:
        ebd = ExprBuilder(bd)
        for sbb, si, st in bd.iter_stmts():
            if st.get("k") == "assign" and st["rv"]["k"] == "aggregate" and st["rv"]["kind"].get("variant") == "Leaf" and str(st["rv"]["kind"].get("def", "")).endswith("tree::TreeNode"):
                leaves.append((bd, sbb, si, st, ebd.at(sbb, si).rvalue(st["rv"])))
    general = [x for x in leaves if not (x[0] is ct and any(g[0] in ("true", "false") for g in paths.guards(ct, x[1], ExprBuilder(ct)) if "len(orig_tree.nodes)" in show(g[1])))]
    ctx.anchor("C04-R2", "Leaf literals of the general path", len(general), 1, ct.loc())
    for bd, sbb, si, st, e in general:
        v = e[2][0] if e[0] == "agg" and e[2] else None
        src_ok = False
        if v is not None and v[0] == "cast":
            x = v[2]
            if bd is not ct and x[0] == "arg":
                # closure mapped over the (consumed) id vector: its construction feeds Iterator::map over Vec<idty>
                for bb, t in ct.calls():
                    c = t["callee"]
                    selfty = (c.get("args") or [""])[0] if c["k"] == "fndef" else ""
                    if c["k"] == "fndef" and cm.callee_name(c).endswith("Iterator::map") and selfty in ("std::vec::IntoIter<%s>" % idty, "std::slice::Iter<'_, %s>" % idty):
                        # plain, forward traversal of the sorted vector (not Rev<..>, Skip<..>, ..)
                        clo_ = ExprBuilder(ct).at(bb).op(t["args"][1])
                        if clo_[0] == "agg" and clo_[1] == "closure:" + bd.path:
                            src_ok = srt in dom.get(bb, ())
            elif bd is ct:
                sx = show(x)
                src_ok = "Iterator>::next(" in sx and srt in dom.get(sbb, ()) and not ("orig_tree.nodes" in sx)
        if src_ok:
            ctx.ok("C04-R2", "leaves are built from the sorted id vector, pdf_index = id as usize", cm.loc_of(st["span"]))
        else:
            ctx.fail("C04-R2", bd.path, "leaf order", "the appended leaves are not the elements of the sorted id table in order (pdf_index = %s)" % (show(v)[:100] if v else None), cm.loc_of(st["span"]))


def r9_leaf_names(ctx, p):
    """R9: a tree's child written in quotes and the same child written without quotes are the same
    child: parse_tree_index tries one parser X bare and the same X between double quotes, and X
    accepts a node id or a pdf name"""
    import re as _re
    ctx.rule("C04-R9", "tree children: parse_tree_index = alt(X, '\"' X '\"') with the same X on both sides, X = alt(signed digits -> Node, identifier -> Pdf)")
    root = None
    for path in p.bodies:
        if path.endswith("::parse_tree_index") and "TreeParser" in path:
            root = path
    if root is None:
        ctx.fail("C04-R9", "model::parser::model::tree::TreeParser::parse_tree_index", "anchor", "parse_tree_index not found")
        return
    b = p.bodies[root]
    outer = inner = None
    for bd in [b] + list(p.nested(root)):
        for bb, t in bd.calls():
            c = t["callee"]
            if c["k"] == "fndef" and cm.callee_name(c).endswith("branch::alt"):
                a = (c.get("args") or [""])[0]
                if bd is b:
                    outer = (a, t)
                elif "parse_signed_digits" in a or "TreeIndex::Node" in a:
                    inner = (a, t, bd)
    okq = False
    if outer is not None:
        a = outer[0]
        closures = _re.findall(r"\{closure@src/[^}]*\}", a)
        quoted = "nom::character::complete::char" in a and ("Preceded<" in a or "Delimited<" in a or "delimited" in a)
        # the bare alternative and the quoted alternative wrap the same closure type
        okq = quoted and len(closures) == 2 and closures[0] == closures[1]
        if okq:
            ctx.ok("C04-R9", "parse_tree_index: the same child parser is tried bare and between double quotes", cm.loc_of(outer[1]["span"]))
        else:
            ctx.fail("C04-R9", root, "quoted / unquoted", "the bare and the quoted alternative of parse_tree_index do not wrap the same child parser (%s): a leaf name written without quotes and the same name in quotes would not select the same PDF (or one form would be rejected)" % a[:200], cm.loc_of(outer[1]["span"]))
    else:
        ctx.fail("C04-R9", root, "alternatives", "parse_tree_index has no alt(..) of a bare and a quoted form", b.loc())
    if inner is not None and "parse_signed_digits" in inner[0] and "TreeIndex::Node" in inner[0] and "{closure@" in inner[0]:
        ctx.ok("C04-R9", "child parser = alt(signed digits -> Node, identifier -> Pdf)", cm.loc_of(inner[1]["span"]))
    else:
        ctx.fail("C04-R9", root, "child parser", "the child parser is not alt(node id, pdf name)", b.loc())


def r8_text_precision(ctx, p):
    """R8: numbers written as text in the voice file (window coefficients) are parsed at f64
    precision: the resolved parser combinators of the window-row parser are instantiated with
    `double` / `ParseTo<f64>`, never with an f32 parser whose result is widened afterwards"""
    ctx.rule("C04-R8", "window coefficients (text) are parsed as f64: the element parser of parse_window_row is nom `double` (or parse_to::<f64>); no f32 instantiation and no f32->f64 widening in the window parser")
    root = "model::parser::window::WindowParser::<S>::parse_window_row"
    b = cm.body_or_fail(ctx, p, "C04-R8", root)
    if b is None:
        return
    bodies = [b] + list(p.nested(root))
    f64_parser = 0
    bad = []
    for bd in bodies:
        for bb, t in bd.calls():
            c = t["callee"]
            if c["k"] != "fndef":
                continue
            nm = cm.callee_name(c)
            gargs = " ".join(str(a) for a in (c.get("args") or []))
            import re as _re
            if _re.search(r"\bf32\b", gargs + " " + nm) or "number::complete::float" in gargs + nm:
                bad.append((bd, t, "%s<%s>" % (nm, gargs[:100])))
            if "nom::number::complete::double" in gargs + nm or (nm.endswith("ParseTo::parse_to") and _re.search(r"\bf64\b", gargs)):
                f64_parser += 1
        for bb, i, st in bd.iter_stmts():
            if st.get("k") == "assign" and st["rv"]["k"] == "cast" and "Float" in str(st["rv"].get("kind")):
                bad.append((bd, st, "float cast %s" % st["rv"].get("kind")))
    for bd, t, what in bad:
        ctx.fail("C04-R8", bd.path, "f32 in window parser", "the window-row parser goes through single precision (%s): a coefficient such as -0.2 is not the number written in the file" % what, cm.loc_of(t["span"]))
    if not bad:
        ctx.ok("C04-R8", "no f32 instantiation or float widening in parse_window_row (%d bodies)" % len(bodies), b.loc())
    ctx.anchor("C04-R8", "f64 element parsers (double / parse_to::<f64>) in parse_window_row", f64_parser, 1, b.loc())
    # the parsed Vec<f64> goes to Window::new unchanged
    wn = p.body("model::voice::window::Window::new")
    if wn is not None:
        from .. import paths as _paths
        ebw = ExprBuilder(wn)
        rets = [e for bb_, e, item in _paths.return_exprs(wn, ebw)]
        okw = rets and all(e[0] == "agg" and any(x[0] == "arg" for x in e[2]) for e in rets)
        if okw:
            ctx.ok("C04-R8", "Window::new stores the parsed coefficient vector as given", wn.loc())
        else:
            ctx.fail("C04-R8", wn.path, "Window::new", "Window::new does not store its argument unchanged: %s" % [show(e)[:100] for e in rets], wn.loc())


def r7_ranges(ctx, p):
    """R7: byte ranges of the header are inclusive: a pair (a, b) selects input[a..=b]"""
    ctx.rule("C04-R7", "byte ranges given in the header are inclusive: every slice of the data taken from a header pair (a, b) is input[a ..= b] (or input[a .. b+1]); holds for the section ranges (parse_all) and the window rows (STREAM_WIN)")
    from ..expr import closure_env
    sites = []
    for path, b in p.bodies.items():
        if not path.startswith("model::parser::"):
            continue
        eb = ExprBuilder(b)
        for bb, t in b.calls():
            c_ = t["callee"]
            nm = cm.callee_name(c_) if c_["k"] == "fndef" else ""
            if not (nm.endswith("<impl [T]>::get") or nm.endswith("Index<I>>::index") or nm.endswith("SliceIndex<[T]>>::index")):
                continue
            if len(t["args"]) != 2:
                continue
            rg = eb.at(bb).op(t["args"][1])
            lo = hi = None
            incl = False
            if rg[0] == "agg" and rg[1].endswith("Range::Range") and len(rg[2]) == 2:
                lo, hi = rg[2]
            elif rg[0] == "call" and rg[1].endswith("RangeInclusive::<Idx>::new") and len(rg[2]) == 2:
                lo, hi = rg[2]
                incl = True
            else:
                continue
            # precise captures: `range.0` captured on its own is the field .0 of the captured pair
            from ..loops import rewrite

            def unsplit(n):
                if n[0] == "upvar" and "." in n[1]:
                    root, *fs = n[1].split(".")
                    e2 = ("upvar", root)
                    for f_ in fs:
                        e2 = ("field", e2, f_)
                    return e2
                return None
            lo, hi = rewrite(lo, unsplit), rewrite(hi, unsplit)
            if not (lo[0] == "field" and lo[2] == "0") and b.kind == "Closure":
                # `let (first, last) = range;` in the constructing function, captured one by one:
                # captured variables stand for the values they were bound to
                from ..expr import resolve_upvars
                try:
                    lo2 = resolve_upvars(p, b, lo)
                    hi2 = success_value(p, resolve_upvars(p, b, hi))
                    if lo2[0] == "field" and lo2[2] == "0":
                        lo, hi = lo2, hi2
                except Exception:  # noqa: BLE001
                    pass
            # only ranges whose start is the first half of a pair
            if not (lo[0] == "field" and lo[2] == "0"):
                continue
            sites.append((b, bb, t, lo, hi, incl))
    ctx.anchor("C04-R7", "data slices taken from a header pair", len(sites), 2)
    from ..loops import rewrite

    def unsplit(n):
        if n[0] == "upvar" and "." in n[1]:
            root, *fs = n[1].split(".")
            e2 = ("upvar", root)
            for f_ in fs:
                e2 = ("field", e2, f_)
            return e2
        return None
    for b, bb, t, lo, hi, incl in sites:
        loc = cm.loc_of(t["span"])
        base = lo[1]
        # a closure parameter standing for `b + 1`: the closure is handed to checked_add(b, 1).and_then(..)
        if hi[0] == "arg" and b.kind == "Closure":
            dp = p.bodies.get(getattr(b, "direct_parent", None) or b.parent)
            if dp is not None:
                deb = ExprBuilder(dp)
                for pbb, pt in dp.calls():
                    pc = pt["callee"]
                    pn = cm.callee_name(pc) if pc["k"] == "fndef" else ""
                    if pn.endswith("Option::<T>::and_then") or pn.endswith("Option::<T>::map"):
                        a1 = deb.at(pbb).op(pt["args"][1])
                        if a1[0] == "agg" and a1[1] == "closure:" + b.path:
                            hi = rewrite(success_value(p, ("field", ("variant", deb.op(pt["args"][0]), "Some"), "0")), unsplit)
                            if dp.kind == "Closure":
                                # the receiver is an expression of the enclosing closure: its own
                                # captured variables (`last` of `let (first, last) = range;`) by value
                                from ..expr import resolve_upvars
                                try:
                                    hi = resolve_upvars(p, dp, hi)
                                except Exception:  # noqa: BLE001
                                    pass
                            # the receiver is in the parent's terms: captured variables by value
                            env, _par = closure_env(p, b)
        def norm(e):
            # captured `range` in a closure and the parent's `range`: compare by the pair's rendered root
            return show(e).replace("^", "").replace("*", "")
        bs = norm(base)
        want_incl = Poly.atom(("B1",))

        def atomize(e):
            if e[0] == "field" and e[2] == "1" and norm(e[1]) == bs:
                return ("B1",)
            return None
        hp = to_poly(hi, atomize)
        okr = hp == want_incl if incl else hp == want_incl + Poly.const(1)
        if okr:
            ctx.ok("C04-R7", "%s: slice [%s.0 ..= %s.1]" % (cm.short(b.path), bs, bs), loc)
        else:
            ctx.fail("C04-R7", b.path, "range end", "the header pair %s selects input[%s.0 %s %s]: a header range (a, b) must select the inclusive byte range a..=b (the last byte of the section / window row would be dropped or an extra one read)" % (bs, bs, "..=" if incl else "..", show(hi)[:80]), loc)


def run(ctx):
    ctx.rule("C04-R1", "same-name mapping header -> metadata: every field f of GlobalModelMetadata / StreamModelMetadata is fed by the header field f (gv_off_context through Question::parse); the header structs' serde keys are the upper-case field names")
    ctx.rule("C04-R2", "child order: the third token of a tree node line reaches `no`, the fourth `yes`; convert_tree maps yes->yes, no->no; Tree::search_node follows `yes` when the question matches")
    ctx.rule("C04-R3", "index bases: get_index returns tree position + 2, get_parameter indexes pdf[tree - 2][pdf - 1]")
    ctx.rule("C04-R4", "PDF record layout: from_linear pairs lin[i] with lin[i+len], msd = lin.get(2*len), len = lin.len()/2; record lengths 2*num_states, 2*veclen*nwin + is_msd, 2*veclen; elements are little-endian f32 widened to f64; per-tree counts are le_u32")
    ctx.rule("C04-R5", "options/defaults -> condition: GAMMA->stage, LN_GAIN->use_log_gain (\"1\"->true, \"0\"->false), ALPHA->alpha; sampling_frequency <- metadata.sampling_frequency, fperiod <- metadata.frame_period; options read from stream 0")
    ctx.rule("C04-R6", "fallback wiring: Question::parse tries the fast matcher first, the regex matcher only on its error; Question::test dispatches to the variant that was built")
    p = cm.program(ctx)

    # ---- R1
    for fn, target, src_name in ((TRYFROM, "model::voice::GlobalModelMetadata", "value"), (FROMSD, "model::voice::StreamModelMetadata", "value")):
        b = cm.body_or_fail(ctx, p, "C04-R1", fn)
        if b is None:
            continue
        eb = ExprBuilder(b)
        aggs = []
        for bb, i, st in b.iter_stmts():
            if st["k"] == "assign" and st["rv"]["k"] == "aggregate" and st["rv"]["kind"].get("def") == target:
                aggs.append((bb, i, st))
        if len(aggs) != 1:
            ctx.fail("C04-R1", fn, "aggregate", "expected one %s literal, found %d" % (target, len(aggs)), b.loc())
            continue
        bb, i, st = aggs[0]
        names = st["rv"]["kind"]["fields"]
        eb.at(bb, i)
        for nm, op in zip(names, st["rv"]["ops"]):
            e = eb.op(op)
            srcs = leaves_fields(eb, e, set(names) | {"comment"})
            if srcs == {nm}:
                extra = ""
                if nm == "gv_off_context":
                    if not any(x[0] == "call" and x[1] == "model::voice::question::Question::parse" for x in eb.expand_all(e)):
                        ctx.fail("C04-R1", fn, "field gv_off_context", "gv_off_context is not built with Question::parse", cm.loc_of(st["span"]))
                        continue
                    extra = " (through Question::parse)"
                ctx.ok("C04-R1", "%s.%s <- header.%s%s" % (target.split("::")[-1], nm, nm, extra), cm.loc_of(st["span"]))
            else:
                ctx.fail("C04-R1", fn, "field " + nm, "%s.%s is fed by header field(s) %s" % (target.split("::")[-1], nm, sorted(srcs)), cm.loc_of(st["span"]))
    for adt in ("model::parser::header::Global", "model::parser::header::StreamData", "model::parser::header::PositionData", "model::parser::header::Position"):
        a = p.adts.get(adt)
        if a is None:
            ctx.fail("C04-R1", adt, "anchor", "header struct not found")
            continue
        fields = [f["name"] for f in a["variants"][0]["fields"]]
        keys = visit_str_keys(p, adt)
        flat = [f for f in fields if f not in ("stream", "position")]  # flattened maps have no key of their own
        want = {f.upper() for f in flat}
        got = set(keys)
        if want <= got and len(got - want) == 0:
            ctx.ok("C04-R1", "%s: serde keys = %s" % (adt.split("::")[-1], sorted(want)), cm.loc_of(a["span"]))
        elif not keys:
            ctx.fail("C04-R1", adt, "serde keys", "derived field visitor not found (cannot read the key table)", cm.loc_of(a["span"]))
        else:
            ctx.fail("C04-R1", adt, "serde keys", "key table %s differs from the upper-case field names %s" % (sorted(got), sorted(want)), cm.loc_of(a["span"]))

    # ---- R2
    pn = None
    for path, b in p.bodies.items():
        if path.startswith("model::parser::model::tree::TreeParser::<S>::parse_node::{closure#") or path == "model::parser::model::tree::TreeParser::<S>::parse_node":
            for bb, i, st in b.iter_stmts():
                if st["k"] == "assign" and st["rv"]["k"] == "aggregate" and st["rv"]["kind"].get("def") == "model::parser::model::tree::Node":
                    pn = (b, bb, i, st)
    if pn is None:
        ctx.fail("C04-R2", "model::parser::model::tree::TreeParser::<S>::parse_node", "Node literal", "the closure building a parser Node was not found")
    else:
        b, bb, i, st = pn
        eb = ExprBuilder(b).at(bb, i)
        f = dict(zip(st["rv"]["kind"]["fields"], [eb.op(o) for o in st["rv"]["ops"]]))

        srcs_ = set()

        def tuple_pos(e):
            # R.1.<k> with R = (rest, (id, question, no, yes)): the closure's argument, or the
            # unwrapped result of the tuple parser when the closure was replaced by `?`
            if e[0] == "field" and e[1][0] == "field" and e[1][2] == "1":
                srcs_.add(canon(e[1][1]))
                return e[2]
            return None
        pos = {k: tuple_pos(v) for k, v in f.items() if k in ("id", "no", "yes")}
        if pos.get("no") == "2" and pos.get("yes") == "3" and pos.get("id") == "0" and len(srcs_) == 1:
            ctx.ok("C04-R2", "parse_node: token 1 -> id, token 3 -> no, token 4 -> yes (the format writes the no-child first)", cm.loc_of(st["span"]))
        else:
            ctx.fail("C04-R2", b.path, "child order", "node line tokens map to %s, expected no <- 3rd, yes <- 4th" % pos, cm.loc_of(st["span"]))
    pnb = p.body("model::parser::model::tree::TreeParser::<S>::parse_node")
    if pnb is not None:
        # the tuple parser has four components: signed digits, question ident, tree index, tree index
        txt = " ".join(show(ExprBuilder(pnb).call(t)) for bb, t in pnb.calls())
        if txt.count("parse_tree_index") >= 2 and "parse_signed_digits" in txt and "parse_question_ident" in txt:
            ctx.ok("C04-R2", "parse_node parses (signed id, question ident, tree index, tree index)", pnb.loc())
        else:
            ctx.fail("C04-R2", pnb.path, "token parsers", "node tuple parser changed", pnb.loc())
    ct = cm.body_or_fail(ctx, p, "C04-R2", "model::parser::model::convert_tree")
    if ct is not None:
        eb = ExprBuilder(ct)
        n = 0
        for bb, i, st in ct.iter_stmts():
            if st["k"] == "assign" and st["rv"]["k"] == "aggregate" and st["rv"]["kind"].get("def") == "model::voice::tree::TreeNode" and st["rv"]["kind"]["variant"] == "Node":
                n += 1
                eb.at(bb, i)
                f = dict(zip(st["rv"]["kind"]["fields"], st["rv"]["ops"]))
                ys = leaves_fields(eb, eb.op(f["yes"]), {"yes", "no"})
                ns = leaves_fields(eb, eb.op(f["no"]), {"yes", "no"})
                qs = leaves_fields(eb, eb.op(f["question"]), {"question_name", "yes", "no"})
                if ys == {"yes"} and ns == {"no"} and qs == {"question_name"}:
                    ctx.ok("C04-R2", "convert_tree: TreeNode.yes <- node.yes, .no <- node.no, .question <- lut[node.question_name]", cm.loc_of(st["span"]))
                else:
                    ctx.fail("C04-R2", ct.path, "branch mapping", "TreeNode{yes <- %s, no <- %s, question <- %s}" % (sorted(ys), sorted(ns), sorted(qs)), cm.loc_of(st["span"]))
        ctx.anchor("C04-R2", "TreeNode::Node literals in convert_tree", n, 1, ct.loc())
        # a child written as a node id is found by that id: the id -> row table is built from
        # (node.id, position) of every row, and both children go through it.  Row order and
        # numbering are free in the format, so the id is not a row number.
        from ..expr import deep_defs
        nlit = 0
        for bb, i, st in ct.iter_stmts():
            if not (st["k"] == "assign" and st["rv"]["k"] == "aggregate" and st["rv"]["kind"].get("variant") == "Node" and str(st["rv"]["kind"].get("def", "")).endswith("tree::TreeNode")):
                continue
            nlit += 1
            e = eb.at(bb, i).rvalue(st["rv"])
            fld = dict(zip(e[3], e[2]))
            for child in ("yes", "no"):
                v = fld.get(child)
                cands = [v] + deep_defs(eb, v) if v is not None else []
                # the lookup may sit in a closure called on the child (`resolve(&node.yes)`)
                from ..expr import closure_call_values
                for x in list(cands):
                    for y in walk(x):
                        if y[0] == "call" and y[1] in p.bodies:
                            cands.extend(closure_call_values(p, y))
                node_arm = [x for x in cands for y in walk(x) if y[0] == "call" and y[1].endswith("BTreeMap::<K, V, A>::get") and len(y[2]) == 2]
                good = False
                for x in cands:
                    for y in walk(x):
                        if y[0] == "call" and y[1].endswith("BTreeMap::<K, V, A>::get") and len(y[2]) == 2:
                            table, key = y[2]
                            ks = show(key)
                            tbl_ok = False
                            for z in walk(table):
                                if z[0] == "agg" and z[1].startswith("closure:"):
                                    cbz = p.bodies.get(z[1][len("closure:"):])
                                    rz = ExprBuilder(cbz).local(0) if cbz is not None else None
                                    if rz is not None and rz[0] == "agg" and rz[1] == "tuple" and len(rz[2]) == 2 and show(rz[2][0]).endswith(".1.id") and show(rz[2][1]).endswith(".0") and "enumerate(orig_tree.nodes)" in show(table):
                                        tbl_ok = True
                            if tbl_ok and ks.endswith(".%s as Node).0" % child):
                                good = True
                if good:
                    ctx.ok("C04-R2", "child `%s` written as a node id is located through the (node.id -> row) table" % child, cm.loc_of(st["span"]))
                else:
                    ctx.fail("C04-R2", ct.path, "node reference " + child, "the `%s` child of an inner node, when it names a node id, is not looked up in the table built from every row's (id, position): ids are not row numbers (rows may be written in any order, with gaps)" % child, cm.loc_of(st["span"]))
        # the bare-leaf shortcut drops the node's question: legitimate only for the pseudo node of a
        # question-less tree, which the text parser writes with yes == no
        early = []
        for bb, e, item in paths.return_exprs(ct, eb):
            if not paths.is_ok(e):
                continue
            gs0 = paths.guards(ct, bb, eb)
            after_node_loop = any(g[0] == "none" and "next(orig_tree.nodes)" in show(g[1]) for g in gs0)
            if not after_node_loop:
                early.append((bb, e))   # an Ok(Tree) produced without walking all nodes
        if not early:
            ctx.note("convert_tree has no bare-leaf shortcut (every tree goes through the general path)")
        for bb, e in early:
            gs = paths.guards(ct, bb, eb)
            one = same = False
            for g in gs:
                if g[0] in ("true", "false"):
                    pos, c = paths.bool_atoms(g)
                    s = show(c)
                    if c[0] == "bin" and c[1] == "Eq" and pos and "len(orig_tree.nodes)" in s and c[3][0] == "c" and c[3][1] == 1:
                        one = True
                    if c[0] == "call" and (c[1].endswith("PartialEq>::eq") or c[1].endswith("PartialEq::eq")) and pos:
                        a0, a1 = show(c[2][0]), show(c[2][1])
                        if {a0.split(".")[-1], a1.split(".")[-1]} == {"yes", "no"} and a0.rsplit(".", 1)[0] == a1.rsplit(".", 1)[0]:
                            same = True
                    if c[0] == "call" and (c[1].endswith("PartialEq>::ne") or c[1].endswith("PartialEq::ne")) and not pos:
                        a0, a1 = show(c[2][0]), show(c[2][1])
                        if {a0.split(".")[-1], a1.split(".")[-1]} == {"yes", "no"}:
                            same = True
            if same:
                ctx.ok("C04-R2", "bare-leaf shortcut is taken only when the lone node has yes == no (a question-less tree)", ct.loc())
            else:
                ctx.fail("C04-R2", ct.path, "bare-leaf shortcut", "a tree is collapsed into a single leaf without checking yes == no: a one-question tree with two different leaves loses its question and its no-branch leaf (single-node=%s, yes==no=%s)" % (one, same), ct.loc())
        # leaves are appended after the inner nodes, in sorted pdf order, and referenced by
        # binary_search position + nodes.len()
        leaf_table(ctx, p, ct)
    sn = cm.body_or_fail(ctx, p, "C04-R2", "model::voice::tree::Tree::search_node")
    if sn is not None:
        eb = ExprBuilder(sn)
        found = {"yes": None, "no": None}
        # the cursor variable (whatever its name) is assigned from a temp defined on both edges of `test`
        all_defs = [d for l in sn.defs() for d in sn.defs().get(l, [])]
        for d in all_defs:
            if d[1] == "term" or sn.is_cleanup(d[0]) or d[2]["rv"].get("k") != "use":
                continue
            src = d[2]["rv"].get("op", {})
            if src.get("k") in ("move", "copy"):
                tl = src["place"]["local"]
                for d2 in sn.defs().get(tl, []):
                    if d2[1] == "term":
                        continue
                    e = eb.at(d2[0], d2[1]).rvalue(d2[2]["rv"])
                    if e[0] == "field" and e[2] in ("yes", "no"):
                        for g in paths.guards(sn, d2[0], eb):
                            if g[0] in ("true", "false") and g[1][0] == "call" and g[1][1] == "model::voice::question::Question::test":
                                found[e[2]] = g[0]
        if found == {"yes": "true", "no": "false"}:
            ctx.ok("C04-R2", "search_node: question.test(label) true -> yes child, false -> no child", sn.loc())
        else:
            ctx.fail("C04-R2", sn.path, "branch selection", "search_node follows %s" % found, sn.loc())
        # leaf returns its pdf_index
        rets = [e for bb, e, item in paths.return_exprs(sn, eb)]
        if any(e[0] == "agg" and e[1].endswith("Option::Some") and show(e[2][0]).endswith(".pdf_index") for e in rets):
            ctx.ok("C04-R2", "search_node returns the leaf's pdf_index", sn.loc())
        else:
            ctx.fail("C04-R2", sn.path, "leaf value", "search_node does not return the leaf's pdf_index", sn.loc())

    # ---- R3
    gi = cm.body_or_fail(ctx, p, "C04-R3", "model::voice::model::Model::get_index")
    off_tree = None
    if gi is not None:
        eb = ExprBuilder(gi)
        ret = eb.local(0)
        if ret[0] == "agg" and len(ret[2]) == 2:
            t0 = ret[2][0]
            cl = [x for x in walk(t0) if x[0] == "agg" and x[1].startswith("closure:")]
            if t0[0] == "call" and t0[1].endswith("Option::<T>::map") and cl and "find_tree_index(self, state_index)" in show(t0):
                cb = p.bodies.get(cl[0][1][len("closure:"):])
                pol = to_poly(ExprBuilder(cb).local(0))
                d = pol - Poly.atom(("arg", cb.local_name(2) or 2))
                if d.is_const():
                    off_tree = int(d.const_value())
            if "search_node(" in show(ret[2][1]) and off_tree is not None:
                ctx.ok("C04-R3", "get_index = (tree position + %d, leaf pdf id of the tree for state_index)" % off_tree, gi.loc())
            else:
                ctx.fail("C04-R3", gi.path, "return value", "get_index returns %s" % show(ret)[:160], gi.loc())
    if gi is not None:
        # which tree is searched: the one find_tree_index names, and the first tree for a state
        # that has none of its own (the format's default tree) - never another constant
        geb = ExprBuilder(gi)
        nidx = 0
        for bb_, t_ in gi.calls():
            c_ = t_["callee"]
            nm_ = cm.callee_name(c_) if c_["k"] == "fndef" else ""
            if not (nm_.endswith("Index<I>>::index") or nm_.endswith("::index")) or len(t_["args"]) != 2:
                continue
            a0, a1 = geb.at(bb_).op(t_["args"][0]), geb.op(t_["args"][1])
            if show(a0) != "self.trees":
                continue
            nidx += 1
            xs = show(a1)
            from_find = "find_tree_index(self, state_index)" in xs and (xs.endswith("as Some).0") or "unwrap_or(" in xs)
            dflt = None
            if a1[0] == "c":
                dflt = a1[1]
            elif a1[0] == "call" and a1[1].endswith("unwrap_or") and len(a1[2]) == 2 and a1[2][1][0] == "c":
                dflt = a1[2][1][1]
            if dflt is not None and dflt != 0:
                ctx.fail("C04-R3", gi.path, "fallback tree", "a state without a tree of its own is looked up in trees[%s], expected the first tree (trees[0])" % dflt, cm.loc_of(t_["span"]))
            elif dflt == 0 or from_find:
                ctx.ok("C04-R3", "get_index searches %s" % ("the first tree for a state without its own" if dflt == 0 and not from_find else "the tree find_tree_index names" + (" (first tree otherwise)" if dflt == 0 else "")), cm.loc_of(t_["span"]))
            else:
                ctx.fail("C04-R3", gi.path, "tree selection", "get_index indexes self.trees with %s: neither the tree find_tree_index names nor the first tree" % xs[:80], cm.loc_of(t_["span"]))
        ctx.anchor("C04-R3", "tree selections in get_index", nidx, 1, gi.loc())
    gp = cm.body_or_fail(ctx, p, "C04-R3", "model::voice::model::Model::get_parameter")
    if gp is not None and off_tree is not None:
        eb = ExprBuilder(gp)
        ret = eb.local(0)
        okk = False
        if ret[0] == "idx" and ret[1][0] == "idx" and show(ret[1][1]) == "self.pdf":
            ti = to_poly(ret[1][2], lambda e: ("T",) if "get_index" in show(e) and show(e).endswith(".0 as Some).0") else (("P",) if "get_index" in show(e) and show(e).endswith(".1 as Some).0") else None))
            pi = to_poly(ret[2], lambda e: ("T",) if "get_index" in show(e) and show(e).endswith(".0 as Some).0") else (("P",) if "get_index" in show(e) and show(e).endswith(".1 as Some).0") else None))
            net_t = ti - Poly.atom(("T",)) + Poly.const(off_tree)
            net_p = pi - Poly.atom(("P",))
            if net_t == Poly.const(0) and net_p == Poly.const(-1):
                okk = True
                ctx.ok("C04-R3", "get_parameter = pdf[tree_index - %d][pdf_index - 1]: net tree offset 0, PDF ids are 1-based" % off_tree, gp.loc())
            else:
                ctx.fail("C04-R3", gp.path, "index bases", "pdf[%s][%s]: net tree offset %s (must be 0), pdf offset %s (must be -1)" % (ti, pi, net_t, net_p), gp.loc())
        if not okk and not any(v["fn"] == gp.path for v in ctx.violations):
            ctx.fail("C04-R3", gp.path, "return value", "get_parameter returns %s" % show(ret)[:160], gp.loc())
    fti = p.body("model::voice::model::Model::find_tree_index::{closure#0}")
    if fti is not None:
        r = show(ExprBuilder(fti).local(0))
        if "state" in r and "state_index" in r and r.startswith("Eq("):
            ctx.ok("C04-R3", "find_tree_index selects the tree whose `state` equals state_index", fti.loc())
        else:
            ctx.fail("C04-R3", fti.path, "predicate", "tree selection predicate is %s" % r, fti.loc())

    # ---- R4
    fl = cm.body_or_fail(ctx, p, "C04-R4", "model::voice::model::ModelParameter::from_linear")
    if fl is not None:
        eb = ExprBuilder(fl)
        L = Poly.atom(("LEN",))

        def atomize(e):
            if e[0] == "len" and show(e[1]) == "lin":
                return ("LEN",)
            return None
        HALF = Poly.atom(("idiv", L.key(), Poly.const(2).key()))

        def slice_view(e):
            """(offset, length | None = to the end) of a sub-slice of `lin`"""
            if show(e) == "lin":
                return Poly.const(0), None
            if e[0] == "field" and e[2] in ("0", "1") and e[1][0] == "call" and e[1][1].endswith("split_at") and len(e[1][2]) == 2:
                inner = slice_view(e[1][2][0])
                if inner is None:
                    return None
                off, ln = inner
                k_ = to_poly(e[1][2][1], atomize)
                if e[2] == "0":
                    return off, k_
                return off + k_, (ln - k_ if ln is not None else None)
            # X[..b] / X[a..] / X[a..b] (as an Index call or a place projection), iter() wrappers
            rng = None
            if e[0] == "call" and e[1].endswith("::index") and len(e[2]) == 2:
                base, rng = e[2]
            elif e[0] == "idx" and e[2][0] == "agg" and "Range" in e[2][1]:
                base, rng = e[1], e[2]
            elif e[0] == "call" and e[1].rsplit("::", 1)[-1] in ("iter", "into_iter", "deref", "as_slice") and len(e[2]) == 1:
                return slice_view(e[2][0])
            if rng is not None and rng[0] == "agg":
                inner = slice_view(base)
                if inner is None:
                    return None
                off, ln = inner
                nm = dict(zip(rng[3], rng[2])) if len(rng) > 3 and rng[3] else {}
                kind = rng[1].rsplit("::", 1)[-1]
                if kind == "RangeTo" and "end" in nm:
                    return off, to_poly(nm["end"], atomize)
                if kind == "RangeFrom" and "start" in nm:
                    a_ = to_poly(nm["start"], atomize)
                    return off + a_, (ln - a_ if ln is not None else None)
                if kind == "Range" and "start" in nm and "end" in nm:
                    a_, b_ = to_poly(nm["start"], atomize), to_poly(nm["end"], atomize)
                    return off + a_, b_ - a_
                if kind == "RangeFull":
                    return off, ln
            return None
        pushes = [(bb, t) for bb, t in fl.calls() if t["callee"]["k"] == "fndef" and cm.callee_name(t["callee"]).endswith("Vec::<T, A>::push")]
        okp = False
        for bb, t in pushes:
            v = eb.at(bb).op(t["args"][1])
            if v[0] == "agg" and v[1].endswith("MeanVari::MeanVari") and len(v[2]) == 2:
                m, va = v[2]
                if m[0] == "idx" and va[0] == "idx" and show(m[1]) == "lin" and show(va[1]) == "lin":
                    d = to_poly(va[2], atomize) - to_poly(m[2], atomize)
                    # d = len / 2 (truncating: the opaque half H = lin.len() div 2)
                    if d == HALF:
                        okp = True
        alt = False
        if not okp:
            # iterator form: lin.split_at(H) = (means, rest); means.zip(rest).map(|(m, v)| MeanVari(m, v))
            retv = eb.at(None).local(0)
            if retv[0] == "agg" and "parameters" in retv[3]:
                pv = retv[2][retv[3].index("parameters")]
                if pv[0] == "call" and pv[1].endswith("Iterator::collect") and pv[2][0][0] == "call" and pv[2][0][1].endswith("Iterator::map"):
                    z, clo = pv[2][0][2]
                    if z[0] == "call" and z[1].endswith("Iterator::zip") and clo[0] == "agg" and clo[1].startswith("closure:"):
                        a_, b_ = z[2]

                        def half(e, k):
                            # slice algebra over `lin`: (offset, length or None) of a sub-slice built
                            # with split_at / first-half / second-half projections
                            v_ = slice_view(e)
                            if v_ is None:
                                return False
                            off, ln = v_
                            if k == "0":
                                return off == Poly.const(0) and ln == HALF
                            return off == HALF and (ln is None or ln == HALF)
                        cb = p.bodies.get(clo[1][len("closure:"):])
                        cr = ExprBuilder(cb).local(0) if cb is not None else ("unk",)
                        pair = cr[0] == "agg" and cr[1].endswith("MeanVari::MeanVari") and len(cr[2]) == 2 and show(cr[2][0]) == "arg2.0" and show(cr[2][1]) == "arg2.1"
                        if half(a_, "0") and half(b_, "1") and pair:
                            okp = alt = True
        if okp and alt:
            ctx.ok("C04-R4", "from_linear: lin.split_at(len/2) = (means, rest); parameters = means.zip(rest).map(MeanVari): element i pairs lin[i] with lin[len/2 + i]", fl.loc())
        elif okp:
            ctx.ok("C04-R4", "from_linear: parameters[i] = (lin[i], lin[i + lin.len()/2]): means first, then variances", fl.loc())
        else:
            ctx.fail("C04-R4", fl.path, "pairing", "from_linear does not pair lin[i] with lin[i + len]", fl.loc())
        ret = eb.at(None).local(0)
        if ret[0] == "agg" and "msd" in ret[3]:
            m = ret[2][ret[3].index("msd")]
            okm = False
            for x in walk(m):
                if x[0] == "call" and x[1].endswith("<impl [T]>::get") and len(x[2]) == 2:
                    # element k of a sub-slice of lin = absolute index offset + k;
                    # 2 * (len div 2) is the element after the two halves
                    v_ = slice_view(x[2][0])
                    if v_ is not None and v_[0] + to_poly(x[2][1], atomize) == HALF * Poly.const(2):
                        okm = True
                # first element of the sub-slice that starts after the two halves
                if x[0] == "call" and x[1].endswith("<impl [T]>::first") and len(x[2]) == 1:
                    v_ = slice_view(x[2][0])
                    if v_ is not None and v_[0] == HALF * Poly.const(2) and v_[1] is None:
                        okm = True
            if okm:
                ctx.ok("C04-R4", "from_linear: msd = lin.get(2*len) (the optional trailing weight)", fl.loc())
            else:
                ctx.fail("C04-R4", fl.path, "msd", "msd is %s" % show(m)[:120], fl.loc())
        # loop covers 0..len
        rng = [x for bb, t in fl.calls() for x in walk(eb.at(bb).call(t)) if x[0] == "agg" and x[1].endswith("Range::Range")]
        if alt:
            ctx.ok("C04-R4", "from_linear: the zip covers every element of the first half", fl.loc())
        elif any(x[2][0][0] == "c" and x[2][0][1] == 0 and to_poly(x[2][1], atomize) == HALF for x in rng):
            ctx.ok("C04-R4", "from_linear: i ranges over 0..len", fl.loc())
        else:
            ctx.fail("C04-R4", fl.path, "range", "the pairing loop does not cover 0..len", fl.loc())
    pds = cm.body_or_fail(ctx, p, "C04-R4", "model::parser::parse_data_section")
    if pds is not None:
        sites = []
        for cb in [pds] + p.nested(pds.path):
            ceb = ExprBuilder(cb)
            for bb, t in cm.local_calls(cb, p, exact="model::parser::model::parse_model"):
                a = [ceb.at(bb).op(x) for x in t["args"]]
                sites.append((cb, bb, t, a))
        ctx.anchor("C04-R4", "parse_model call sites", len(sites), 3, pds.loc())

        def atom2(e):
            s = show(e)
            for nm in ("num_states", "vector_length", "num_windows", "is_msd"):
                if e[0] == "field" and e[2] == nm:
                    return (nm,)
            return None
        forms = []
        for cb, bb, t, a in sites:
            pol = to_poly(success_value(p, a[3]), atom2)
            tree = show(a[1])
            pdf = show(a[2])
            kind = "duration" if "duration_tree" in tree else ("gv" if "gv_tree" in tree else ("stream" if "stream_tree" in tree else "?"))
            ns, vl, nw, im = (Poly.atom((x,)) for x in ("num_states", "vector_length", "num_windows", "is_msd"))
            want = {"duration": ns * Poly.const(2), "stream": vl * nw * Poly.const(2) + im, "gv": vl * Poly.const(2)}.get(kind)
            pdf_ok = {"duration": "duration_pdf", "stream": "stream_pdf", "gv": "gv_pdf"}.get(kind, "?") in pdf
            if want is not None and pol == want and pdf_ok:
                ctx.ok("C04-R4", "%s model: trees %s, pdfs %s, record length %s" % (kind, tree[-24:], pdf[-22:], pol), cm.loc_of(t["span"]))
            else:
                ctx.fail("C04-R4", cb.path, "record length (%s)" % kind, "parse_model(tree=%s, pdf=%s, len=%s), expected len %s" % (tree[-30:], pdf[-30:], pol, want), cm.loc_of(t["span"]))
    pm = cm.body_or_fail(ctx, p, "C04-R4", "model::parser::model::parse_model")
    if pm is not None:
        txt = ""
        fnrefs = set()
        for cb in [pm] + p.nested(pm.path):
            for bb, t in cb.calls():
                for a in t["args"]:
                    if a.get("k") == "const" and "fn" in a:
                        fnrefs.add(a["fn"])
        casts = []
        for cb in p.nested(pm.path):
            r = ExprBuilder(cb).local(0)
            if r[0] == "cast":
                casts.append((r[3], r[1]))
        if "nom::number::complete::le_f32" in fnrefs and "nom::number::complete::le_u32" in fnrefs and ("f32", "f64") in casts:
            ctx.ok("C04-R4", "PDF block: counts le_u32, elements le_f32 widened with an exact f32 -> f64 cast", pm.loc())
        else:
            ctx.fail("C04-R4", pm.path, "element parser", "element/count parsers are %s, casts %s" % (sorted(f.split("::")[-1] for f in fnrefs), casts), pm.loc())
        # from_linear is the record constructor
        if "model::voice::model::ModelParameter::from_linear" in fnrefs:
            ctx.ok("C04-R4", "records are built by ModelParameter::from_linear", pm.loc())
        else:
            ctx.fail("C04-R4", pm.path, "record constructor", "from_linear is not used", pm.loc())

    # ---- R5
    lm = cm.body_or_fail(ctx, p, "C04-R5", "engine::Condition::load_model")
    if lm is not None:
        eb = ExprBuilder(lm)
        want = {"stage": "GAMMA", "alpha": "ALPHA", "use_log_gain": "LN_GAIN"}
        seen = {}
        for bb, i, st, tgt, root, chain, val in stores(lm, eb):
            if not (root[0] == "arg" and root[1] == 1 and chain):
                continue
            f = chain[0]
            if f in want:
                keys = []
                vals = []
                for g in paths.guards(lm, bb, eb):
                    if g[0] == "true" and g[1][0] == "call" and g[1][1].endswith("PartialEq for str>::eq"):
                        lhs, rhs = g[1][2]
                        if rhs[0] == "s":
                            if "split_once" in show(lhs) and show(lhs).endswith(".0.0"):
                                keys.append(rhs[1])
                            elif "split_once" in show(lhs) and show(lhs).endswith(".0.1"):
                                vals.append(rhs[1])
                if f == "use_log_gain" and val[0] == "var" and isinstance(val[1], int) and not vals:
                    # `self.use_log_gain = match value { "1" => true, "0" => false, _ => return Err }`:
                    # one store of a merged temporary; each of its definitions is judged under the
                    # value comparison that dominates it
                    nd = 0
                    for dbb, didx, ditem in lm.defs().get(val[1], []):
                        if lm.is_cleanup(dbb) or didx == "term":
                            continue
                        dv = eb.at(dbb, didx).rvalue(ditem["rv"])
                        dvals = []
                        for g in paths.guards(lm, dbb, eb):
                            if g[0] == "true" and g[1][0] == "call" and g[1][1].endswith("PartialEq for str>::eq"):
                                lhs, rhs = g[1][2]
                                if rhs[0] == "s" and "split_once" in show(lhs) and show(lhs).endswith(".0.1"):
                                    dvals.append(rhs[1])
                        seen.setdefault(f, []).append((keys, dvals, dv, st))
                        nd += 1
                    if nd:
                        continue
                seen.setdefault(f, []).append((keys, vals, val, st))
            elif f == "sampling_frequency":
                if show(val).endswith("global_metadata(voices).sampling_frequency"):
                    ctx.ok("C04-R5", "sampling_frequency <- metadata.sampling_frequency", cm.loc_of(st["span"]))
                else:
                    ctx.fail("C04-R5", lm.path, "sampling_frequency", "sampling_frequency <- %s" % show(val), cm.loc_of(st["span"]))
            elif f == "fperiod":
                if show(val).endswith("global_metadata(voices).frame_period"):
                    ctx.ok("C04-R5", "fperiod <- metadata.frame_period", cm.loc_of(st["span"]))
                else:
                    ctx.fail("C04-R5", lm.path, "fperiod", "fperiod <- %s" % show(val), cm.loc_of(st["span"]))
        for f, key in want.items():
            ents = seen.get(f, [])
            if not ents:
                ctx.fail("C04-R5", lm.path, "option " + key, "no store to `%s`" % f, lm.loc())
                continue
            FORMAT_DEFAULT = {"stage": 0, "use_log_gain": False}
            for keys, vals, val, st in ents:
                if keys == [] and f in FORMAT_DEFAULT and val[0] == "c" and isinstance(val[1], bool) == isinstance(FORMAT_DEFAULT[f], bool) and val[1] == FORMAT_DEFAULT[f] \
                        and not any(g[0] == "some" for g in paths.guards(lm, [bb_ for bb_, i_, st_, *_r in stores(lm, eb) if st_ is st][0], eb)):
                    ctx.ok("C04-R5", "`%s` is reset to the format's default %s before the option line is read (a voice without the key does not inherit an earlier voice's value)" % (f, FORMAT_DEFAULT[f]), cm.loc_of(st["span"]))
                    continue
                if keys != [key]:
                    ctx.fail("C04-R5", lm.path, "option " + key, "`%s` is stored under option key(s) %s, expected %s" % (f, keys, key), cm.loc_of(st["span"]))
                    continue
                if f == "use_log_gain":
                    b_ = val[0] == "c" and val[1] in (True, False)
                    if b_ and ((vals == ["1"] and val[1] is True) or (vals == ["0"] and val[1] is False)):
                        ctx.ok("C04-R5", "LN_GAIN=%s -> use_log_gain = %s" % (vals[0], val[1]), cm.loc_of(st["span"]))
                    else:
                        ctx.fail("C04-R5", lm.path, "LN_GAIN value", "LN_GAIN value %s stores %s" % (vals, show(val)), cm.loc_of(st["span"]))
                else:
                    srcs = show(val)
                    # a local helper's merged return slot: look at every value it can carry
                    alts_ = alternatives(eb, val) if any(x[0] == "var" for x in walk(val)) else [val]
                    if alts_ and all("parse(" in show(a_) and ".0.1" in show(a_) and "split_once" in show(a_) for a_ in alts_):
                        ctx.ok("C04-R5", "%s=<v> -> %s = v.parse()" % (key, f), cm.loc_of(st["span"]))
                    else:
                        ctx.fail("C04-R5", lm.path, "option " + key, "%s <- %s, expected the parsed option value" % (f, srcs[:100]), cm.loc_of(st["span"]))
        sm = cm.local_calls(lm, p, exact="model::voice_set::VoiceSet::stream_metadata")
        if len(sm) == 1 and sm[0][1]["args"][1].get("int") == 0:
            ctx.ok("C04-R5", "options are read from stream 0 (the spectrum stream)", cm.loc_of(sm[0][1]["span"]))
        else:
            ctx.fail("C04-R5", lm.path, "option stream", "options are not read from stream 0", lm.loc())
    # a header that does not mention an option means the format's default: GAMMA=0 (mel-cepstral
    # family) and LN_GAIN=0 (linear gain).  load_model writes these fields only when the key is
    # present, so the value a freshly loaded engine has otherwise is Condition::default's
    db = cm.body_or_fail(ctx, p, "C04-R5", "<engine::Condition as std::default::Default>::default")
    if db is not None:
        ret = ExprBuilder(db).local(0)
        vals = dict(zip(ret[3], ret[2])) if ret[0] == "agg" and ret[3] else {}
        for f, want in (("stage", 0), ("use_log_gain", False)):
            v = vals.get(f)
            if v is not None and v[0] == "c" and isinstance(v[1], bool) == isinstance(want, bool) and v[1] == want:
                ctx.ok("C04-R5", "without the option: %s = %s (the format's default)" % (f, want), db.loc())
            else:
                ctx.fail("C04-R5", db.path, "default " + f, "a voice whose header does not give the option gets %s = %s, expected %s (GAMMA=0 / LN_GAIN=0 are the format's defaults)" % (f, show(v) if v is not None else None, want), db.loc())

    # ---- R6
    qp = cm.body_or_fail(ctx, p, "C04-R6", "model::voice::question::Question::parse")
    if qp is not None:
        eb = ExprBuilder(qp)
        fast = [(bb, t) for bb, t in qp.calls() if t["callee"]["k"] == "fndef" and "AllQuestion as jlabel_question::QuestionMatcher>::parse" in cm.callee_name(t["callee"])]
        rx = cm.local_calls(qp, p, exact="model::voice::question::RegexWrap::parse")
        okk = len(fast) == 1 and len(rx) == 1
        if okk:
            fb, ft = fast[0]
            rb, rt = rx[0]
            gs = paths.guards(qp, rb, eb)
            on_err = any(g[0] == "err" and "AllQuestion" in show(g[1]) for g in gs)
            # ... on *every* error of the fast matcher: whatever it cannot express is matched as
            # wildcards, so no test on the kind of error may stand between (seed C04j: only three
            # error kinds fell back, valid questions failed the load)
            further = [g for g in gs if not (g[0] == "err" and "AllQuestion" in show(g[1]))]
            if further:
                on_err = False
            # (a test of the error's kind whose arms share a block leaves no dominating guard: as a
            # path rule - from the Err edge no return is reachable around the regex parse)
            rets_ = [bb_ for bb_ in range(len(qp.blocks)) if not qp.is_cleanup(bb_) and qp.term(bb_).get("k") == "return"]
            for sb_, g_, tg_ in paths.switch_outcomes(qp, eb):
                if g_[0] == "err" and "AllQuestion" in show(g_[1]) and sb_ in qp.dominators().get(rb, ()):
                    if any(qp.can_reach(tg_, r_, avoid={rb}) for r_ in rets_):
                        on_err = False
            unguarded_fast = not paths.guards(qp, fb, eb)
            okk = on_err and unguarded_fast and show(eb.at(fb).op(ft["args"][0])) == "patterns" and show(eb.at(rb).op(rt["args"][0])) == "patterns"
        variants = {}
        if not okk:
            # combinator form: AllQuestion::parse(patterns).map(Question::AllQustion)
            #                      .or_else(|_| RegexWrap::parse(patterns).map(Question::Regex))
            # (or_else runs its closure only on Err, with the Ok value passed through unchanged)
            from ..expr import resolve_upvars
            rets = [e for _bb, e, _it in paths.return_exprs(qp, eb)]
            if len(rets) == 1 and rets[0][0] == "call" and rets[0][1].endswith("Result::<T, E>::or_else") and len(rets[0][2]) == 2:
                first, clo = rets[0][2]
                fpay = first
                if first[0] == "call" and first[1].endswith("Result::<T, E>::map") and len(first[2]) == 2 and first[2][1][0] == "fn":
                    variants[first[2][1][1].rsplit("::", 1)[-1]] = show(first[2][0])
                    fpay = first[2][0]
                cb = p.bodies.get(clo[1][len("closure:"):]) if clo[0] == "agg" and str(clo[1]).startswith("closure:") else None
                if cb is not None and fpay[0] == "call" and "AllQuestion as jlabel_question::QuestionMatcher>::parse" in fpay[1] and len(fpay[2]) == 1 and show(fpay[2][0]) == "patterns" and len(fast) == 1:
                    ceb = ExprBuilder(cb)
                    crets = [resolve_upvars(p, cb, e) for _bb, e, _it in paths.return_exprs(cb, ceb)]
                    if len(crets) == 1:
                        ce = crets[0]
                        if ce[0] == "call" and ce[1].endswith("Result::<T, E>::map") and len(ce[2]) == 2 and ce[2][1][0] == "fn":
                            inner = ce[2][0]
                            if inner[0] == "call" and inner[1] == "model::voice::question::RegexWrap::parse" and len(inner[2]) == 1 and show(inner[2][0]).lstrip("*&") == "patterns":
                                variants[ce[2][1][1].rsplit("::", 1)[-1]] = show(inner)
                                okk = not paths.guards(qp, fast[0][0], eb)
        if okk:
            ctx.ok("C04-R6", "Question::parse: AllQuestion::parse(patterns) first; RegexWrap::parse(patterns) only on its Err", qp.loc())
        else:
            ctx.fail("C04-R6", qp.path, "fallback order", "the fast matcher is not tried first with the regex matcher as its error fallback", qp.loc())
        for bb, i, st in qp.iter_stmts():
            if st["k"] == "assign" and st["rv"]["k"] == "aggregate" and st["rv"]["kind"].get("def") == "model::voice::question::Question":
                v = st["rv"]["kind"]["variant"]
                variants[v] = show(eb.at(bb, i).op(st["rv"]["ops"][0]))
        # the tuple-variant constructor used as a function: RegexWrap::parse(patterns).map(Question::Regex)
        for bb, t in qp.calls():
            c = t["callee"]
            if c["k"] == "fndef" and cm.callee_name(c).endswith("Result::<T, E>::map") and len(t["args"]) == 2:
                f_ = t["args"][1]
                if f_.get("k") == "const" and str(f_.get("fn", "")).startswith("model::voice::question::Question::"):
                    variants.setdefault(f_["fn"].rsplit("::", 1)[-1], show(eb.at(bb).op(t["args"][0])))
        if "AllQuestion" in variants.get("AllQustion", "") and "RegexWrap::parse" in variants.get("Regex", ""):
            ctx.ok("C04-R6", "each variant wraps the matcher that was built for it", qp.loc())
        else:
            ctx.fail("C04-R6", qp.path, "variant payloads", "variants hold %s" % variants, qp.loc())
    qt = cm.body_or_fail(ctx, p, "C04-R6", "model::voice::question::Question::test")
    if qt is not None:
        eb = ExprBuilder(qt)
        good = 0
        for bb, e, item in paths.return_exprs(qt, eb):
            if e[0] == "call" and len(e[2]) == 2 and show(e[2][1]) == "label":
                recv = show(e[2][0])
                if "AllQuestion" in e[1] and recv == "(self as AllQustion).0":
                    good += 1
                if e[1] == "model::voice::question::RegexWrap::test" and recv == "(self as Regex).0":
                    good += 1
        if good == 2:
            ctx.ok("C04-R6", "Question::test dispatches each variant to its own matcher with the label", qt.loc())
        else:
            ctx.fail("C04-R6", qt.path, "dispatch", "Question::test does not dispatch both variants to their matchers", qt.loc())
    rw = p.body("model::voice::question::RegexWrap::test")
    if rw is not None:
        r = show(ExprBuilder(rw).local(0))
        if "RegexQuestion as jlabel_question::QuestionMatcher>::test(self.q, label)" in r:
            ctx.ok("C04-R6", "RegexWrap::test = self.q.test(label)", rw.loc())
        else:
            ctx.fail("C04-R6", rw.path, "return value", "RegexWrap::test returns %s" % r, rw.loc())

    ctx.note("not decided: that jlabel-question implements HTS `*`/`?` wildcard matching (third-party semantics); window text -> coefficient values (nom `double`); that the selected leaf is the one the tree's questions select is decided only as far as R2/R3")
    ctx.assume("serde_derive maps the i-th key of the field visitor to the i-th struct field")
    r7_ranges(ctx, p)
    r8_text_precision(ctx, p)
    r9_leaf_names(ctx, p)
    expl = ("Resolved dataflow from header fields to metadata fields, from node-line token positions to yes/no child fields and on to the "
            "tree walk, exact polynomial forms of the index bases and of the three PDF record lengths, the mean|variance|msd split of a "
            "record, the element parsers and the f32->f64 widening, control dependence of each option store on its string-literal key, "
            "and the fast-matcher-then-regex wiring.")
    return expl, ["rustc MIR", "serde_derive field order", "nom le_f32/le_u32 semantics"]
