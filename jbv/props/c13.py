"""C13 - The LSP synthesis filter realises the model spectrum (structural clauses of the LSP -> LPC step).

The statement is a magnitude-response identity (K / |A(e^jw)|^s to 0.001 neper) - numerical.  What is
in the shape of the code, and is a genuine necessary condition, is that A(z) is built from the *line
spectral frequencies* and K from the *gain*:

  R1  role separation and order in lsp2lpc: the order is len - 1, the P(z) factors use elements
      1, 3, 5, .. and the Q(z) factors elements 2, 4, 6, .. of the parameter vector, each as
      -2 cos(w); element 0 (the gain) never enters a cosine; the section counts are
      (m/2, m/2) for even and ((m+1)/2, (m-1)/2) for odd order.
  R2  the two second-order-section chains x0[i+1] = x0[i] + c[i] x1[i] + x2[i] (x2 <- x1 <- x0 in
      that order), their inputs (1 +- z^-1 for even order, 1 and 1 - z^-2 for odd order), the output
      a[k-1] = -(chainP + chainQ)/2 for k >= 1, and the final shift a[i+1] <- -a[i], a[0] <- 1.
  R3  lsp2mgc: element 0 of the result is the gain (exp of it under use_log_gain), the remaining
      coefficients are multiplied by -stage after ignorm, and converted with
      mgc2mgc(len - 1, alpha, gamma) - so 1 + gamma * sum c_k z^-k = A(z) for gamma = -1/stage.
  R4  plumbing: Stage::new gives gamma = -1/stage; both construction sites in Vocoder::synthesize pass
      (spectrum, alpha, use_log_gain, stage, gamma) in that order.

Not decided: the MGLSA filter sections (mglsa.rs), the warped frequency axis, the 0.001 neper law,
decay for well-separated frequencies.
"""
from fractions import Fraction
from ..expr import ExprBuilder, show, stores, walk, to_poly, Poly, canon
from ..loops import LoopSyms, loop_var_parts
from .. import paths
from . import common as cm
from .c05_solver import _guard_lvs, _single_lv

LSP = "vocoder::lsp::LineSpectralPairs::"


def _is_self(e):
    return e[0] == "arg" and e[1] == 1


def _tail_from(e, k):
    """is `e` the sequence self[k..] (as a slice, or self.iter().skip(k))"""
    if e[0] == "idx" and _is_self(e[1]) and e[2][0] == "agg" and e[2][1].endswith("RangeFrom::RangeFrom") and e[2][2][0][0] == "c" and e[2][2][0][1] == k:
        return True
    if e[0] == "call" and e[1].endswith("Iterator::skip") and e[2][1][0] == "c":
        n = e[2][1][1]
        if _is_self(e[2][0]) and n == k:
            return True
        if n < k and _tail_from(e[2][0], k - n):
            return True
    if k == 0 and _is_self(e):
        return True
    return False


def _coef_vector(p, b, e):
    """(first element index k) if e = tail(k).step_by(2).map(|x| -2 cos x).collect()"""
    if not (e[0] == "call" and e[1].endswith("Iterator::collect")):
        return None
    m = e[2][0]
    if not (m[0] == "call" and m[1].endswith("Iterator::map")):
        return None
    sb, clo = m[2]
    if not (sb[0] == "call" and sb[1].endswith("Iterator::step_by") and sb[2][1][0] == "c" and sb[2][1][1] == 2):
        return None
    cb = p.bodies.get(clo[1][len("closure:"):]) if clo[0] == "agg" and clo[1].startswith("closure:") else None
    if cb is None:
        return None
    r = ExprBuilder(cb).local(0)
    okc = r[0] == "bin" and r[1] == "Mul" and {show(r[2]), show(r[3])} >= {"-2.0"} and any(x[0] == "call" and x[1] == "f64::cos" and x[2][0][0] == "arg" for x in (r[2], r[3]))
    if not okc:
        return None
    for k in range(0, 4):
        if _tail_from(sb[2][0], k):
            return k
    return -1


def _coef_vector_loop(p, b, eb, l, pushes_out=None):
    """loop form of the factor vector held in local `l`:
       let mut f = Vec::new(); for w in self.iter().skip(k).step_by(2) { f.push(-2.0 * w.cos()) }
    (possibly written in a helper that was inlined).  Returns k or None."""
    # follow plain moves back to the vector that is pushed into
    v, n = l, 0
    while n < 6:
        ds = [d for d in b.defs().get(v, []) if not b.is_cleanup(d[0])]
        if len(ds) == 1 and ds[0][1] != "term" and ds[0][2]["rv"]["k"] == "use" and ds[0][2]["rv"]["op"].get("k") in ("move", "copy") and not ds[0][2]["rv"]["op"]["place"]["proj"]:
            v = ds[0][2]["rv"]["op"]["place"]["local"]
            n += 1
        else:
            break
    ds = [d for d in b.defs().get(v, []) if not b.is_cleanup(d[0])]
    if not (len(ds) == 1 and ds[0][1] == "term" and cm.callee_name(ds[0][2]["callee"]).endswith("Vec::<T>::new")):
        return None
    ks = set()
    npush = 0
    for bb, t in b.calls():
        c = t["callee"]
        if c["k"] != "fndef" or not cm.callee_name(c).endswith("Vec::<T, A>::push") or len(t["args"]) != 2:
            continue
        rl = t["args"][0]["place"]["local"] if t["args"][0].get("k") in ("move", "copy") else None
        base = [d[2]["rv"]["place"]["local"] for d in b.defs().get(rl, []) if d[1] != "term" and d[2]["rv"]["k"] == "ref"] if rl is not None else []
        if not base or base[0] != v:
            continue
        npush += 1
        val = eb.at(bb).op(t["args"][1])
        if not (val[0] == "bin" and val[1] == "Mul" and {show(val[2]), show(val[3])} >= {"-2.0"}):
            return None
        cs = [x for x in (val[2], val[3]) if x[0] == "call" and x[1] == "f64::cos"]
        if len(cs) != 1:
            return None
        el = cs[0][2][0]
        # element of self.iter().skip(k).step_by(2)
        if not (el[0] == "field" and el[2] == "0" and el[1][0] == "variant" and el[1][1][0] == "call" and "StepBy" in el[1][1][1] and el[1][1][1].endswith("::next")):
            return None
        sb = el[1][1][2][0]
        if not (sb[0] == "call" and sb[1].endswith("Iterator::step_by") and sb[2][1][0] == "c" and sb[2][1][1] == 2):
            return None
        gs = paths.guards(b, bb, eb)
        somes = [g for g in gs if g[0] != "none"]
        # own iterator's Some; exits (`none`) of earlier loops may dominate as well
        if not (len(somes) == 1 and somes[0][0] == "some" and somes[0][1] == el[1][1]):
            return None
        if pushes_out is not None:
            pushes_out.add(bb)
            pushes_out.add(show(cs[0]))
        k_ = [k for k in range(0, 4) if _tail_from(sb[2][0], k)]
        if not k_:
            return None
        ks.add(k_[0])
    if npush == 1 and len(ks) == 1:
        return ks.pop()
    return None


def r6_mglsa(ctx, p):
    """R6: one all-pole section with warped delays (dff), cascaded `stage` times (df).  Roles are
    taken from the types: x is the `&mut f64` parameter, c the GeneralizedCoefficients parameter, d
    whatever f64 sequence dff stores into by index, alpha the f64 parameter that multiplies the warp
    difference; `1 - alpha^2` may be computed in dff or handed in by df."""
    ctx.rule("C13-R6", "MGLSA section dff: y = d[0]*c[1] + sum_{t=1}^{len-2} d[t]*c[t+1] with d[t] += alpha*(d[t+1] - d[t-1]) applied first; x -= y; delay line shifted d[t] <- d[t-1] for t = len-1 down to 1; d[0] <- alpha*d[0] + (1 - alpha^2)*x; df runs dff once per section of self.d; the filter has `stage` sections of nmcp delays")
    MG = "vocoder::mglsa::MelGeneralizedLogSpectrumApproximation::"
    b = cm.body_or_fail(ctx, p, "C13-R6", MG + "dff")
    if b is None:
        return
    eb = ExprBuilder(b)
    xl = [l for l in range(1, b.argc + 1) if b.local_ty(l).replace(" ", "") == "&mutf64"]
    cl = [l for l in range(1, b.argc + 1) if "GeneralizedCoefficients" in b.local_ty(l)]
    fl = [l for l in range(1, b.argc + 1) if b.local_ty(l) == "f64"]
    if len(xl) != 1 or len(cl) != 1 or not fl:
        ctx.fail("C13-R6", b.path, "signature", "cannot identify the sample (&mut f64), coefficient and alpha parameters of dff", b.loc())
        return
    is_x = lambda e: e[0] == "arg" and e[1] == xl[0]
    is_c = lambda e: e[0] == "arg" and e[1] == cl[0]

    def atomize(e):
        if e[0] == "len" and is_c(e[1]):
            return ("sym", "LEN")
        return None
    syms = LoopSyms(atomize)
    LEN = Poly.atom(("sym", "LEN"))
    one = Poly.const(1)
    sts = stores(b, eb)
    ctx.anchor("C13-R6", "stores in dff", len(sts), 3, b.loc())
    dbase = None
    for bb, i, st, tgt, root, chain, val in sts:
        if tgt[0] == "idx" and not is_x(tgt[1]) and dbase is None:
            dbase = canon(tgt[1])
    is_d = lambda e: dbase is not None and canon(e) == dbase

    def atoms(e):
        if e[0] == "idx" and is_d(e[1]):
            return ("D", syms.poly(e[2]).key())
        if e[0] == "idx" and is_c(e[1]):
            return ("C", syms.poly(e[2]).key())
        if is_x(e):
            return ("x",)
        if e[0] == "arg" and e[1] in fl:
            return ("P", e[1])
        return syms.atomize(e)
    D = lambda pol: Poly.atom(("D", pol.key()))
    C = lambda pol: Poly.atom(("C", pol.key()))
    X = Poly.atom(("x",))
    P = lambda l: Poly.atom(("P", l))
    got = {}
    lv_w = None
    alpha_l = None
    aa_l = "?"
    for bb, i, st, tgt, root, chain, val in sts:
        loc = cm.loc_of(st["span"])
        if is_x(tgt):
            y = val[3] if val[0] == "bin" and val[1] == "Sub" and is_x(val[2]) else None
            got["x"] = (bb, y)
            continue
        if not (tgt[0] == "idx" and is_d(tgt[1])):
            ctx.fail("C13-R6", b.path, "store", "dff stores to %s" % show(tgt)[:80], loc)
            continue
        ip = syms.poly(tgt[2])
        vp = to_poly(val, atoms)
        lv = _single_lv(ip)
        if lv is not None and ip == syms.lv(lv):
            t = syms.lv(lv)
            inf = syms.info[lv]
            hit = [l for l in fl if vp == D(t) + P(l) * (D(t + one) - D(t - one))]
            if hit:
                alpha_l = hit[0]
                okr = inf["dir"] == "up" and inf["start"] == one and inf["end"] == frozenset([LEN - one])
                got["warp"] = (bb, okr, syms.describe(lv))
                lv_w = lv
            elif vp == D(t - one):
                okr = inf["dir"] == "down" and inf["start"] == one and inf["end"] == frozenset([LEN])
                got["shift"] = (bb, okr, syms.describe(lv))
            else:
                ctx.fail("C13-R6", b.path, "delay update", "d[t] <- %s is neither the warp update d[t] + alpha*(d[t+1] - d[t-1]) nor the shift d[t-1]" % vp, loc)
        elif not ip.t:
            got["d0_raw"] = (bb, vp, loc)
    if "d0_raw" in got:
        bb0, vp, loc = got["d0_raw"]
        okd = False
        if alpha_l is not None:
            A = P(alpha_l)
            if vp == A * D(Poly.const(0)) + (one - A * A) * X:
                okd, aa_l = True, None
            else:
                for l in fl:
                    if l != alpha_l and vp == A * D(Poly.const(0)) + P(l) * X:
                        okd, aa_l = True, l
        if okd:
            got["d0"] = (bb0, True)
        else:
            ctx.fail("C13-R6", b.path, "d[0]", "d[0] <- %s, expected alpha*d[0] + (1 - alpha^2)*x" % vp, loc)
    # block-copy form of the shift: d.copy_within(0..len-1, 1)
    for bb, t in b.calls():
        c = t["callee"]
        if c["k"] == "fndef" and cm.callee_name(c).endswith("::copy_within") and len(t["args"]) == 3:
            recv, rng, dst = (eb.at(bb).op(a) for a in t["args"])
            okr = is_d(recv) and rng[0] == "agg" and rng[1].endswith("Range::Range") and not syms.poly(rng[2][0]).t and syms.poly(rng[2][1]) == LEN - one and syms.poly(dst) == one
            got["shift"] = (bb, okr, "copy_within(%s, %s)" % (show(rng)[-60:], show(dst)))
    # the accumulator y
    yx = got.get("x", (None, None))[1]
    oky = False
    if yx is not None and yx[0] == "var" and isinstance(yx[1], int):
        defs = eb.def_exprs(yx[1])
        init = [d for d in defs if to_poly(d, atoms) == D(Poly.const(0)) * C(one)]
        upd = []
        for d in defs:
            if d[0] == "bin" and d[1] == "Add" and d[2] == yx:
                tp = to_poly(d[3], atoms)
                if lv_w is not None and tp == D(syms.lv(lv_w)) * C(syms.lv(lv_w) + one):
                    upd.append(d)
        oky = len(defs) == 2 and len(init) == 1 and len(upd) == 1
    if oky:
        ctx.ok("C13-R6", "y = d[0]*c[1] + sum over the warp loop of d[t]*c[t+1]; x <- x - y", b.loc())
    else:
        ctx.fail("C13-R6", b.path, "section output", "the section output is not x - (d[0]*c[1] + sum_t d[t]*c[t+1]) accumulated in the warp loop", b.loc())
    for k, what in (("warp", "warp update d[t] += alpha*(d[t+1] - d[t-1]) for t in 1..len-1"), ("shift", "delay shift d[t] <- d[t-1] for t = len-1 down to 1"), ("d0", "d[0] <- alpha*d[0] + (1 - alpha^2)*x")):
        v = got.get(k)
        if v is None:
            if not (k == "d0" and "d0_raw" in got):
                ctx.fail("C13-R6", b.path, "missing " + k, "not found: " + what, b.loc())
        elif not v[1]:
            ctx.fail("C13-R6", b.path, "range of " + k, "%s runs over `%s`: the last delay element would never be written / read" % (what, v[2] if len(v) > 2 else "?"), b.loc())
        else:
            ctx.ok("C13-R6", what, b.loc())
    # order: warp loop, x, shift, d[0]
    seq = [got.get(k, (None,))[0] for k in ("warp", "x", "shift", "d0")]
    if all(x is not None for x in seq) and all(not b.can_reach(seq[j + 1], seq[j]) or seq[j] == seq[j + 1] for j in range(3)) and all(b.can_reach(seq[j], seq[j + 1]) for j in range(3)):
        ctx.ok("C13-R6", "order: warp/accumulate, then x -= y, then the shift, then d[0]", b.loc())
    elif all(x is not None for x in seq):
        ctx.fail("C13-R6", b.path, "order", "the four steps of the section are not in the order warp, output, shift, d[0]", b.loc())
    # df: every section once, with the same sample / alpha / coefficients (and aa = 1 - alpha^2 if handed in)
    df = cm.body_or_fail(ctx, p, "C13-R6", MG + "df")
    if df is not None:
        deb = ExprBuilder(df)
        calls = cm.local_calls(df, p, exact=MG + "dff")
        good = False
        why = "dff is called %d times" % len(calls)
        if len(calls) == 1:
            cbb, ct = calls[0]
            args = {k + 1: deb.at(cbb).op(a) for k, a in enumerate(ct["args"])}
            gs = paths.guards(df, cbb, deb)
            dfx = [l for l in range(1, df.argc + 1) if df.local_ty(l).replace(" ", "") == "&mutf64"]
            dfc = [l for l in range(1, df.argc + 1) if "GeneralizedCoefficients" in df.local_ty(l)]
            dfa = [l for l in range(1, df.argc + 1) if df.local_ty(l) == "f64"]
            same = dfx and dfc and dfa and args.get(xl[0]) == ("arg", dfx[0], df.local_name(dfx[0])) and args.get(cl[0]) == ("arg", dfc[0], df.local_name(dfc[0])) \
                and alpha_l is not None and args.get(alpha_l) == ("arg", dfa[0], df.local_name(dfa[0]))
            if aa_l not in (None, "?") and same:
                al = Poly.atom(("AL",))
                same = to_poly(args.get(aa_l), lambda e: ("AL",) if e == ("arg", dfa[0], df.local_name(dfa[0])) else None) == one - al * al
                if not same:
                    why = "the value handed in for 1 - alpha^2 is %s" % show(args.get(aa_l))[:80]
            # one plain traversal of self.d: for i in 0..self.d.len() with section i, or for d in self.d.iter_mut()
            plain = False
            if len(gs) == 1 and gs[0][0] == "some":
                gsx = show(gs[0][1])
                if "Range{start: 0, end: len(self.d)}" in gsx:
                    sec = [a for k, a in args.items() if loop_var_parts(a) is not None]
                    selfd = [a for k, a in args.items() if show(a) == "self"]
                    plain = len(sec) == 1 and bool(selfd)
                elif gsx.endswith("::next(self.d)") and "IterMut" in gsx:
                    plain = any(show(a) == "(%s as Some).0" % gsx for a in args.values())
            good = bool(same) and plain
            if not plain:
                why = "the call is not in one plain loop over the sections of self.d"
        if good:
            ctx.ok("C13-R6", "df: one dff per section of self.d, with the same sample, alpha and coefficients", df.loc())
        else:
            ctx.fail("C13-R6", df.path, "cascade", "df does not run every section exactly once with the same input/alpha/coefficients (%s)" % why, df.loc())
    nw = cm.body_or_fail(ctx, p, "C13-R6", MG + "new")
    if nw is not None:
        r = ExprBuilder(nw).local(0)
        dd = r[2][r[3].index("d")] if r[0] == "agg" and r[3] and "d" in r[3] else None
        if dd is not None and dd[0] == "call" and dd[1].endswith("from_elem") and show(dd[2][1]) == "n" and dd[2][0][0] == "call" and dd[2][0][1].endswith("from_elem") and show(dd[2][0][2][1]) == "c_len":
            ctx.ok("C13-R6", "MGLSA::new(n, c_len): n sections of c_len delays", nw.loc())
        else:
            ctx.fail("C13-R6", nw.path, "delay lines", "the filter is not built as n sections of c_len delays: %s" % (show(dd)[:100] if dd else None), nw.loc())
    sn = p.body("vocoder::stage::Stage::new")
    if sn is not None:
        seb = ExprBuilder(sn)
        cs = cm.local_calls(sn, p, exact=MG + "new")
        if len(cs) == 1 and [show(seb.at(cs[0][0]).op(a)) for a in cs[0][1]["args"]] == ["stage", "nmcp"]:
            ctx.ok("C13-R6", "Stage::new builds the filter with (stage, nmcp)", sn.loc())
        else:
            ctx.fail("C13-R6", sn.path, "filter size", "Stage::new does not build the MGLSA filter with (stage sections, nmcp delays)", sn.loc())


def _is_lsp_frame_coef(e):
    """gnorm(mc2b(lsp2mgc(LineSpectralPairs::new(spectrum, self.alpha, self.use_log_gain, stage, gamma))))"""
    names = []
    x = e
    while x[0] == "call" and len(x[2]) >= 1 and len(names) < 4:
        names.append(x[1].rsplit("::", 1)[-1])
        x = x[2][0] if names[-1] != "new" else x
        if names[-1] == "new":
            break
    if names != ["gnorm", "mc2b", "lsp2mgc", "new"]:
        return False
    a = [show(y) for y in x[2]]
    return x[1] == LSP + "new" and a[:3] == ["spectrum", "self.alpha", "self.use_log_gain"] and a[3:] == ["(self.stage as NonZero).stage", "(self.stage as NonZero).gamma"]


def r7_wiring(ctx, p):
    """R7: the generalised (stage >= 1) branch of Vocoder::synthesize.  The shared wiring clauses
    (one df call with the branch's own filter / alpha / coefficients, gain, linear interpolation,
    first-frame and end-of-frame values) are the ones C06-R5 decides for stage zero; here the gain
    is b[0] itself and the frame's coefficients are gnorm(mc2b(lsp2mgc(..))) with every coefficient
    but the gain multiplied by gamma - the MGLSA sections expect gamma * b."""
    from .c06 import stage_wiring, _is_stage_field
    RULE = "C13-R7"
    ctx.rule(RULE, "generalised branch of Vocoder::synthesize: b = gnorm(mc2b(lsp2mgc(lsp))) with b[i] *= gamma for i = 1..len (first frame and every frame); per sample x = excitation * b[0], then filter.df(x, self.alpha, b), then b[i] += (b_next[i] - b[i])/fperiod for every i; afterwards b = b_next")
    vs = stage_wiring(ctx, p, RULE, "NonZero", "vocoder::mglsa::MelGeneralizedLogSpectrumApproximation::df", _is_lsp_frame_coef, False)
    if vs is None:
        return
    eb = ExprBuilder(vs)
    syms = LoopSyms(None)
    scaled = {"first": None, "frame": None}
    for bb, i, st, tgt, root, chain, val in stores(vs, eb):
        # b[i] *= gamma, written with an index or as a traversal that skips the gain
        base = rng_ok = desc = None
        if tgt[0] == "idx" and not (tgt[2][0] == "agg"):
            base = tgt[1]
            ip = syms.poly(tgt[2])
            lv = _single_lv(ip)
            rng_ok = lv is not None and ip == syms.lv(lv) and syms.info[lv]["dir"] == "up" and syms.info[lv]["start"] == Poly.const(1) and syms.info[lv]["end"] == frozenset([syms.poly(("len", base))])
            desc = syms.describe(lv) if lv is not None else "?"
        elif tgt[0] == "field" and tgt[2] == "0" and tgt[1][0] == "variant" and tgt[1][1][0] == "call" and tgt[1][1][1].endswith("::next") and "Skip" in tgt[1][1][1]:
            sk = tgt[1][1][2][0]
            if sk[0] == "call" and sk[1].endswith("Iterator::skip") and len(sk[2]) == 2:
                x_ = sk[2][0]
                while x_[0] == "call" and len(x_[2]) == 1 and x_[1].rsplit("::", 1)[-1] in ("iter_mut", "into_iter", "deref_mut", "as_mut_slice"):
                    x_ = x_[2][0]
                base = x_
                rng_ok = sk[2][1][0] == "c" and sk[2][1][1] == 1
                desc = "skip(%s)" % show(sk[2][1])
        if base is None or not (_is_stage_field(base, "coefficients", "NonZero") or _is_lsp_frame_coef(base)):
            continue
        if not (val[0] == "bin" and val[1] == "Mul" and any(canon(x) == canon(tgt) for x in (val[2], val[3]))):
            continue        # not a scaling of the element by something (the interpolation store is judged above)
        okv = any(show(x) == "(self.stage as NonZero).gamma" for x in (val[2], val[3]))
        gs_ = cm.value_guards(vs, eb, bb)
        which = "first" if any("is_first" in g and not g.startswith("not ") for g in gs_) else "frame"
        uncond = not [g for g in gs_ if "is_first" not in g]
        scaled[which] = (bool(rng_ok) and okv and uncond, cm.loc_of(st["span"]), show(val)[:80], desc)
    # closure form: b.iter_mut().skip(1).for_each(|c| *c *= gamma)
    from ..expr import resolve_upvars
    for fbb, ft in vs.calls():
        fc = ft["callee"]
        if fc["k"] != "fndef" or not cm.callee_name(fc).endswith("Iterator::for_each") or len(ft["args"]) != 2:
            continue
        recv = eb.at(fbb).op(ft["args"][0])
        clo = eb.op(ft["args"][1])
        if not (recv[0] == "call" and recv[1].endswith("Iterator::skip") and len(recv[2]) == 2 and clo[0] == "agg" and clo[1].startswith("closure:")):
            continue
        x_ = recv[2][0]
        while x_[0] == "call" and len(x_[2]) == 1 and x_[1].rsplit("::", 1)[-1] in ("iter_mut", "into_iter", "deref_mut", "as_mut_slice"):
            x_ = x_[2][0]
        if not (_is_stage_field(x_, "coefficients", "NonZero") or _is_lsp_frame_coef(x_)):
            continue
        cb = p.bodies.get(clo[1][len("closure:"):])
        if cb is None:
            continue
        ceb = ExprBuilder(cb)
        cst = [(t_, resolve_upvars(p, cb, v_), b_) for b_, i_, s_, t_, r_, c_, v_ in stores(cb, ceb) if r_[0] == "arg" and r_[1] == 2]
        okv = len(cst) == 1 and cst[0][1][0] == "bin" and cst[0][1][1] == "Mul" and any(canon(y) == canon(cst[0][0]) for y in (cst[0][1][2], cst[0][1][3])) \
            and any(show(y) == "(self.stage as NonZero).gamma" for y in (cst[0][1][2], cst[0][1][3])) and not cb.natural_loops() and not cm.value_guards(cb, ceb, cst[0][2])
        rng_ok = recv[2][1][0] == "c" and recv[2][1][1] == 1
        gs_ = cm.value_guards(vs, eb, fbb)
        which = "first" if any("is_first" in g and not g.startswith("not ") for g in gs_) else "frame"
        uncond = not [g for g in gs_ if "is_first" not in g]
        scaled[which] = (bool(rng_ok) and bool(okv) and uncond, cm.loc_of(ft["span"]), "for_each(|c| *c *= ..)", "skip(%s)" % show(recv[2][1]))
    for which, what in (("first", "first frame"), ("frame", "every frame")):
        v = scaled[which]
        if v is None:
            ctx.fail(RULE, vs.path, "gamma scaling (%s)" % what, "the coefficients 1.. are not multiplied by gamma (%s): the MGLSA sections take gamma*b, so the filter realises a different spectrum" % what, vs.loc())
        elif not v[0]:
            ctx.fail(RULE, vs.path, "gamma scaling (%s)" % what, "expected b[i] *= gamma for i in 1..len, unconditionally; found %s over `%s`" % (v[2], v[3]), v[1])
        else:
            ctx.ok(RULE, "%s: b[i] *= gamma for i in 1..len" % what, v[1])


def r5_stability(ctx, p):
    """R5: the frequencies the filter realises are the given ones unless two of them (or an edge)
    are closer than pi / (4 * len) = pi / (4 (m+1)): every store of check_lsp_stability sits behind a
    comparison against exactly that minimum, so a set that is separated by at least it is not
    touched"""
    import math
    ctx.rule("C13-R5", "check_lsp_stability leaves well-separated frequencies alone: every store is dominated by `gap < MIN`, `w1 < MIN` or `w_last > PI - MIN` with MIN = 0.25*PI/len; the stored values are w -/+ (MIN - gap)/2, MIN and PI - MIN; it is called on the LSP branch only")
    b = cm.body_or_fail(ctx, p, "C13-R5", LSP + "check_lsp_stability")
    if b is None:
        return
    eb = ExprBuilder(b)
    LENF = ("sym", "LENF")

    def atomize(e):
        if e[0] == "cast" and e[2][0] == "len" and _is_self(e[2][1]):
            return LENF
        return None

    def is_min(e):
        pol = to_poly(e, atomize)
        if len(pol.t) != 1:
            return False
        (mono, c), = pol.t.items()
        return dict(mono) == {LENF: -1} and abs(float(c) - math.pi / 4) <= 1e-15

    def is_pi_minus_min(e):
        pol = to_poly(e, atomize)
        if len(pol.t) != 2:
            return False
        got = {tuple(sorted(dict(m).items())): float(c) for m, c in pol.t.items()}
        return abs(got.get((), 0) - math.pi) <= 1e-15 and abs(got.get(((LENF, -1),), 0) + math.pi / 4) <= 1e-15
    sts = [x for x in stores(b, eb) if x[4][0] == "arg" and x[4][1] == 1]
    ctx.anchor("C13-R5", "stores to the frequencies in check_lsp_stability", len(sts), 4, b.loc())
    for bb, i, st, tgt, root, chain, val in sts:
        why = None
        for g in paths.guards(b, bb, eb):
            if g[0] not in ("true", "false"):
                continue
            pos, c = paths.bool_atoms(g)
            if c[0] != "bin" or c[1] not in ("Lt", "Le", "Gt", "Ge"):
                continue
            lo, hi = (c[2], c[3]) if c[1] in ("Lt", "Le") else (c[3], c[2])
            if not pos:
                lo, hi = hi, lo      # !(a < b)  ==  b <= a
            # now the edge says lo < hi (or <=)
            if is_min(hi):
                why = "%s below MIN" % show(lo)[-60:]
                guard = ("min", lo, hi)
            elif is_pi_minus_min(lo):
                why = "%s above PI - MIN" % show(hi)[-60:]
                guard = ("max", hi, lo)
        if why:
            ctx.ok("C13-R5", "store to %s only when %s (MIN = 0.25*PI/len)" % (show(tgt)[-50:], why), cm.loc_of(st["span"]))
            # the repaired value
            kind, x, bound = guard
            T = to_poly(tgt, atomize)
            V = to_poly(val, atomize)
            X = to_poly(x, atomize)
            B = to_poly(bound, atomize)
            half = Poly.const(Fraction(1, 2))
            okv = False
            if X == T:
                okv = V == B                       # w1 <- MIN, w_last <- PI - MIN
                form = "the bound itself"
            elif kind == "min":
                # x is the gap U - L between two neighbours; the target is one of them
                if len(T.t) == 1 and X.t.get(next(iter(T.t))) == -1:
                    okv = V == T - half * (B - X)  # lower neighbour moves down by (MIN - gap)/2
                    form = "lower neighbour - (MIN - gap)/2"
                elif len(T.t) == 1 and X.t.get(next(iter(T.t))) == 1:
                    okv = V == T + half * (B - X)  # upper neighbour moves up by (MIN - gap)/2
                    form = "upper neighbour + (MIN - gap)/2"
            if okv:
                ctx.ok("C13-R5", "repaired value of %s is %s" % (show(tgt)[-40:], form), cm.loc_of(st["span"]))
            else:
                ctx.fail("C13-R5", b.path, "repaired value", "the repair stores %s into %s; expected MIN / PI - MIN at the edges and -/+ (MIN - gap)/2 for a close pair" % (show(val)[:160], show(tgt)[-60:]), cm.loc_of(st["span"]))
        else:
            ctx.fail("C13-R5", b.path, "unguarded repair", "the frequency %s is rewritten without a dominating comparison against MIN = 0.25*PI/len (pi/(4(m+1))): frequencies that are at least that far apart would be moved, and the filter would realise a different A(z) than the one given" % show(tgt)[-80:], cm.loc_of(st["span"]))
    # the call site: only on the LSP (stage >= 1) branch, before lsp2mgc
    vs = p.body("vocoder::Vocoder::synthesize")
    if vs is not None:
        calls = cm.local_calls(vs, p, exact=LSP + "check_lsp_stability")
        conv = cm.local_calls(vs, p, exact=LSP + "lsp2mgc")
        dom = vs.dominators()
        if len(calls) == 1 and any(calls[0][0] in dom.get(cb_, ()) for cb_, _ in conv):
            ctx.ok("C13-R5", "check_lsp_stability is called once, before the per-frame lsp2mgc", cm.loc_of(calls[0][1]["span"]))
        else:
            ctx.fail("C13-R5", vs.path, "call site", "check_lsp_stability is called %d times / not before lsp2mgc" % len(calls), vs.loc())


def lsp_chain_bounds(p):
    """For the no-panic clause of C01: the two section chains of lsp2lpc index their delay vectors
    x0[i+1], x0[i], x1[i], x2[i] and the coefficient vector c[i] with i in 0..N; the vectors must be
    allocated with N + 1 elements for the *same* N the loop runs to (the P and the Q count differ
    for odd orders).  Returns [(chain start element, ok, text)] or None if the chains are not
    recognised (C13-R2 reports that)."""
    b = p.body(LSP + "lsp2lpc")
    if b is None:
        return None
    named = {}

    def hook(pl, bb):
        l = pl["local"]
        if l <= b.argc or not (b.local_name(l) or b.locals[l].get("inlined_name")):
            return None
        if l not in named:
            ds = [d for d in b.defs().get(l, []) if not b.is_cleanup(d[0])]
            named[l] = len(ds) == 1 and b.locals[l]["ty"].startswith("std::vec::Vec<f64")
        if named[l]:
            return eb.project(("var", l, b.local_name(l) or b.locals[l].get("inlined_name") or ("v%d" % l)), pl["proj"])
        return None
    eb = ExprBuilder(b, place_hook=hook)
    syms = LoopSyms(lambda e: ("sym", "LEN") if e[0] == "len" and _is_self(e[1]) else None)
    one = Poly.const(1)
    out = []
    # every indexed store / load of a named f64 vector inside a range loop
    uses = {}      # vector local -> set of (index poly)
    for bb, i, st, tgt, root, chain, val in stores(b, eb):
        for x in list(walk(tgt)) + list(walk(val)):
            if x[0] == "idx" and x[1][0] == "var" and isinstance(x[1][1], int):
                uses.setdefault(x[1][1], set()).add(syms.poly(x[2]))
    res = []
    for l, idxs in sorted(uses.items()):
        # allocation size of the vector
        size = None
        for d in b.defs().get(l, []):
            if d[1] == "term" and not b.is_cleanup(d[0]):
                e = eb.at(d[0]).call(d[2])
                if e[0] == "call" and e[1].endswith("from_elem") and len(e[2]) == 2:
                    size = syms.poly(e[2][1])
        if size is None:
            continue       # the collected coefficient vectors: judged through the chain ranges (C13-R2)
        worst = None
        okv = True
        for ip in idxs:
            # index = lv + c with lv in start..end  =>  max index = end - 1 + c  (single loop variable)
            lvs = [m_[0][0][1] for m_, c_ in ip.t.items() if len(m_) == 1 and isinstance(m_[0][0], tuple) and m_[0][0][0] == "lv" and m_[0][1] == 1 and c_ == 1]
            lv = lvs[0] if len(lvs) == 1 else None
            if lv is None:
                if not ip.t or (len(ip.t) == 1 and () in ip.t):      # a constant index
                    mx = ip
                elif len(ip.t) == 1:
                    mx = ip                            # a loop-free symbolic index such as mh1: index <= size - 1 ?
                else:
                    okv = False
                    worst = str(ip)
                    continue
            else:
                inf = syms.info.get(lv)
                ends = list(inf["end"]) if inf else []
                if not inf or len(ends) != 1:
                    okv = False
                    worst = str(ip)
                    continue
                mx = ip - syms.lv(lv) + ends[0] - one
            slack = size - one - mx
            # every atom is a usize quantity (a count, a loop variable): a polynomial whose
            # coefficients are all non-negative is itself non-negative
            if not slack.t or all(c_ >= 0 for c_ in slack.t.values()):
                continue
            okv = False
            worst = "index up to %s in a vector of %s elements" % (mx, size)
        res.append((b.local_name(l) or ("_%d" % l), okv, worst))
    return res


def gain_normalisation(ctx, p, RULE="C13-R3"):
    """gnorm / ignorm, the two gain normalisations the LSP path goes through (ignorm before the
    gamma conversion, gnorm before the MGLSA filter): with g = gamma and K = 1 + g*c0,
    gnorm: c0' = K^(1/g), ci' = ci / K;  ignorm: with k = c0^g, c0' = (k - 1)/g, ci' = ci * k;
    for g = 0: exp / ln of c0 and the other coefficients copied.  (Sweep survivors: `1.0 * gamma`,
    exp / ln dropped, `copy_from_slice(&self[0..])`.)"""
    from ..loops import loop_var_parts
    G = ("G",)
    S0 = ("S0",)

    def at(e):
        if e[0] == "call" and e[1].endswith("Generalized::gamma") and len(e[2]) == 1 and show(e[2][0]) == "self":
            return G
        if e[0] == "idx" and show(e[1]) == "self" and e[2][0] == "c" and e[2][1] == 0:
            return S0
        if e[0] == "idx" and show(e[1]) == "self" and loop_var_parts(e[2]) is not None:
            return ("SI",)
        return None
    one = Poly.const(1)
    PG, PS0, PSI = Poly.atom(G), Poly.atom(S0), Poly.atom(("SI",))
    for name in ("gnorm", "ignorm"):
        b = cm.body_or_fail(ctx, p, RULE, "vocoder::generalized::Generalized::" + name)
        if b is None:
            continue
        eb = ExprBuilder(b)
        got = {}
        for bb, i, st, tgt, root, chain, val in stores(b, eb):
            if not (tgt[0] == "idx" and show(tgt[1]) == "self"):
                continue
            br = None
            for g in paths.guards(b, bb, eb):
                if g[0] in ("true", "false"):
                    pos, c = paths.bool_atoms(g)
                    if c[0] == "bin" and c[1] in ("Ne", "Eq") and to_poly(c[2], at) == PG and c[3][0] == "c" and float(c[3][1]) == 0.0:
                        br = "nz" if (c[1] == "Ne") == pos else "z"
            if br is None:
                continue
            if tgt[2][0] == "c" and tgt[2][1] == 0:
                slot = "0"
            else:
                lv = loop_var_parts(tgt[2])
                slot = "i" if lv is not None and lv[0] == "up" and to_poly(lv[1]) == one and lv[2][0] == "len" and show(lv[2][1]) == "self" else "i?"
            ok = False
            if name == "gnorm" and br == "nz" and slot == "0":
                ok = val[0] == "call" and val[1].endswith("powf") and len(val[2]) == 2 and to_poly(val[2][0], at) == one + PG * PS0 \
                    and val[2][1][0] == "bin" and val[2][1][1] == "Div" and to_poly(val[2][1][2], at) == one and to_poly(val[2][1][3], at) == PG
            elif name == "gnorm" and br == "nz" and slot == "i":
                ok = val[0] == "bin" and val[1] == "Div" and to_poly(val[2], at) == PSI and to_poly(val[3], at) == one + PG * PS0
            elif name == "gnorm" and br == "z" and slot == "0":
                ok = val[0] == "call" and val[1].endswith("f64::exp") and to_poly(val[2][0], at) == PS0
            elif name == "ignorm" and br == "nz" and slot == "0":
                ok = val[0] == "bin" and val[1] == "Div" and to_poly(val[3], at) == PG and val[2][0] == "bin" and val[2][1] == "Sub" \
                    and val[2][3][0] == "c" and float(val[2][3][1]) == 1.0 and val[2][2][0] == "call" and val[2][2][1].endswith("powf") \
                    and to_poly(val[2][2][2][0], at) == PS0 and to_poly(val[2][2][2][1], at) == PG
            elif name == "ignorm" and br == "nz" and slot == "i":
                fs = [val[2], val[3]] if val[0] == "bin" and val[1] == "Mul" else []
                pw = [f for f in fs if f[0] == "call" and f[1].endswith("powf") and to_poly(f[2][0], at) == PS0 and to_poly(f[2][1], at) == PG]
                si = [f for f in fs if to_poly(f, at) == PSI]
                ok = len(pw) == 1 and len(si) == 1
            elif name == "ignorm" and br == "z" and slot == "0":
                ok = val[0] == "call" and val[1].endswith("f64::ln") and to_poly(val[2][0], at) == PS0
            key = (br, slot)
            got[key] = got.get(key, True) and ok
            if not ok:
                ctx.fail(RULE, b.path, "%s %s[%s]" % (name, "gamma != 0" if br == "nz" else "gamma == 0", slot), "%s stores %s <- %s, which is not the gain normalisation's form" % (name, show(tgt)[-40:], show(val)[:120]), cm.loc_of(st["span"]))
        copies = []
        for bb, t in b.calls():
            c_ = t["callee"]
            if c_["k"] == "fndef" and cm.callee_name(c_).endswith("copy_from_slice") and len(t["args"]) == 2:
                copies.append([show(eb.at(bb).op(a)) for a in t["args"]])
        okc = copies == [["self[std::ops::RangeFrom::RangeFrom{start: 1}]", "self[std::ops::RangeFrom::RangeFrom{start: 1}]"]]
        need = {("nz", "0"), ("z", "0")}
        if ("nz", "i") not in got and ("nz", "i?") not in got:
            # the per-element update is not an index loop over `target[i]` (an iterator form): the
            # element clause is not evaluated rather than guessed at
            ctx.note("%s: the per-element update is not written as an index loop; only the gain slot and the gamma = 0 copy were judged" % name)
        else:
            need = need | {("nz", "i")}
        if need <= set(k for k, v in got.items() if v) and okc:
            ctx.ok(RULE, "%s: %s" % (name, "c0' = (1 + g c0)^(1/g), ci' = ci / (1 + g c0); g = 0: exp(c0), rest copied" if name == "gnorm" else "c0' = (c0^g - 1)/g, ci' = ci * c0^g; g = 0: ln(c0), rest copied"), b.loc())
        elif all(got.get(k, True) for k in got):
            ctx.fail(RULE, b.path, name + " form", "%s is not the gain normalisation (recognised stores %s, copy of the other coefficients for gamma = 0: %s)" % (name, sorted(k for k, v in got.items() if v), copies), b.loc())


def gamma_conversion(ctx, p, RULE="C13-R3"):
    """mgc2mgc and gc2gc: the conversion of the generalised cepstrum from gamma1 to gamma2 that turns
    the LPC polynomial (gamma = -1) into the MGLSA coefficients (gamma = -1/stage).
    mgc2mgc: for equal alpha gnorm -> gc2gc(m2, gamma) -> ignorm; otherwise freqt(m2, (a2 - a1)/(1 -
    a1 a2)) first.  gc2gc: c'[0] = c[0]; for i = 1..=m2: c'[i] = c[i]*[i < len] + (g2*S2 - g1*S1)/i
    with S1 = sum_k (i-k) c[k] c'[i-k], S2 = sum_k k c[k] c'[i-k], k = 1..min(len, i), both from 0."""
    from ..loops import loop_var_parts
    MG = "vocoder::cepstrum::MelGeneralizedCepstrum::"
    m = cm.body_or_fail(ctx, p, RULE, MG + "mgc2mgc")
    if m is not None:
        meb = ExprBuilder(m)
        seen = {}
        for rbb, e, item in paths.return_exprs(m, meb):
            br = None
            for g in paths.guards(m, rbb, meb):
                if g[0] in ("true", "false"):
                    pos, c = paths.bool_atoms(g)
                    if c[0] == "bin" and c[1] in ("Eq", "Ne") and {show(c[2]), show(c[3])} == {"self.alpha", "alpha"}:
                        br = "same" if (c[1] == "Eq") == pos else "other"
            sh = show(e)
            if br == "same":
                seen[br] = sh == "vocoder::generalized::Generalized::ignorm(%sgc2gc(vocoder::generalized::Generalized::gnorm(self), m2, gamma))" % MG
            elif br == "other":
                ok = e[0] == "call" and e[1].endswith("ignorm") and e[2][0][0] == "call" and e[2][0][1] == MG + "gc2gc" and [show(x) for x in e[2][0][2][1:]] == ["m2", "gamma"]
                inner = e[2][0][2][0] if ok else None
                ok = ok and inner[0] == "call" and inner[1].endswith("gnorm") and inner[2][0][0] == "call" and inner[2][0][1].endswith("freqt")
                if ok:
                    fa = inner[2][0][2]
                    A1, A2 = Poly.atom(("A1",)), Poly.atom(("A2",))
                    at = lambda x: ("A1",) if show(x) == "self.alpha" else (("A2",) if show(x) == "alpha" else None)
                    w = fa[2]
                    ok = show(fa[0]) == "self" and show(fa[1]) == "m2" and w[0] == "bin" and w[1] == "Div" and to_poly(w[2], at) == A2 - A1 and to_poly(w[3], at) == Poly.const(1) - A1 * A2
                seen[br] = bool(ok)
        if seen.get("same") and seen.get("other"):
            ctx.ok(RULE, "mgc2mgc: equal alpha -> gnorm, gc2gc(m2, gamma), ignorm; otherwise freqt(m2, (a2 - a1)/(1 - a1*a2)) first", m.loc())
        elif set(seen) != {"same", "other"}:
            ctx.note("mgc2mgc: the two branches on `self.alpha == alpha` were not recognised in this spelling; the conversion-chain clause was not evaluated")
        else:
            ctx.fail(RULE, m.path, "conversion chain", "mgc2mgc is not gnorm -> gc2gc(m2, gamma) -> ignorm (with the relative frequency transform in front when the alphas differ): %s" % seen, m.loc())
    b = cm.body_or_fail(ctx, p, RULE, MG + "gc2gc")
    if b is None:
        return
    eb = ExprBuilder(b)
    ret = eb.local(0)
    okret = ret[0] == "agg" and ret[3] and dict(zip(ret[3], [show(x) for x in ret[2]])) == {"buffer": "std::vec::from_elem(0.0, Add(m2, 1))", "alpha": "self.alpha", "gamma": "gamma"}
    names = {d.get("name"): l for l, d in enumerate(b.locals) if d.get("name")}
    range_wrong = []

    def lv_kind(e):
        lv = loop_var_parts(e)
        if lv is None:
            return None
        d, s_, e_ = lv
        if d == "up" and to_poly(s_) == Poly.const(1) and show(e_) in ("Add(m2, 1)",):
            return "I"
        if d == "up" and show(e_) in ("m2", "Add(m2, 1)", "Add(m2, 2)", "Sub(m2, 1)") or (d == "up" and show(s_) in ("0", "1", "2") and "m2" in show(e_) and "len(" not in show(e_)):
            range_wrong.append("the output index runs %s..%s, expected 1..=m2" % (show(s_), show(e_)[:40]))
            return "I"
        if d == "up" and to_poly(s_) == Poly.const(1) and e_[0] == "call" and e_[1].rsplit("::", 1)[-1] in ("min", "max") and len(e_[2]) == 2:
            a_, b_ = e_[2]
            if {("len" if (x[0] == "len" and show(x[1]) == "self") else ("I" if lv_kind(x) == "I" else "?")) for x in (a_, b_)} == {"len", "I"}:
                if e_[1].endswith("::max"):
                    range_wrong.append("the convolution index runs to max(len, i), expected min(len, i)")
                return "K"
        return None

    def at(e):
        k = lv_kind(e)
        if k:
            return (k,)
        if e[0] == "cast" and lv_kind(e[2]):
            return (lv_kind(e[2]),)
        if e[0] == "idx" and show(e[1]) == "self":
            return ("C", to_poly(e[2], at).key())
        if e[0] == "idx" and canon(e[1]) == canon(ret):
            return ("D", to_poly(e[2], at).key())
        if show(e) == "gamma":
            return ("G2",)
        if show(e) == "self.gamma":
            return ("G1",)
        if e[0] == "var" and e[2] in ("ss1", "ss2") or (e[0] == "var" and isinstance(e[1], int) and b.local_name(e[1]) in acc_names):
            return ("ACC", b.local_name(e[1]) if isinstance(e[1], int) else e[2])
        return None
    # the two accumulators: f64 locals with one zero definition and one `acc + term` definition
    acc = {}
    acc_names = set()
    for l, d in enumerate(b.locals):
        if d.get("ty") != "f64" or l == 0 or l <= b.argc:
            continue
        ds = [x for x in b.defs().get(l, []) if not b.is_cleanup(x[0]) and x[1] != "term"]
        if len(ds) != 2:
            continue
        ex = [eb.at(x[0], x[1]).rvalue(x[2]["rv"]) for x in ds]
        zero = [x for x in ex if x[0] == "c" and float(x[1]) == 0.0]
        upd = [x for x in ex if x[0] == "bin" and x[1] in ("Add", "Sub") and x[2][0] == "var" and x[2][1] == l]
        if len(zero) == 1 and len(upd) == 1:
            acc[l] = upd[0][3] if upd[0][1] == "Add" else ("un", "Neg", upd[0][3])
            acc_names.add(b.local_name(l))
    I, K = Poly.atom(("I",)), Poly.atom(("K",))
    Ck = Poly.atom(("C", K.key()))
    Dik = Poly.atom(("D", (I - K).key()))
    kinds = {}
    wrong_acc = []
    for l, term in acc.items():
        pol = to_poly(term, at)
        if pol == (I - K) * Ck * Dik:
            kinds["S1"] = l
        elif pol == K * Ck * Dik:
            kinds["S2"] = l
        elif any(a_[0] in ("C", "D") for a_ in pol.atoms()) and not any(w_ in repr(list(pol.atoms())) for w_ in ("'call'", "'field'", "'variant'", "'var'", "'arg'")):
            # written in the clause's own terms (index loops over i and k) and still not S1 / S2
            wrong_acc.append((b.local_name(l), str(pol)[:120]))
    okacc = set(kinds) == {"S1", "S2"}
    for nm_, pol_ in wrong_acc:
        ctx.fail(RULE, b.path, "accumulator " + str(nm_), "gc2gc accumulates %s per (i, k); expected (i-k)*c[k]*c'[i-k] (S1) or k*c[k]*c'[i-k] (S2)" % pol_, b.loc())
    got = {"c0": False, "in": False, "out": False}
    wrong_store = []
    if okacc:
        S1 = Poly.atom(("ACC", b.local_name(kinds["S1"])))
        S2 = Poly.atom(("ACC", b.local_name(kinds["S2"])))
        G1, G2 = Poly.atom(("G1",)), Poly.atom(("G2",))
        Ci = Poly.atom(("C", I.key()))
        for bb, i, st, tgt, root, chain, val in stores(b, eb):
            if not (tgt[0] == "idx" and canon(tgt[1]) == canon(ret)):
                continue
            ip = to_poly(tgt[2], at)
            if ip == Poly.const(0):
                got["c0"] = show(val) == "self[0]" and not [g for g in paths.guards(b, bb, eb) if g[0] in ("true", "false", "some")]
                continue
            if ip != I:
                continue
            # one store of a merged temporary (`c[i] = match self.get(i) { Some(c) => c + r, None => r }`)
            # is judged per definition, each under the guards of its own block
            altv = [(val, bb)]
            if val[0] == "var" and isinstance(val[1], int):
                ds_ = [x for x in b.defs().get(val[1], []) if not b.is_cleanup(x[0]) and x[1] != "term"]
                if len(ds_) >= 2:
                    altv = [(eb.at(x[0], x[1]).rvalue(x[2]["rv"]), x[0]) for x in ds_]
            for v, vbb in altv:
                inside = None
                for g in paths.guards(b, vbb, eb):
                    if g[0] in ("true", "false"):
                        pos, c = paths.bool_atoms(g)
                        if c[0] == "bin" and c[1] in ("Lt", "Ge") and to_poly(c[2], at) == I and c[3][0] == "len" and show(c[3][1]) == "self":
                            inside = (c[1] == "Lt") == pos
                        elif c[0] == "bin" and c[1] in ("Gt", "Le", "Eq", "Ne") and to_poly(c[2], at) == I and c[3][0] == "len" and show(c[3][1]) == "self":
                            wrong_store.append("the own-coefficient term is selected by `i %s len`, expected `i < len`" % {"Gt": ">", "Le": "<=", "Eq": "==", "Ne": "!="}[c[1]])
                # value: [C_i +] (G2*S2 - G1*S1) / I
                num = None
                rest = Poly.const(0)
                if v[0] == "bin" and v[1] == "Add":
                    for a_, q_ in ((v[2], v[3]), (v[3], v[2])):
                        if q_[0] == "bin" and q_[1] == "Div":
                            rest, v = to_poly(a_, at), q_
                            break
                elif v[0] == "bin" and v[1] == "Sub" and v[3][0] == "bin" and v[3][1] in ("Div", "Mul") and to_poly(v[2], at) == Ci:
                    wrong_store.append("c'[i] <- c[i] - (..): the recursion term is subtracted")
                    continue
                if v[0] == "bin" and v[1] == "Mul" and any(to_poly(x_, at) == I for x_ in (v[2], v[3])) and any(to_poly(x_, at) == G2 * S2 - G1 * S1 for x_ in (v[2], v[3])):
                    wrong_store.append("c'[i] <- (g2*S2 - g1*S1) * i: multiplied by i instead of divided")
                    continue
                if v[0] == "bin" and v[1] == "Div" and to_poly(v[3], at) == I:
                    num = to_poly(v[2], at)
                if num is not None and num == G2 * S2 - G1 * S1:
                    if inside is True and rest == Ci:
                        got["in"] = True
                    elif inside is False and rest == Poly.const(0):
                        got["out"] = True
                    elif inside is not None:
                        wrong_store.append("c'[i] <- %s + (g2*S2 - g1*S1)/i on the `i %s len` side" % (rest, "<" if inside else ">="))
                elif num is not None:
                    wrong_store.append("c'[i] <- .. + (%s)/i" % str(num)[:100])
    for w_ in sorted(set(range_wrong)):
        ctx.fail(RULE, b.path, "recursion range", "gc2gc: %s" % w_, b.loc())
    if range_wrong:
        return
    for w_ in wrong_store:
        ctx.fail(RULE, b.path, "recursion value", "gc2gc stores %s; expected c[i]*[i < len] + (g2*S2 - g1*S1)/i" % w_, b.loc())
    if wrong_acc or wrong_store:
        return
    if not (okret and okacc and all(got.values())) and okret and not (okacc and got["in"] and got["out"]):
        # nothing recognisable in this spelling (no accumulators of the expected kind at all, or
        # the final store is written in a form the clause does not read): not evaluated
        ctx.note("gc2gc: recursion not recognised in this spelling (accumulators %s, stores %s); the gamma-conversion clause was not evaluated" % (sorted(kinds), {k_: bool(v_) for k_, v_ in got.items()}))
        return
    if okret and okacc and all(got.values()):
        ctx.ok(RULE, "gc2gc: c'[0] = c[0]; c'[i] = c[i]*[i < len] + (g2*S2 - g1*S1)/i, S1 = sum (i-k) c[k] c'[i-k], S2 = sum k c[k] c'[i-k], k = 1..min(len, i), i = 1..=m2, result tagged (self.alpha, gamma)", b.loc())
    else:
        ctx.fail(RULE, b.path, "gamma conversion", "gc2gc is not the generalised-cepstrum gamma conversion (result literal ok: %s, accumulators recognised: %s, stores recognised: %s)" % (bool(okret), sorted(kinds), {k_: bool(v_) for k_, v_ in got.items()}), b.loc())


def run(ctx):
    ctx.rule("C13-R1", "lsp2lpc separates gain and frequencies: order m = len - 1; P factors from elements 1,3,5,.. and Q factors from elements 2,4,6,.. each as -2 cos(w); element 0 never enters a cosine; section counts (m/2, m/2) / ((m+1)/2, (m-1)/2)")
    ctx.rule("C13-R2", "lsp2lpc recursion: x0[i+1] = x0[i] + c[i]*x1[i] + x2[i] with x2 <- x1 <- x0 for both chains, chain inputs (even: xx + xf, xx - xf; odd: xx, xx - xff), output a[k-1] = -0.5*(P chain + Q chain) for k >= 1 over k in 0..=m, then a[i+1] <- -a[i] (i descending), a[0] <- 1")
    ctx.rule("C13-R3", "lsp2mgc: coefficient 0 is the gain (exp under use_log_gain), ignorm, coefficients 1.. multiplied by -stage, mgc2mgc(len - 1, alpha, gamma)")
    ctx.rule("C13-R4", "plumbing: gamma = -1/stage in Stage::new; LineSpectralPairs::new(spectrum, alpha, use_log_gain, stage, gamma) at both construction sites")
    p = cm.program(ctx)
    one, zero = Poly.const(1), Poly.const(0)

    b = cm.body_or_fail(ctx, p, "C13-R1", LSP + "lsp2lpc")
    if b is not None:
        named = {}

        def hook(pl, bb):
            l = pl["local"]
            if l <= b.argc or not (b.local_name(l) or b.locals[l].get("inlined_name")):
                return None
            if l not in named:
                ds = [d for d in b.defs().get(l, []) if not b.is_cleanup(d[0])]
                named[l] = len(ds) == 1 and b.locals[l]["ty"].startswith("std::vec::Vec<f64")
            if named[l]:
                return eb.project(("var", l, b.local_name(l) or b.locals[l].get("inlined_name") or ("v%d" % l)), pl["proj"])
            return None
        eb = ExprBuilder(b, place_hook=hook)

        def atomize(e):
            if e[0] == "len" and _is_self(e[1]):
                return ("sym", "LEN")
            return None
        syms = LoopSyms(atomize)
        LEN = Poly.atom(("sym", "LEN"))
        M = LEN - one
        ret = eb.local(0)
        # ---- R1 (a): the order
        okm = False
        if ret[0] == "agg" and ret[3] and "buffer" in ret[3]:
            bf = ret[2][ret[3].index("buffer")]
            if bf[0] == "call" and bf[1].endswith("from_elem"):
                okm = syms.poly(bf[2][1]) == M + one
        if okm:
            ctx.ok("C13-R1", "the LPC buffer has (len - 1) + 1 coefficients: order m = len - 1 (element 0 of the input is the gain)", b.loc())
        else:
            ctx.fail("C13-R1", b.path, "order", "the LPC polynomial is not built with order len - 1: its buffer is %s (the gain term would be counted as a frequency)" % (show(bf)[:100] if ret[0] == "agg" else show(ret)[:100]), b.loc())
        # ---- R1 (b): coefficient vectors
        coef = {}
        loop_pushes = set()
        for l, d in enumerate(b.locals):
            if l > b.argc and d.get("name"):
                for e in eb.def_exprs(l):
                    k = _coef_vector(p, b, e)
                    if k is not None:
                        coef[l] = k
                if l not in coef and str(d.get("ty", "")).startswith("std::vec::Vec<f64"):
                    k = _coef_vector_loop(p, b, ExprBuilder(b), l, loop_pushes)
                    if k is not None:
                        coef[l] = k
        starts = sorted(coef.values())
        if starts == [1, 2]:
            ctx.ok("C13-R1", "P(z) factors: -2 cos of elements 1, 3, 5, ..; Q(z) factors: -2 cos of elements 2, 4, 6, .. (the gain, element 0, is not among them)", b.loc())
        else:
            ctx.fail("C13-R1", b.path, "frequency vectors", "the cosine factors are taken from the parameter vector starting at elements %s, expected 1 (odd-numbered frequencies) and 2 (even-numbered): element 0 is the gain, not a line spectral frequency" % starts, b.loc())
        # no other use of self's elements
        other = []
        for bb, t in b.calls():
            if bb in loop_pushes:
                continue
            e = eb.at(bb).call(t)
            for x in walk(e):
                if x[0] == "call" and x[1] == "f64::cos" and show(x) not in loop_pushes:
                    other.append(show(x)[:60])
        if other:
            ctx.fail("C13-R1", b.path, "cosine outside the factor vectors", "cos() applied outside the two factor vectors: %s" % other, b.loc())
        # ---- R1 (d): section counts
        tup = None
        for l, d in enumerate(b.locals):
            if d.get("ty") == "(usize, usize)":
                tup = l
        okc = False
        if tup is not None:
            vals = []
            for d in b.defs().get(tup, []):
                if d[1] == "term" or b.is_cleanup(d[0]):
                    continue
                e = eb.at(d[0], d[1]).rvalue(d[2]["rv"])
                gs = paths.guards(b, d[0], eb)
                par = None
                for g in gs:
                    if g[0] in ("true", "false"):
                        pos, c = paths.bool_atoms(g)
                        if c[0] == "bin" and c[1] == "Eq" and c[2][0] == "bin" and c[2][1] == "Rem" and syms.poly(c[2][2]) == M and show(c[2][3]) == "2" and c[3][0] == "c":
                            par = (c[3][1] == 0) == pos   # True: even branch
                if e[0] == "agg" and len(e[2]) == 2 and par is not None:
                    vals.append((par, syms.poly(e[2][0]), syms.poly(e[2][1])))
            idiv = lambda x: Poly.atom(("idiv", x.key(), Poly.const(2).key()))
            want = {(True, idiv(M), idiv(M)), (False, idiv(M + one), idiv(M - one))}
            okc = set(vals) == want
        if okc:
            ctx.ok("C13-R1", "section counts: (m/2, m/2) for even m, ((m+1)/2, (m-1)/2) for odd m, m = len - 1", b.loc())
        else:
            ctx.fail("C13-R1", b.path, "section counts", "the numbers of P / Q sections are not (m/2, m/2) | ((m+1)/2, (m-1)/2) with m = len - 1", b.loc())

        # ---- R2
        sts = stores(b, eb)
        ctx.anchor("C13-R2", "stores in lsp2lpc", len(sts), 13, b.loc())
        # classify vector stores by target variable
        chains = {}   # x0 local -> dict
        rec = []
        for bb, i, st, tgt, root, chain, val in sts:
            if root[0] == "var" and tgt[0] == "idx" and tgt[1] == root:
                rec.append((bb, i, st, root, syms.poly(tgt[2]), val))
        def vec_at(e):
            if e[0] == "idx" and e[1][0] == "var":
                return e[1], syms.poly(e[2])
            return None
        ok_chain = 0
        for bb, i, st, root, ip, val in rec:
            I = None
            if val[0] == "bin" and val[1] == "Add":
                # x0[i+1] = (x0[i] + c[i]*x1[i]) + x2[i]
                terms = []

                def flat(e):
                    if e[0] == "bin" and e[1] == "Add":
                        flat(e[2]); flat(e[3])
                    else:
                        terms.append(e)
                flat(val)
                if len(terms) == 3:
                    vs = [vec_at(t_) for t_ in terms]
                    prod = [t_ for t_ in terms if t_[0] == "bin" and t_[1] == "Mul"]
                    if len(prod) == 1 and sum(v is not None for v in vs) == 2:
                        f1, f2 = vec_at(prod[0][2]), vec_at(prod[0][3])
                        plain = [v for v in vs if v is not None]
                        x0 = [v for v in plain if v[0] == root]
                        x2 = [v for v in plain if v[0] != root]
                        if f1 and f2 and len(x0) == 1 and len(x2) == 1:
                            cvec, x1 = (f1, f2) if f1[0][1] in coef else (f2, f1)
                            idx = x0[0][1]
                            if cvec[0][1] in coef and ip == idx + one and cvec[1] == idx and x1[1] == idx and x2[0][1] == idx and x1[0] not in (root, x2[0][0]):
                                chains[root] = {"c": coef[cvec[0][1]], "x1": x1[0], "x2": x2[0][0], "bb": (bb, i), "idx": idx}
        # each chain runs over exactly its own sections: the P chain over 0..(first section count),
        # the Q chain over 0..(second section count) - for odd orders the two counts differ
        for x0, ch in chains.items():
            lv = _single_lv(ch["idx"])
            want_field = "0" if ch["c"] == 1 else "1"
            okr = False
            desc = "?"
            if lv is not None and lv in syms.info:
                inf = syms.info[lv]
                desc = syms.describe(lv)
                ends = list(inf["end"])
                if inf["dir"] == "up" and inf["start"] == zero and len(ends) == 1 and len(ends[0].t) == 1:
                    (mono, cf), = ends[0].t.items()
                    if cf == 1 and len(mono) == 1 and mono[0][1] == 1:
                        at = mono[0][0]
                        okr = isinstance(at, tuple) and at[0] == "field" and at[-1] == want_field and tup is not None and (("var", tup) == tuple(at[1][:2]) or (at[1][0] == "var" and at[1][1] in (tup, b.local_name(tup))))
            if okr:
                ctx.ok("C13-R2", "chain over elements %d, %d, .. runs over 0..(section count .%s)" % (ch["c"], ch["c"] + 2, want_field), b.loc())
            else:
                ctx.fail("C13-R2", b.path, "range of chain %d" % ch["c"], "the %s chain runs over `%s`, expected 0..(its own section count, field .%s of the (P, Q) count pair): with an odd order the two chains have different lengths, and a shared bound indexes past the shorter one or skips a section of the longer one" % ("P" if ch["c"] == 1 else "Q", desc, want_field), b.loc())
        for x0, ch in chains.items():
            # x2[i] = x1[i] then x1[i] = x0[i], after the x0 update, same index
            s2 = [(bb, i) for bb, i, st, root, ip, val in rec if root == ch["x2"] and vec_at(val) == (ch["x1"], ip) and ip == ch["idx"]]
            s1 = [(bb, i) for bb, i, st, root, ip, val in rec if root == ch["x1"] and vec_at(val) == (x0, ip) and ip == ch["idx"]]
            def before(a_, c_):
                return (a_[0] == c_[0] and a_[1] < c_[1]) or (a_[0] != c_[0] and a_[0] in b.dominators().get(c_[0], ()))
            if len(s2) == 1 and len(s1) == 1 and before(ch["bb"], s2[0]) and before(s2[0], s1[0]):
                ok_chain += 1
                ctx.ok("C13-R2", "chain over elements %d, %d, ..: x0[i+1] = x0[i] + c[i]*x1[i] + x2[i]; then x2[i] <- x1[i]; then x1[i] <- x0[i]" % (ch["c"], ch["c"] + 2), b.loc())
            else:
                ctx.fail("C13-R2", b.path, "delay update of chain %d" % ch["c"], "the section delays are not shifted as x2 <- x1 <- x0 after the output is formed", b.loc())
        if len(chains) != 2 or sorted(c["c"] for c in chains.values()) != [1, 2]:
            ctx.fail("C13-R2", b.path, "chains", "expected two second-order-section chains (P over the odd-numbered, Q over the even-numbered frequencies); recognised %d" % len(chains), b.loc())
        # output: out[k-1] = -0.5 * (x0P[mh1] + x0Q[mh2]) ; final shift and a[0] = 1
        outs = [(bb, i, st, tgt, val) for bb, i, st, tgt, root, chain, val in sts if tgt[0] == "idx" and tgt[1] == ret]
        got = {"out": False, "shift": False, "one": False}
        for bb, i, st, tgt, val in outs:
            ip = syms.poly(tgt[2])
            if val[0] == "c" and float(val[1]) == 1.0 and ip == zero:
                got["one"] = (bb, i)
            elif val[0] == "un" and val[1] == "Neg" and val[2][0] == "idx" and val[2][1] == ret:
                jp = syms.poly(val[2][2])
                J = _single_lv(jp)
                if J is not None and ip == jp + one and syms.info[J]["dir"] == "down" and syms.info[J]["start"] == zero and syms.info[J]["end"] == frozenset([M]):
                    got["shift"] = (bb, i)
            elif val[0] == "bin" and val[1] == "Mul":
                fs = [val[2], val[3]]
                cst = [f for f in fs if f[0] == "c"]
                sm = [f for f in fs if f[0] == "bin" and f[1] == "Add"]
                if cst and float(cst[0][1]) == -0.5 and sm:
                    ends = [vec_at(sm[0][2]), vec_at(sm[0][3])]
                    K = _single_lv(ip + one)
                    if all(ends) and {e_[0] for e_ in ends} == set(chains) and K is not None and syms.info[K]["start"] == zero and syms.info[K]["end"] == frozenset([M + one]) and syms.info[K]["dir"] == "up":
                        got["out"] = (bb, i)
        if all(got.values()):
            ctx.ok("C13-R2", "a[k-1] = -0.5*(P chain output + Q chain output) for k in 0..=m (k >= 1), then a[i+1] <- -a[i] for i = m-1 down to 0, a[0] <- 1", b.loc())
        else:
            ctx.fail("C13-R2", b.path, "output", "the LPC coefficients are not formed as a[k-1] = -(P+Q)/2, shifted with a sign change and completed by a[0] = 1 (recognised: %s)" % {k_: bool(v) for k_, v in got.items()}, b.loc())
        # chain inputs
        ins = {}
        ins_e = {}
        for bb, i, st, root, ip, val in rec:
            if ip == zero and root in chains:
                par = None
                for g in paths.guards(b, bb, eb):
                    if g[0] in ("true", "false"):
                        pos, c = paths.bool_atoms(g)
                        if c[0] == "bin" and c[1] == "Eq" and c[2][0] == "bin" and c[2][1] == "Rem" and c[3][0] == "c":
                            par = "odd" if ((c[3][1] == 1) == pos) else "even"
                ins[(chains[root]["c"], par)] = show(val)
                ins_e[(chains[root]["c"], par)] = (val, bb, i)
        want_in = {(1, "odd"): "xx", (2, "odd"): "Sub(xx, xff)", (1, "even"): "Add(xx, xf)", (2, "even"): "Sub(xx, xf)"}
        def canon_in(s_):
            import re as _re
            return s_
        # compare modulo the names of the three scalars: by structure
        struct = {k_: (v_.split("(")[0] if "(" in v_ else "var") for k_, v_ in ins.items()}
        wstruct = {k_: (v_.split("(")[0] if "(" in v_ else "var") for k_, v_ in want_in.items()}
        if struct == wstruct and len({ins.get((1, "even"), "a").split(", ")[-1], ins.get((2, "even"), "b").split(", ")[-1]}) == 1 and ins.get((2, "odd"), "").split(", ")[-1] != ins.get((2, "even"), "").split(", ")[-1]:
            ctx.ok("C13-R2", "chain inputs: even order x + x[-1] and x - x[-1]; odd order x and x - x[-2]", b.loc())
        else:
            ctx.fail("C13-R2", b.path, "chain inputs", "the inputs of the two chains are %s, expected even: (x + x1, x - x1), odd: (x, x - x2)" % ins, b.loc())
        # the chains are driven by a unit impulse and start at rest: x = 1 for k == 0 and 0 otherwise,
        # every delay vector is allocated as zeros, and a[k-1] is written for k >= 1 only (sweep
        # survivors: `else { 1.0 }`, `vec![1.0; ..]`, `if k >= 0`)
        def _k_test(g):
            """(holds_for_k_equal_0, holds_only_for_k_ge_1) of a guard on the output loop variable"""
            if g[0] not in ("true", "false"):
                return None
            pos, c = paths.bool_atoms(g)
            if c[0] != "bin" or c[3][0] != "c" or not isinstance(c[3][1], int) or isinstance(c[3][1], bool):
                return None
            kv = _single_lv(syms.poly(c[2]))
            if kv is None or syms.poly(c[2]) != syms.lv(kv) or syms.info[kv]["end"] != frozenset([M + one]):
                return None
            op, n = c[1], c[3][1]
            sat = lambda k_: {"Eq": k_ == n, "Ne": k_ != n, "Gt": k_ > n, "Ge": k_ >= n, "Lt": k_ < n, "Le": k_ <= n}[op] == pos
            return sat
        xin = ins_e.get((1, "odd"))
        if xin is not None and xin[0][0] == "var" and isinstance(xin[0][1], int):
            okx = True
            nd = 0
            for dbb, didx, ditem in b.defs().get(xin[0][1], []):
                if b.is_cleanup(dbb) or didx == "term":
                    continue
                dv = eb.at(dbb, didx).rvalue(ditem["rv"])
                tests = [t_ for t_ in (_k_test(g) for g in paths.guards(b, dbb, eb)) if t_ is not None]
                nd += 1
                try:
                    cv = float(dv[1]) if dv[0] == "c" else None
                except (TypeError, ValueError):
                    cv = None
                if cv is None or not tests:
                    okx = False
                    continue
                at0 = all(t_(0) for t_ in tests)
                later = all(t_(1) for t_ in tests) or all(t_(2) for t_ in tests)
                if at0 and not later and cv == 1.0:
                    continue
                if later and not at0 and cv == 0.0:
                    continue
                okx = False
            if okx and nd == 2:
                ctx.ok("C13-R2", "the chains are driven by a unit impulse: x = 1 for k == 0, 0 afterwards", b.loc())
            else:
                ctx.fail("C13-R2", b.path, "impulse input", "the input of the section chains is not the unit impulse (1 for k == 0, 0 otherwise): the coefficients of A(z) are its impulse response", b.loc())
        nz = []
        for bb_, t_ in b.calls():
            c_ = t_["callee"]
            if c_["k"] == "fndef" and cm.callee_name(c_).endswith("from_elem") and len(t_["args"]) == 2:
                a0_ = eb.at(bb_).op(t_["args"][0])
                if a0_[0] == "c":
                    try:
                        if float(a0_[1]) != 0.0:
                            nz.append(cm.loc_of(t_["span"]))
                    except (TypeError, ValueError):
                        pass
        if nz:
            ctx.fail("C13-R2", b.path, "initial state", "a delay / coefficient vector of lsp2lpc is allocated with a non-zero fill (%s): the section chains have to start at rest" % ", ".join(nz), b.loc())
        else:
            ctx.ok("C13-R2", "every vector of lsp2lpc is allocated as zeros (the chains start at rest)", b.loc())
        if got.get("out"):
            obb = got["out"][0]
            tests = [t_ for t_ in (_k_test(g) for g in paths.guards(b, obb, eb)) if t_ is not None]
            if tests and not all(t_(0) for t_ in tests) and all(t_(1) for t_ in tests) and all(t_(5) for t_ in tests):
                ctx.ok("C13-R2", "a[k-1] is written for k >= 1 only", b.loc())
            else:
                ctx.fail("C13-R2", b.path, "output guard", "the store a[k-1] is not restricted to k >= 1: for k = 0 the index k - 1 wraps (a panic in a checked build)", b.loc())
        # what the two delayed inputs hold: x1 <- x after its last use of the iteration, and (odd
        # order) x2 <- x1 *before* that, so that x2 is the input of two samples ago
        def _var_of(e):
            return e[3][1] if e[0] == "bin" and e[3][0] == "var" and isinstance(e[3][1], int) else None
        v1 = _var_of(ins_e[(2, "even")][0]) if (2, "even") in ins_e else None
        v2 = _var_of(ins_e[(2, "odd")][0]) if (2, "odd") in ins_e else None
        xin = ins_e[(1, "odd")][0] if (1, "odd") in ins_e else None
        if v1 is not None and v2 is not None and xin is not None and v1 != v2:
            def loop_defs(l):
                return [d for d in b.defs().get(l, []) if not b.is_cleanup(d[0]) and d[1] != "term" and any(g[0] == "some" for g in paths.guards(b, d[0], eb))]
            def init_zero(l):
                ds = [d for d in b.defs().get(l, []) if not b.is_cleanup(d[0]) and d not in loop_defs(l)]
                return len(ds) == 1 and ds[0][1] != "term" and eb.at(ds[0][0], ds[0][1]).rvalue(ds[0][2]["rv"])[0] == "c" and float(eb.at(ds[0][0], ds[0][1]).rvalue(ds[0][2]["rv"])[1]) == 0.0
            # "a happens before c in the same iteration": c is reachable from a without going
            # round the sample loop (its header is the outermost loop around the inputs)
            ibb_ = ins_e[(1, "odd")][1]
            lps_ = [(h_, bd_) for h_, bd_ in b.natural_loops() if ibb_ in bd_]
            hdr_ = max(lps_, key=lambda x_: len(x_[1]))[0] if lps_ else None

            def before(a_, c_):
                if a_[0] == c_[0]:
                    return a_[1] < c_[1]
                return b.can_reach(a_[0], c_[0], avoid=({hdr_} if hdr_ is not None else ()))
            d1s, d2s = loop_defs(v1), loop_defs(v2)
            okd = bool(d1s) and bool(d2s) and init_zero(v1) and init_zero(v2)
            why = "missing update or non-zero start"
            if okd:
                for d in d1s:
                    if eb.at(d[0], d[1]).rvalue(d[2]["rv"]) != xin:
                        okd, why = False, "x1 <- %s, expected the current input" % show(eb.at(d[0], d[1]).rvalue(d[2]["rv"]))[:40]
                for d in d2s:
                    if eb.at(d[0], d[1]).rvalue(d[2]["rv"]) != ("var", v1, b.local_name(v1)):
                        okd, why = False, "x2 <- %s, expected x1" % show(eb.at(d[0], d[1]).rvalue(d[2]["rv"]))[:40]
            if okd:
                # every x2 update reads x1 before x1 is overwritten on its path (the read point is
                # where the value is loaded - for `(x2, x1) = (x1, x)` that is the tuple's construction)
                def read_point(d):
                    bb_, i_, st_ = d
                    n_ = 0
                    while n_ < 6:
                        n_ += 1
                        rv_ = st_["rv"]
                        if rv_["k"] != "use" or rv_["op"].get("k") not in ("copy", "move"):
                            break
                        l_ = rv_["op"]["place"]["local"]
                        if l_ == v1:
                            break
                        ds_ = [x for x in b.defs().get(l_, []) if not b.is_cleanup(x[0]) and x[1] != "term"]
                        if len(ds_) != 1:
                            break
                        bb_, i_, st_ = ds_[0]
                    return (bb_, i_)
                for d2 in d2s:
                    rp = read_point(d2)
                    fol = [d1 for d1 in d1s if before(rp, (d1[0], d1[1]))]
                    pre = [d1 for d1 in d1s if before((d1[0], d1[1]), rp)]
                    if pre or not fol:
                        okd, why = False, "x2 <- x1 runs after x1 <- x: x2 then holds the previous input, not the one before it"
                # the updates come after the inputs were formed
                for key in ((1, "odd"), (2, "odd"), (1, "even"), (2, "even")):
                    if key in ins_e:
                        _, ibb, ii = ins_e[key]
                        for d in d1s + d2s:
                            if before((d[0], d[1]), (ibb, ii)):
                                okd, why = False, "a delayed input is overwritten before the chain inputs of the iteration are formed"
                # odd order updates both, even order at least x1
                def under(d, parity):
                    for g in paths.guards(b, d[0], eb):
                        if g[0] in ("true", "false"):
                            pos, c = paths.bool_atoms(g)
                            if c[0] == "bin" and c[1] == "Eq" and c[2][0] == "bin" and c[2][1] == "Rem" and c[3][0] == "c":
                                return ("odd" if ((c[3][1] == 1) == pos) else "even") == parity
                    return True
                if okd and not (any(under(d, "odd") for d in d2s) and any(under(d, "odd") for d in d1s) and any(under(d, "even") for d in d1s)):
                    okd, why = False, "a delayed input is not updated for one of the parities"
            if okd:
                ctx.ok("C13-R2", "delayed inputs: x1 <- x at the end of the iteration, x2 <- x1 before it (both from 0)", b.loc())
            else:
                ctx.fail("C13-R2", b.path, "delayed inputs", "the delayed inputs x[-1] / x[-2] are not maintained as x2 <- x1, then x1 <- x after the chain inputs are formed (%s): for odd order Q(z) needs 1 - z^-2" % why, b.loc())
        elif struct == wstruct:
            ctx.fail("C13-R2", b.path, "delayed inputs", "cannot identify the two delayed-input variables of lsp2lpc", b.loc())

    # ---- R3
    g = cm.body_or_fail(ctx, p, "C13-R3", LSP + "lsp2mgc")
    if g is not None:
        eb = ExprBuilder(g)
        sts = stores(g, eb)
        gain = {}
        scale = False
        for bb, i, st, tgt, root, chain, val in sts:
            # element-wise form: for c in mgc.iter_mut().skip(1) { *c *= -(stage as f64) }
            if tgt[0] == "field" and tgt[2] == "0" and tgt[1][0] == "variant" and tgt[1][1][0] == "call" and tgt[1][1][1] == "<std::iter::Skip<I> as std::iter::Iterator>::next":
                sk = tgt[1][1][2][0]
                if sk[0] == "call" and sk[1].endswith("Iterator::skip") and sk[2][1][0] == "c" and sk[2][1][1] == 1 and "ignorm(" in show(sk[2][0]):
                    if val[0] == "bin" and val[1] == "Mul" and tgt in (val[2], val[3]) and "Neg((self.stage as f64))" in show(val):
                        scale = True
                continue
            if tgt[0] != "idx":
                continue
            if tgt[2][0] == "c" and tgt[2][1] == 0:
                pol = None
                for gd in paths.guards(g, bb, eb):
                    if gd[0] in ("true", "false") and show(gd[1]) == "self.use_log_gain":
                        pol = gd[0]
                if pol is None and val[0] == "var" and isinstance(val[1], int) and not g.local_name(val[1]):
                    # `lpc[0] = if self.use_log_gain { .. } else { .. }`: the merged temporary's definitions
                    for dbb, didx, ditem in g.defs().get(val[1], []):
                        if didx == "term" and not g.is_cleanup(dbb):
                            v2 = eb.at(dbb).call(ditem)
                        elif didx != "term" and not g.is_cleanup(dbb):
                            v2 = eb.at(dbb, didx).rvalue(ditem["rv"])
                        else:
                            continue
                        p2 = None
                        for gd in paths.guards(g, dbb, eb):
                            if gd[0] in ("true", "false") and show(gd[1]) == "self.use_log_gain":
                                p2 = gd[0]
                        gain[p2] = show(v2)
                    continue
                gain[pol] = show(val)
            else:
                # lpc[i] = lpc[i] * -(stage as f64) over i in 1..len
                vs = show(val)
                from ..ledger import _range_loop_var
                r = _range_loop_var(g, eb, tgt[2])
                if val[0] == "bin" and val[1] == "Mul" and "Neg((self.stage as f64))" in vs and r and r[0][0] == "c" and r[0][1] == 1 and not r[2]:
                    scale = "ignorm(" in show(tgt[1]) and "ignorm(" in vs
        if gain == {"true": "f64::exp(self[0])", "false": "self[0]"}:
            ctx.ok("C13-R3", "coefficient 0 <- exp(self[0]) under use_log_gain, else self[0]: the gain comes from element 0 only", g.loc())
        else:
            ctx.fail("C13-R3", g.path, "gain", "the gain coefficient is set as %s" % gain, g.loc())
        if scale:
            ctx.ok("C13-R3", "after ignorm the coefficients 1.. are multiplied by -stage", g.loc())
        else:
            ctx.fail("C13-R3", g.path, "stage scaling", "coefficients 1.. are not scaled by -stage after ignorm", g.loc())
        ret = eb.at(None).local(0)
        if ret[0] == "call" and ret[1].endswith("mgc2mgc") and show(ret[2][1]) == "Sub(len(self), 1)" and show(ret[2][2]) == "self.alpha" and show(ret[2][3]) == "self.gamma" and "lsp2lpc(self)" in show(ret[2][0]):
            ctx.ok("C13-R3", "result = (scaled lsp2lpc result).mgc2mgc(len - 1, self.alpha, self.gamma)", g.loc())
        else:
            ctx.fail("C13-R3", g.path, "conversion", "lsp2mgc returns %s" % show(ret)[:160], g.loc())

    # the polynomial lsp2lpc hands over is already on the voice's warped axis: it is tagged with the
    # voice's own alpha and gamma, so that mgc2mgc(len - 1, self.alpha, self.gamma) converts the gamma
    # only and applies no second frequency transform (seed C13j tagged it with alpha 0)
    lb_ = p.body(LSP + "lsp2lpc")
    if lb_ is not None:
        leb = ExprBuilder(lb_)
        tags = []
        for bb_, i_, st_ in lb_.iter_stmts():
            if st_["k"] == "assign" and st_["rv"]["k"] == "aggregate" and str(st_["rv"]["kind"].get("def", "")).endswith("MelGeneralizedCepstrum"):
                e_ = leb.at(bb_, i_).rvalue(st_["rv"])
                if e_[0] == "agg" and e_[3]:
                    tags.append((dict(zip(e_[3], e_[2])), cm.loc_of(st_["span"])))
        ctx.anchor("C13-R3", "MelGeneralizedCepstrum literals in lsp2lpc", len(tags), 1, lb_.loc())
        for vals_, loc_ in tags:
            a_, g_ = vals_.get("alpha"), vals_.get("gamma")
            if a_ is not None and g_ is not None and show(a_) == "self.alpha" and show(g_) == "self.gamma":
                ctx.ok("C13-R3", "lsp2lpc tags its polynomial with the voice's own alpha and gamma (mgc2mgc then applies no second warp)", loc_)
            else:
                ctx.fail("C13-R3", lb_.path, "alpha / gamma tag", "lsp2lpc tags its polynomial with alpha = %s, gamma = %s instead of self.alpha / self.gamma: mgc2mgc(len - 1, self.alpha, self.gamma) then warps (or gamma-converts) coefficients that already are on the voice's axis" % (show(a_) if a_ is not None else None, show(g_) if g_ is not None else None), loc_)

    gain_normalisation(ctx, p)
    gamma_conversion(ctx, p)

    # ---- R4
    sn = cm.body_or_fail(ctx, p, "C13-R4", "vocoder::stage::Stage::new")
    if sn is not None:
        txt = " ".join(show(e)[:4000] for e in ExprBuilder(sn).def_exprs(0))
        if "Div(-1.0, (stage as f64))" in txt or "Div(Neg(1.0), (stage as f64))" in txt:
            ctx.ok("C13-R4", "Stage::new: gamma = -1 / stage", sn.loc())
        else:
            ctx.fail("C13-R4", sn.path, "gamma", "gamma is not -1/stage in Stage::new", sn.loc())
    vs = cm.body_or_fail(ctx, p, "C13-R4", "vocoder::Vocoder::synthesize")
    if vs is not None:
        eb = ExprBuilder(vs)
        sites = cm.local_calls(vs, p, exact=LSP + "new")
        ctx.anchor("C13-R4", "LineSpectralPairs::new call sites", len(sites), 2, vs.loc())
        for bb, t in sites:
            a = [show(eb.at(bb).op(x)) for x in t["args"]]
            if a[0] == "spectrum" and a[1] == "self.alpha" and a[2] == "self.use_log_gain" and a[3].endswith("stage") and a[4].endswith("gamma") and "self.stage" in a[3] and "self.stage" in a[4]:
                ctx.ok("C13-R4", "LineSpectralPairs::new(spectrum, self.alpha, self.use_log_gain, stage, gamma) with stage/gamma of the NonZero stage", cm.loc_of(t["span"]))
            else:
                ctx.fail("C13-R4", vs.path, "constructor arguments", "LineSpectralPairs::new receives %s" % a, cm.loc_of(t["span"]))
        # the filter coefficients of a frame: gnorm(mc2b(lsp2mgc(lsp))) - warping removal (mc2b) first,
        # gain normalisation on the b-coefficients second - at the first-frame initialisation and per frame
        chains = []
        for bb, t in vs.calls():
            c = t["callee"]
            if c["k"] == "fndef" and cm.callee_name(c).endswith("Generalized::gnorm"):
                chains.append((bb, t, eb.at(bb).op(t["args"][0])))
        outer = []
        for bb, t, inner in chains:
            nest = []
            x = ("call", "gnorm", (inner,))
            n_ = 0
            while x[0] == "call" and n_ < 8:
                nest.append(x[1].rsplit("::", 1)[-1])
                x = x[2][0] if x[2] else ("?",)
                n_ += 1
            outer.append((bb, t, nest))
        good = [o for o in outer if o[2][:3] == ["gnorm", "mc2b", "lsp2mgc"]]
        # a chain that feeds another conversion (mc2b(gnorm(..))) shows up as gnorm over lsp2mgc directly
        if len(outer) >= 2 and len(good) == len(outer):
            ctx.ok("C13-R4", "filter coefficients = gnorm(mc2b(lsp2mgc(lsp))) at all %d conversion sites" % len(outer), vs.loc())
        else:
            for bb, t, nest in outer:
                if nest[:3] != ["gnorm", "mc2b", "lsp2mgc"]:
                    ctx.fail("C13-R4", vs.path, "conversion order", "the LSP frame is converted as %s, expected gnorm(mc2b(lsp2mgc(..))): gain normalisation has to act on the b-coefficients, after the warping step" % "(".join(nest[:4]), cm.loc_of(t["span"]))
            if len(outer) < 2:
                ctx.fail("C13-R4", vs.path, "conversion sites", "expected the gnorm(mc2b(lsp2mgc(..))) conversion at the first-frame initialisation and per frame, found %d gnorm call(s)" % len(outer), vs.loc())
    ctx.note("not decided: the 0.001 neper law, decay for well-separated frequencies (numerical)")
    r5_stability(ctx, p)
    r6_mglsa(ctx, p)
    r7_wiring(ctx, p)
    expl = ("Structural clauses of the LSP -> LPC -> MGC conversion: role separation of gain and line spectral frequencies and the order "
            "(the defect of the pinned tree), the second-order-section recursion as index polynomials, the gain / stage scaling / conversion "
            "call, and the stage-gamma plumbing. Necessary conditions of C13; the magnitude-response identity itself is numerical.")
    return expl, ["rustc MIR"]
