"""C01 - Synthesis is total and frame-exact (structural clauses; see DESIGN.md §5 C01)."""
import re

from .. import ledger, paths
from ..expr import ExprBuilder, show, walk, to_poly, Poly, canon, is_const, root_of
from . import common as cm
from . import c08
from .c18 import const_small

SG = "speech::SpeechGenerator::"
DE = "duration::DurationEstimator::"
GEN = "engine::Engine::generator"
MA = "mlpg_adjust::MlpgAdjust::<'a>::"

K_SITE_FLOOR = 35

# ---- T2 audited explicit-panic sites in K: key -> (shape regex on the expression, reason)
T2 = {
    "index|%screate_with_alignment|Vec::index|0" % DE:
        (r"self\.parameters, .*Range\{start: %1, end: Add\(%2, self\.nstate\)", "times.len() == labels.len() (Labels::new rejects a mismatch) and the duration model yields nstate Gaussians per label (record length num_states*2), so state+nstate <= parameters.len(); next_state <= state"),
    "index|%screate_with_alignment|Vec::index|1" % DE:
        (r"self\.parameters, .*Range\{start: %1, end: Add\(%2, self\.nstate\)", "same range as the fitted group"),
    "arith-api|%screate|sum|0" % DE:
        (r"sum\(", "sum of per-state frame counts; overflow would need more frames than memory can hold (each frame allocates)"),
    "arith-api|%screate_with_alignment|sum|0" % DE:
        (r"sum\(", "sum of per-state frame counts of one group"),
    "arith-api|%sestimate_duration_with_frame_length|sum|0" % DE:
        (r"sum\(", "sum of per-state frame counts"),
    "unwrap|%sestimate_duration_with_frame_length|Option::unwrap|0" % DE:
        (r"min_by\(.*zip\(|^Option::unwrap\(%1\)\s*$", "the duration vector is non-empty here (is_empty() returned false on the dominating edge), so the search over all states (a min_by chain, or a hand-written loop leaving its result in a local) finds one",
         [r"^false: .*is_empty\((duration::DurationEstimator::estimate_duration\(|duration_params\))"]),
    "unwrap|%sestimate_duration_with_frame_length|Option::unwrap|1" % DE:
        (r"min_by\(.*filter\(|^Option::unwrap\(%1\)\s*$", "sum > target >= number of states (target <= size returned early), so some state has more than one frame and the candidate set (filter / hand-written search, judged by C01-R3) is non-empty",
         [r"^false: Le\(.*, len\(duration_params\)\)$"]),
    "unwrap|label::Labels::load_from_strings|Option::expect|0":
        (r"splitn\(", "the first item of splitn on a fresh iterator is always Some"),
    "unwrap|mlpg_adjust::mask::Mask::fill::{closure#0}|Option::expect|0":
        (r"next\(", "`masked` is the MLPG solution whose length is the number of true mask entries (parameters were filtered by the same mask)"),
    "unwrap|model::Models::<'a>::gv::{closure#0}|Option::unwrap|0":
        (r"gv_model", "reached only when stream_metadata.use_gv; the loader builds gv_model = Some exactly when use_gv (parse_data_section)", [r"^parent true: .*stream_metadata\(self\.voices, stream_index\)\.use_gv$"]),
    "panic|model::voice::model::Model::get_parameter|panic|0":
        (r"index not found", "voice-format fact for loader-built voices: trees exist for states 2..2+nstate and convert_tree produces in-range node indices ending in leaves"),
    "index|model::voice::window::Window::iter_rev|Vec::index|0":
        (r"self\.coefficients, .*RangeFrom\{start: start\}", "start is 0 or the index of an element of the same window (callers in calc_wuw_and_wum)"),
    "unwrap|model::voice_set::VoiceSet::first|Option::unwrap|0":
        (r"first\(self\.0\)", "VoiceSet is non-empty by construction (C19-R1)"),
    "unwrap|model::voice_set::VoiceSet::weighted|Option::unwrap|0":
        (r"next\(", "first voice of a non-empty VoiceSet (C19-R1)"),
    "unwrap|model::voice_set::VoiceSet::weighted|Option::unwrap|1":
        (r"next\(weights\)", "weights have nvoices >= 1 entries (C19-R4)"),
    "index|%sgenerate_all|Vec::index_mut|0" % SG:
        (r"RangeFrom", "slice offset <= buffer length by the identities of C02-R5"),
    "panic|%sgenerate_step|panic|0" % SG:
        (r"must be larger than fperiod", "documented caller contract (buffer >= one frame); generate_all always passes >= fperiod samples by C02-R5"),
    "panic|%snew|panic|0" % SG:
        (r"must be the same", "all three trajectories have sum(durations) rows: C01-R2 (one duration vector) and the placeholder is sized by lf0.len()"),
    "panic|%snew|panic|1" % SG:
        (r"lf0 static vector must be 1", "voice-format fact: the log-F0 stream has vector length 1"),
    "divzero|vocoder::excitation::RingBuffer::<T>::get_mut_with_offset|Rem|0":
        (r"len\(self\.buffer\)", "called only from voiced_frame/unvoiced_frame, which Excitation::get reaches only under ring_buffer.len() > 0", [], [r"^true: Gt\(vocoder::excitation::RingBuffer::<T>::len\(self\.ring_buffer\), 0\)$"]),
    # (not a site of the pinned tree, where voiced_frame reads lpf[i] element by element - bounds
    # checks inside kernels are outside this ledger; a prefix slice taken up front is the same
    # obligation and is audited against the same fact)
    "index|vocoder::excitation::Excitation::voiced_frame|slice::index|0":
        (r"slice::index\(lpf, std::ops::RangeTo::RangeTo\{end: vocoder::excitation::RingBuffer::<T>::len\(self\.ring_buffer\)\}\)", "every lpf row has nlpf = ring_buffer.len() elements: Vocoder::new(nlpf) sizes the ring buffer from stream 2's vector length, and the 2-stream placeholder has nlpf = 0 with empty rows (C01-R2)"),
    "index|vocoder::excitation::Excitation::voiced_frame|slice::index|1":
        (r"slice::index\(lpf, std::ops::RangeTo::RangeTo\{end: vocoder::excitation::RingBuffer::<T>::len\(self\.ring_buffer\)\}\)", "every lpf row has nlpf = ring_buffer.len() elements (see ordinal 0)"),
    "index|vocoder::generalized::Generalized::gnorm|Vec::index_mut|3":
        (r"RangeFrom\{start: 1\}", "coefficient vectors have nmcp >= 1 elements"),
    "index|vocoder::generalized::Generalized::gnorm|Vec::index|3":
        (r"RangeFrom\{start: 1\}", "coefficient vectors have nmcp >= 1 elements"),
    "slice-api|vocoder::generalized::Generalized::gnorm|slice::copy_from_slice|0":
        (r"copy_from_slice", "target is a clone of self: equal lengths"),
    "index|vocoder::generalized::Generalized::ignorm|Vec::index_mut|3":
        (r"RangeFrom\{start: 1\}", "coefficient vectors have nmcp >= 1 elements"),
    "index|vocoder::generalized::Generalized::ignorm|Vec::index|3":
        (r"RangeFrom\{start: 1\}", "coefficient vectors have nmcp >= 1 elements"),
    "slice-api|vocoder::generalized::Generalized::ignorm|slice::copy_from_slice|0":
        (r"copy_from_slice", "target is a clone of self: equal lengths"),
    "slice-api|vocoder::lsp::LineSpectralPairs::postfilter_lsp|slice::copy_from_slice|0":
        (r"from_elem\(0\.0, len\(self\)\)", "buf is vec![0.0; self.len()]: equal lengths"),
}
EXPLICIT = ("panic", "unwrap", "divzero", "slice-api", "clamp", "arith-api")


def is_slicing(s):
    a = s.extra.get("args") or []
    return s.kind == "index" and len(a) == 2 and a[1][0] == "agg" and "Range" in a[1][1]


def t1(s):
    k = s.kind
    x = s.extra
    r0 = ledger.t1_common(s)
    if r0:
        return r0
    if ledger.is_str_slice(s):
        return None
    if k == "divzero":
        d = x.get("divisor")
        if d is not None and is_const(d) and d[1] not in (0, False):
            return "divisor is the non-zero constant %s" % d[1]
        if d is not None:
            from .c18 import const_small
            v = const_small(d)
            if v is not None and 0 < v < 2 ** 63:
                return "divisor is the constant expression %s = %d (its own overflow check is a separate site)" % (show(d)[:40], v)
    if k == "clamp":
        a = x.get("args") or []
        if len(a) == 3 and is_const(a[1]) and is_const(a[2]) and float(a[1][1]) <= float(a[2][1]):
            return "clamp bounds are constants with min <= max"
    if k == "slice-api" and s.api and "split_at" in s.api and s.fn.startswith("mlpg_adjust::mlpg::MlpgMatrix::"):
        a = x.get("args") or []
        if len(a) == 2 and show(a[0]) == "self.wuw":
            from ..ledger import _range_loop_var
            r = _range_loop_var(s.body, ExprBuilder(s.body), a[1])
            if r and show(r[1]) == "self.length" and not r[2]:
                return "split point is a loop variable of 0..self.length, and wuw has self.length rows (C01-R7)"
    if k == "slice-api" and s.api == "step_by":
        a = x.get("args") or []
        if len(a) == 2 and is_const(a[1]) and a[1][1] not in (0,):
            return "step_by(non-zero constant)"
    if k == "index":
        a = x.get("args") or []
        if len(a) == 2 and a[1][0] == "agg" and a[1][1].endswith("RangeFull::RangeFull"):
            return "full-range slice"
        if len(a) == 2 and a[1][0] == "agg" and a[1][1].endswith("RangeTo::RangeTo"):
            end = a[1][2][0]
            if end[0] == "call" and end[1].split("::")[-1] == "min" and any(y[0] == "len" and canon(y[1]) == canon(a[0]) for y in end[2]):
                return "range end is min(len(x), _)"
    return None


def fperiod_wiring(ctx, p, RULE="C01-R1"):
    # one frame period for everybody: the generator sizes its buffer with the frame period it is
    # given and the vocoder writes that many samples per frame with the one *it* is given - both
    # (and the sampling rate of the vocoder) must be the condition's current values, not the
    # voice's own metadata (which is only their default)
    gen = cm.body_or_fail(ctx, p, RULE, "engine::Engine::generator")
    if gen is not None:
        ebg = ExprBuilder(gen)
        nfp = 0
        for bb, t in gen.calls():
            c = t["callee"]
            if c["k"] != "fndef":
                continue
            tgt = p.bodies.get(c.get("resolved") or c["def"])
            if tgt is None:
                continue
            for i, a in enumerate(t["args"]):
                pn = tgt.local_name(i + 1)
                want = {"fperiod": "fperiod", "sampling_frequency": "sampling_frequency", "rate": "sampling_frequency"}.get(pn)
                if want is None:
                    continue
                nfp += 1
                got = show(ebg.at(bb).op(a))
                if got == "self.condition." + want:
                    ctx.ok(RULE, "Engine::generator passes condition.%s to %s" % (want, cm.short(tgt.path)), cm.loc_of(t["span"]))
                else:
                    ctx.fail(RULE, gen.path, "%s of %s" % (pn, cm.short(tgt.path)),
                             "%s receives `%s` as its %s instead of the condition's current value: an override of the frame period / sampling rate would reach only part of the pipeline (buffer sized with one period, frames written with another)" % (cm.short(tgt.path), got[:120], pn), cm.loc_of(t["span"]))
        ctx.anchor(RULE, "fperiod / sampling_frequency arguments in Engine::generator", nfp, 3, gen.loc())


def run(ctx):
    ctx.rule("C01-R1", "length law: generate_all allocates (len(lf0) - next@entry) * fperiod samples and a fresh generator has next = 0; MlpgAdjust::create returns one row per mask entry, the mask being the per-state flags expanded by `durations` (IterExt::duration repeats each item `duration` times)")
    ctx.rule("C01-R2", "one shared duration vector: every MlpgAdjust::create call in Engine::generator receives the same `durations`; the 2-stream LPF placeholder has lf0.len() rows")
    ctx.rule("C01-R3", "one-frame floor: every usize that can enter a returned duration vector is >= 1")
    ctx.rule("C01-R4", "every label contributes all states: Models::duration/stream map over labels.iter() without skip/take/step_by/filter; stream covers states 2..2+num_states")
    ctx.rule("C01-R5", "optional third stream: every use of constant stream index 2 in the synthesis closure is control dependent on num_streams > 2")
    ctx.rule("C01-R7", "shape agreement of the MLPG band matrix: every row of `wuw` is allocated with exactly the value stored in the `width` field (which bounds all band indices), there are `length` rows and `wum` has `length` entries, `length` being the frame count of the filtered parameters")
    ctx.rule("C01-R6", "explicit-panic ledger over K (panic!/todo!/unwrap/expect/range slicing/integer division/precondition APIs): each site T1 or T2; SpeechGenerator::new's panics are discharged against how Engine::generator builds its arguments")
    p = cm.program(ctx)
    cg = cm.callgraph(p)
    K, roots = cm.synth_closure(ctx, p, cg)
    ctx.units["K"] = len(K)

    g = cm.body_or_fail(ctx, p, "C01-R2", GEN)
    ga = cm.body_or_fail(ctx, p, "C01-R1", SG + "generate_all")

    # ---- R1
    if ga is not None:
        eb = ExprBuilder(ga)
        allocs = [t for bb, t in ga.calls() if t["callee"]["k"] == "fndef" and cm.callee_name(t["callee"]).endswith("from_elem")]
        okb = False
        for t in allocs:
            a = eb.op(t["args"][1])
            # a.saturating_sub(b) is a - b wherever a - b does not underflow (where the plain
            # subtraction of the pinned tree would have panicked it is 0: more total, same value)
            from ..loops import rewrite as _rw
            a = _rw(a, lambda n: ("bin", "Sub", n[2][0], n[2][1]) if n[0] == "call" and n[1].endswith("saturating_sub") and len(n[2]) == 2 else None)
            pol = to_poly(a)
            L = Poly.atom(("len", canon(("field", ("arg", 1, "self"), "lf0"))))
            nx = Poly.atom(canon(("field", ("arg", 1, "self"), "next")))
            f = Poly.atom(canon(("field", ("arg", 1, "self"), "fperiod")))
            # `start` variable = self.next read before the loop: resolved by reaching defs
            if pol == (L - nx) * f:
                okb = True
        if okb:
            ctx.ok("C01-R1", "generate_all: buffer = (len(lf0) - next) * fperiod samples", ga.loc())
        else:
            ctx.fail("C01-R1", ga.path, "buffer size", "the output buffer is not (len(lf0) - next) * fperiod: %s" % [show(eb.op(t["args"][1])) for t in allocs], ga.loc())
    nb = p.body(SG + "new")
    if nb is not None:
        rets = [e for bb, e, item in paths.return_exprs(nb)]
        if any(e[0] == "agg" and "next" in e[3] and e[2][e[3].index("next")][0] == "c" and e[2][e[3].index("next")][1] == 0 for e in rets):
            ctx.ok("C01-R1", "a fresh generator has next = 0, so synthesize() returns len(lf0) * fperiod samples", nb.loc())
        else:
            ctx.fail("C01-R1", nb.path, "next", "fresh generator does not start at frame 0", nb.loc())
        # lf0 field <- lf0 parameter
        for e in rets:
            if e[0] == "agg":
                for fld in ("spectrum", "lf0", "lpf", "fperiod"):
                    v = e[2][e[3].index(fld)] if fld in e[3] else None
                    if v is not None and v[0] == "arg" and v[2] == fld:
                        ctx.ok("C01-R1", "SpeechGenerator::new stores parameter `%s` in field `%s`" % (fld, fld), nb.loc())
                    else:
                        ctx.fail("C01-R1", nb.path, "field " + fld, "field %s is initialised with %s" % (fld, show(v) if v else None), nb.loc())
    fperiod_wiring(ctx, p)
    cr = cm.body_or_fail(ctx, p, "C01-R1", MA + "create")
    if cr is not None:
        eb = ExprBuilder(cr)
        ret = eb.local(0)
        rets = list(eb.expand_all(("var", 0, None)))
        rows = [x for x in rets if x[0] == "call" and x[1].endswith("from_elem") and x[2][0][0] == "call" and x[2][0][1].endswith("from_elem")]
        okr = False
        for x in rows:
            n = show(x[2][1])
            if n.startswith("len(mlpg_adjust::mask::Mask::mask(mlpg_adjust::mask::Mask::create(self.stream, self.msd_threshold, durations)"):
                okr = True
        if okr:
            ctx.ok("C01-R1", "MlpgAdjust::create returns len(mask) rows, mask = Mask::create(self.stream, threshold, durations)", cr.loc())
        else:
            ctx.fail("C01-R1", cr.path, "row count", "the trajectory does not have one row per mask entry: %s" % [show(x)[:120] for x in rows], cr.loc())
    mc = cm.body_or_fail(ctx, p, "C01-R1", "mlpg_adjust::mask::Mask::create")
    if mc is not None:
        from ..expr import builder_with_collect_loops
        ret = show(builder_with_collect_loops(mc).local(0))
        from .c11 import mask_loop_form
        if "IterExt>::duration(std::iter::Iterator::map(stream" in ret and ret.count("durations") == 1 and "collect" in ret:
            ctx.ok("C01-R1", "Mask::create = collect(duration(map(stream.iter(), flag), durations))", mc.loc())
        elif mask_loop_form(mc)[0]:
            ctx.ok("C01-R1", "Mask::create pushes one flag per frame: for every state of stream.zip(durations), `duration` times (loop form)", mc.loc())
        else:
            ctx.fail("C01-R1", mc.path, "mask expansion", "mask is %s" % ret[:200], mc.loc())
    du = cm.body_or_fail(ctx, p, "C01-R1", "<I as mlpg_adjust::IterExt>::duration")
    if du is not None:
        ret = ExprBuilder(du).local(0)
        okd = False
        if ret[0] == "call" and ret[1].endswith("Iterator::flat_map"):
            z = ret[2][0]
            if z[0] == "call" and z[1].endswith("Iterator::zip") and show(z[2][0]) == "self" and show(z[2][1]) == "durations":
                cb = c08.closure_body(p, ret)
                if cb is not None:
                    r = ExprBuilder(cb).local(0)
                    # take(repeat(item), *duration) with (item, duration) the pair components
                    if r[0] == "call" and r[1].endswith("Iterator::take") and r[2][0][0] == "call" and r[2][0][1].endswith("iter::repeat"):
                        item = r[2][0][2][0]
                        cnt = r[2][1]
                        if item[0] == "field" and item[2] == "0" and cnt[0] == "field" and cnt[2] == "1" and canon(item[1]) == canon(cnt[1]):
                            okd = True
        if okd:
            ctx.ok("C01-R1", "IterExt::duration repeats item i exactly durations[i] times (zip + flat_map(repeat.take))", du.loc())
        else:
            ctx.fail("C01-R1", du.path, "expansion", "duration() is not zip(durations).flat_map(|(item, d)| repeat(item).take(*d)): %s" % show(ret)[:200], du.loc())

    # ---- R2
    if g is not None:
        eb = ExprBuilder(g)
        creates = cm.local_calls(g, p, exact=MA + "create")
        ctx.anchor("C01-R2", "MlpgAdjust::create call sites", len(creates), 3, g.loc())
        dl = set()
        for bb, t in creates:
            a = t["args"][1]
            e = eb.at(bb).op(a)
            if e[0] == "var":
                dl.add(e[1])
            else:
                dl.add(show(e))
        if len(dl) == 1 and isinstance(next(iter(dl)), int):
            l = next(iter(dl))
            defs = [d for d in g.defs().get(l, []) if not g.is_cleanup(d[0])]
            srcs = set()
            for d in defs:
                if d[1] == "term" and d[2]["callee"]["k"] == "fndef":
                    srcs.add(cm.callee_name(d[2]["callee"]))
            first_create = min(bb for bb, t in creates)
            redefined = any(g.can_reach(bb, d[0]) for bb, t in creates for d in defs)
            if srcs <= {DE + "create", DE + "create_with_alignment"} and srcs and not redefined:
                ctx.ok("C01-R2", "all %d create() calls receive the one `durations` value produced by %s" % (len(creates), sorted(s.split("::")[-1] for s in srcs)), g.loc())
            else:
                ctx.fail("C01-R2", g.path, "durations", "the duration vector comes from %s%s" % (sorted(srcs), " and is redefined between the streams" if redefined else ""), g.loc())
        else:
            ctx.fail("C01-R2", g.path, "durations", "the streams are generated from different duration vectors: %s" % dl, g.loc())
        # placeholder
        okp = False
        # by role: the low-pass trajectory is the argument SpeechGenerator::new receives in its
        # `lpf` parameter; without an LPF stream it is a vector of lf0.len() empty rows
        from ..expr import alternatives
        sgn = p.bodies.get(SG + "new")
        for sbb, stt in cm.local_calls(g, p, exact=SG + "new"):
            names = [sgn.local_name(i + 1) for i in range(len(stt["args"]))] if sgn is not None else []
            if "lpf" not in names or "lf0" not in names:
                continue
            lpf_e = eb.at(sbb).op(stt["args"][names.index("lpf")])
            lf0_e = eb.at(sbb).op(stt["args"][names.index("lf0")])
            for x in alternatives(eb, lpf_e):
                if x[0] == "call" and x[1].endswith("from_elem") and len(x[2]) == 2:
                    row, n = x[2]
                    empty = (row[0] == "call" and row[1].endswith("from_elem") and row[2][1][0] == "c" and row[2][1][1] == 0) or \
                            (row[0] == "call" and row[1].endswith("Vec::<T>::new"))
                    if empty and n[0] == "len" and canon(n[1]) == canon(lf0_e) and "MlpgAdjust" in show(n) and "create" in show(n):
                        okp = True
        if okp:
            ctx.ok("C01-R2", "2-stream voices: LPF placeholder has lf0.len() rows", g.loc())
        else:
            ctx.fail("C01-R2", g.path, "LPF placeholder", "the LPF placeholder is not sized by the lf0 trajectory", g.loc())

    # ---- R3
    ed = p.body(DE + "estimate_duration")
    if ed is not None:
        cb = c08.closure_body(p, ExprBuilder(ed).local(0))
        if cb is not None:
            c08.floor_form(ctx, p, "C01-R3", cb)
    fl = p.body(DE + "estimate_duration_with_frame_length")
    if fl is not None:
        eb = ExprBuilder(fl)
        for bb, e, item in paths.return_exprs(fl, eb):
            if e[0] == "call" and e[1].endswith("from_elem"):
                if e[2][0][0] == "c" and e[2][0][1] >= 1:
                    ctx.ok("C01-R3", "fallback returns vec![%d; n]" % e[2][0][1], fl.loc())
                else:
                    ctx.fail("C01-R3", fl.path, "fallback", "fallback vector holds %s" % show(e[2][0]), fl.loc())
            elif e[0] == "call" and e[1].endswith("Vec::<T>::new"):
                ctx.ok("C01-R3", "empty input returns an empty vector", fl.loc())
            else:
                srcs = [x for x in eb.expand_all(e) if x[0] == "call" and x[1] == DE + "estimate_duration"]
                if srcs:
                    ctx.ok("C01-R3", "adjusted vector starts from estimate_duration (floored) and is decremented only where > 1 (C08-R4)", fl.loc())
                else:
                    ctx.fail("C01-R3", fl.path, "return value", "returns %s" % show(e)[:120], fl.loc())
        # decrement filter (shared with C08-R4)
        decs = 0
        from ..expr import stores
        for bb2, i2, st, tgt, root, chain, val in stores(fl, ExprBuilder(fl)):
            pol = to_poly(val, lambda x: ("E",) if canon(x) == canon(tgt) else None)
            d = pol - Poly.atom(("E",))
            if d.is_const() and d.const_value() < 0:
                decs += 1
                filt = [x for x in ExprBuilder(fl).expand_all(tgt) if x[0] == "call" and x[1].endswith("Iterator::filter")]
                okf = False
                for f in filt:
                    cb = c08.closure_body(p, f[2][1]) if len(f[2]) > 1 else None
                    if cb is not None:
                        r = ExprBuilder(cb).local(0)
                        if r[0] == "bin" and r[3][0] == "c" and ((r[1] == "Gt" and r[3][1] >= 1) or (r[1] == "Ge" and r[3][1] >= 2)) and d.const_value() == -1:
                            okf = True
                if not okf and d.const_value() == -1:
                    okf = c08.candidate_filtered(fl, tgt)      # hand-written arg-min over candidates > 1
                if not okf and d.const_value() == -1:
                    okf = c08.candidate_filtered_index(fl, tgt, bb2)   # .. selected by index, one loop for both directions
                if okf:
                    ctx.ok("C01-R3", "every `-= 1` on a duration comes from an iterator filtered by `> 1`", cm.loc_of(st["span"]))
                else:
                    ctx.fail("C01-R3", fl.path, "decrement", "a duration element is decremented without a `> 1` filter", cm.loc_of(st["span"]))
    # one entry per state: whatever estimate_duration_with_frame_length returns without going through
    # the per-state estimate is a constant vector with exactly len(duration_params) entries
    flb = p.body(DE + "estimate_duration_with_frame_length")
    if flb is not None:
        ebf = ExprBuilder(flb)
        for bb, e, item in paths.return_exprs(flb, ebf):
            if e[0] == "call" and e[1].endswith("from_elem") and len(e[2]) == 2:
                if e[2][1][0] == "len" and show(e[2][1][1]) == "duration_params" and e[2][0][0] == "c" and e[2][0][1] >= 1:
                    ctx.ok("C01-R3", "the short-target fallback returns one frame for each of the len(duration_params) states", flb.loc())
                else:
                    ctx.fail("C01-R3", flb.path, "fallback length", "the fallback returns vec![%s; %s]: the duration vector must have one entry (>= 1) per state, i.e. len(duration_params) entries, or trailing states and labels are silently dropped" % (show(e[2][0]), show(e[2][1])[:60]), flb.loc())
    # the frame budget of an aligned group may come out negative (a label that ends before the
    # frames already produced): it is a float difference, which the estimator then floors - an
    # unsigned subtraction here would wrap or panic on exactly those inputs
    cwa_ = p.body(DE + "create_with_alignment")
    if cwa_ is not None:
        nsub = 0
        for s_ in ledger.enumerate_sites(p, [cwa_.path] + [c_.path for c_ in p.nested(cwa_.path)]):
            if s_.kind == "overflow" and (s_.extra.get("op") == "Sub" or s_.detail.startswith("Sub(")):
                r_ = ledger.t1_common(s_)
                if r_:
                    ctx.ok("C01-R3", "create_with_alignment: `%s` cannot wrap (%s)" % (s_.detail[:50], r_), s_.loc())
                else:
                    nsub += 1
                    ctx.fail("C01-R3", s_.fn, "unsigned frame budget", "create_with_alignment subtracts unsigned quantities (`%s`): a label that ends before the frames already produced makes this wrap / panic instead of falling back to one frame per state" % s_.detail[:120], s_.loc())
        if not nsub:
            ctx.ok("C01-R3", "create_with_alignment has no unsigned subtraction that could wrap (the remaining-frames budget is a float difference)", cwa_.loc())
    for fn in (DE + "create", DE + "create_with_alignment"):
        b = p.body(fn)
        if b is None:
            continue
        eb = ExprBuilder(b)
        bad = []
        # everything flowing into the returned vector comes from the two estimators
        for bb, t in b.calls():
            nm = cm.callee_name(t["callee"]) if t["callee"]["k"] == "fndef" else ""
            if re.search(r"Vec::<T, A>::(push|extend_from_slice|insert|resize|append)$|Extend<.*>>::extend$", nm):
                src = eb.at(bb).op(t["args"][1]) if len(t["args"]) > 1 else ("unk",)
                if not any(x[0] == "call" and x[1] in (DE + "estimate_duration", DE + "estimate_duration_with_frame_length") for x in eb.expand_all(src)):
                    bad.append(show(src)[:80])
        for e in eb.def_exprs(0):
            for x in eb.expand_all(e):
                if x[0] == "call" and x[1].endswith("from_elem"):
                    if not (x[2][0][0] == "c" and x[2][0][1] >= 1):
                        bad.append(show(x)[:80])
        if bad:
            ctx.fail("C01-R3", fn, "duration source", "durations enter the result from something other than the floored estimators: %s" % bad, b.loc())
        else:
            ctx.ok("C01-R3", "%s only returns/extends from the floored estimators" % fn.split("::")[-1], b.loc())

    # ---- R4
    for fn, inner in (("model::Models::<'a>::duration", None), ("model::Models::<'a>::stream", "states")):
        b = cm.body_or_fail(ctx, p, "C01-R4", fn)
        if b is None:
            continue
        eb = ExprBuilder(b)
        loop_ranges = []
        exprs = [eb.call(t) for bb, t in b.calls()]
        txt = " ".join(show(e) for e in exprs)
        names = [x[1].rsplit("::", 1)[-1] for e in exprs for x in walk(e) if x[0] == "call"]
        badn = [n for n in names if n in ("skip", "take", "step_by", "filter", "rev", "skip_while", "take_while", "filter_map", "nth", "last", "chain")]
        if "flat_map" in names and "self.labels" in txt and not badn:
            ctx.ok("C01-R4", "%s: flat_map over self.labels.iter(), no dropping adaptor" % fn.split("::")[-1], b.loc())
        elif _label_loop_form(b, eb, loop_ranges) and not badn and (inner or not loop_ranges):
            ctx.ok("C01-R4", "%s: `for label in self.labels` loop that appends to the result unconditionally on every iteration" % fn.split("::")[-1], b.loc())
        else:
            ctx.fail("C01-R4", fn, "label pipeline", "labels are not mapped one-to-one (adaptors: %s)" % sorted(set(names)), b.loc())
        if inner:
            okk = False
            nst = p.body("model::Models::<'a>::nstate")
            nstate_is_count = nst is not None and show(ExprBuilder(nst).local(0)).endswith(".num_states")
            from ..expr import resolve_upvars as _ru
            for cb in p.nested(fn):
                ceb = ExprBuilder(cb)
                for bb, t in cb.calls():
                    e = _ru(p, cb, ceb.call(t))
                    for x in walk(e):
                        if x[0] == "agg" and x[1].endswith("Range::Range"):
                            lo, hi = to_poly(x[2][0]), to_poly(x[2][1])
                            d = hi - lo
                            if lo == Poly.const(2) and len(d.t) == 1 and list(d.t.values()) == [1] and ("num_states" in repr(d) or (nstate_is_count and "Models::<'a>::nstate" in repr(d))):
                                okk = True
                sub = [x[1].rsplit("::", 1)[-1] for bb, t in cb.calls() for x in walk(ceb.call(t)) if x[0] == "call"]
                if any(n in ("skip", "take", "step_by", "filter", "rev") for n in sub):
                    okk = False
            # loop form: the state loop is the inner `for` around the push
            nst = p.body("model::Models::<'a>::nstate")
            nstate_is_count = nst is not None and show(ExprBuilder(nst).local(0)).endswith(".num_states")
            for g in loop_ranges:
                r_ = g[1][2][0] if g[1][2] else None
                if r_ is not None and r_[0] == "agg" and r_[1].endswith("Range::Range"):
                    lo, hi = to_poly(r_[2][0]), to_poly(r_[2][1])
                    d = hi - lo
                    if lo == Poly.const(2) and len(d.t) == 1 and list(d.t.values()) == [1] and ("num_states" in repr(d) or (nstate_is_count and "Models::<'a>::nstate" in repr(d))):
                        okk = True
            if okk:
                ctx.ok("C01-R4", "stream(): states 2 .. 2 + num_states for every label", b.loc())
            else:
                ctx.fail("C01-R4", fn, "state range", "the per-label state range is not 2..2+num_states", b.loc())
    nd = p.body("model::Models::<'a>::duration")
    if nd is not None:
        # duration() takes state 2 of the duration model and returns all its Gaussians
        cbs = p.nested(nd.path)
        okk = any("get_parameter(" in show(ExprBuilder(cb).local(0)) and re.search(r", 2(\{\w+\})?, ", show(ExprBuilder(cb).local(0))) for cb in cbs)
        if okk:
            ctx.ok("C01-R4", "duration(): the duration model's state-2 tree gives the per-state Gaussians", nd.loc())
        else:
            ctx.fail("C01-R4", nd.path, "duration model state", "duration() does not read state 2 of the duration model", nd.loc())

    # ---- R5
    r5(ctx, p, K)

    # ---- R7
    r7(ctx, p)

    # ---- R6
    r6(ctx, p, cg, K)

    # ---- R8
    r8(ctx, p, cg, K)
    r8_ivar(ctx, p)
    r9(ctx, p)

    ctx.note("not decided: finiteness of samples in general / NaN only after runaway growth (numerical property of a recursive filter); R8 decides only the 0/0-from-an-empty-count part of `never out of nothing`")
    ctx.note("not decided: bounds checks and usize arithmetic inside the numeric kernels (counted in units_analysed.kernel_checks, not judged)")
    ctx.assume("voices are loader-built and well-formed (trees cover states 2..2+nstate; LF0 stream width 1; odd LPF order when a third stream exists)")
    ctx.assume("engine built by Engine::load (condition vectors have one entry per stream)")
    expl = ("Polynomial form of the output-buffer size, structural form of the frame expansion (zip/flat_map/repeat/take), single shared "
            "duration vector across the three MLPG calls, clamp-domain floor on every value entering a duration vector, one-to-one label "
            "pipelines, control dependence of every constant-stream-2 access on num_streams > 2, and an explicit-panic ledger over the "
            "whole synthesis closure with audited entries. Decides samples = frames x fperiod, frames = sum of durations >= labels x states, "
            "and absence of explicit panics; not finiteness, not kernel bounds checks.")
    return expl, ["rustc MIR", "T2 table (jbv/props/c01.py)", "PANIC_API table"]


def r5(ctx, p, K):
    n2 = 0
    for path in sorted(K):
        b = p.bodies[path]
        if b.is_derived():
            continue
        eb = ExprBuilder(b)
        for bb, t in b.calls():
            c = t["callee"]
            if c["k"] != "fndef":
                continue
            nm = cm.callee_name(c)
            hit = None
            args = [eb.at(bb).op(a) for a in t["args"]]
            if nm in ("model::voice_set::VoiceSet::stream_metadata", "model::voice_set::VoiceSet::stream_windows",
                      "model::Models::<'a>::model_stream", "model::Models::<'a>::stream", "model::Models::<'a>::gv",
                      "model::Models::<'a>::vector_length"):
                if len(args) >= 2 and args[1][0] == "c" and args[1][1] == 2:
                    hit = nm.split("::")[-1] + "(2)"
            if re.search(r"Index(Mut)?<I>>::index(_mut)?$", nm) and len(args) == 2 and args[1][0] == "c" and args[1][1] == 2:
                base = show(args[0])
                if base.endswith("condition.gv_weight") or base.endswith("condition.msd_threshold") or "stream_models" in base or "parameter" in base.split(".")[-1:] or base.endswith(".gv"):
                    hit = base.split(".")[-1] + "[2]"
            if hit is None:
                continue
            n2 += 1
            gs = paths.guards(b, bb, eb)
            guarded = False
            for g in gs:
                if g[0] in ("true", "false"):
                    pos, cexp = paths.bool_atoms(g)
                    if cexp[0] == "bin" and "num_streams" in show(cexp):
                        l, r = cexp[2], cexp[3]
                        op = cexp[1]
                        # num_streams > 2 / >= 3 true ; <= 2 / < 3 false ; (2 < n) ...
                        if "num_streams" in show(l) and r[0] == "c":
                            v = r[1]
                            if (pos and ((op == "Gt" and v >= 2) or (op == "Ge" and v >= 3) or (op == "Eq" and v >= 3))) or \
                               (not pos and ((op == "Le" and v >= 2) or (op == "Lt" and v >= 3))):
                                guarded = True
                        if "num_streams" in show(r) and l[0] == "c":
                            v = l[1]
                            if (pos and ((op == "Lt" and v >= 2) or (op == "Le" and v >= 3))) or \
                               (not pos and ((op == "Ge" and v >= 2) or (op == "Gt" and v >= 3))):
                                guarded = True
            if guarded:
                ctx.ok("C01-R5", "%s: %s is under num_streams > 2" % (path, hit), cm.loc_of(t["span"]))
            else:
                ctx.fail("C01-R5", path, "unguarded " + hit,
                         "stream index 2 is accessed without a dominating `num_streams > 2` test: a two-stream voice (no LPF stream) panics here", cm.loc_of(t["span"]))
    ctx.anchor("C01-R5", "uses of constant stream index 2 in K", n2, 4)
    # a voice without a low-pass stream takes the plain excitation branch: the ring buffer that
    # selects the branch is empty for nlpf = 0 (the clause C07-R3 decides, stated for C01)
    from .c07 import ring_buffer_size
    ring_buffer_size(ctx, p, "C01-R5")


def r6(ctx, p, cg, K):
    sites = [s for s in ledger.enumerate_sites(p, K) if s.kind in EXPLICIT or is_slicing(s)]
    allsites = ledger.enumerate_sites(p, K)
    ctx.units["kernel_checks_not_judged"] = {
        "bounds/index (non-range)": sum(1 for s in allsites if s.kind in ("bounds", "index") and not is_slicing(s)),
        "overflow": sum(1 for s in allsites if s.kind == "overflow"),
        "alloc": sum(1 for s in allsites if s.kind == "alloc"),
    }
    ctx.anchor("C01-R6", "explicit panic-capable sites in K", len(sites), K_SITE_FLOOR)
    used = set()
    for s in sites:
        r = t1(s)
        if r:
            ctx.ok("C01-R6", "T1 %s  %s" % (s.key, s.detail[:100]), s.loc(), r)
            continue
        ent = ledger.t2_lookup(T2, s)
        if ent:
            used.add(s.key)
            reason = ent[1]
            okm, whynot = ledger.t2_match(ent, s, " " + str(s.extra.get("msg", "")))
            if okm:
                ctx.ok("C01-R6", "T2 %s  %s" % (s.key, s.detail[:100]), s.loc(), reason)
            else:
                ctx.fail("C01-R6", s.fn, "%s %s" % (s.kind, s.api), "%s (audit: %s)" % (whynot, reason), s.loc())
            continue
        if s.key == "panic|%snew|panic|2" % SG or (s.fn == SG + "new" and s.kind == "panic" and "odd" in s.detail):
            odd_lpf(ctx, p, s)
            continue
        if s.key == "divzero|%snew|Rem|0" % SG:
            ctx.ok("C01-R6", "T1 " + s.key, s.loc(), "divisor constant 2")
            continue
        via = " -> ".join(cg.path_to(K, s.fn)[-4:])
        ctx.fail("C01-R6", s.fn, "%s %s" % (s.kind, s.api),
                 "unaudited panic-capable construct reachable from synthesis: `%s` (%s); via %s" % (s.detail[:160], s.why, via), s.loc())
    for k in T2:
        if k not in used:
            ctx.note("T2 entry not matched by any site: " + k)


def odd_lpf(ctx, p, site):
    """The `LPF width must be odd` panic of SpeechGenerator::new, judged against the two ways
    Engine::generator builds the lpf argument."""
    g = p.body(GEN)
    nb = p.body(SG + "new")
    if g is None or nb is None:
        ctx.fail("C01-R6", site.fn, "panic odd", "anchors missing", site.loc())
        return
    eb = ExprBuilder(nb)
    gs = paths.guards(nb, site.bb, eb)
    # the width of the first low-pass row, however it is spelled
    WIDTHS = ("len(lpf[0])",
              "len((core::slice::<impl [T]>::first(lpf) as Some).0)",
              "(std::option::Option::<T>::map(core::slice::<impl [T]>::first(lpf), fn:std::vec::Vec::<T, A>::len) as Some).0")

    def has_width(e):
        return any(show(x) in WIDTHS for x in walk(e))
    # find the guard on the width
    pred = None
    for gd in gs:
        if gd[0] in ("true", "false") and has_width(gd[1]):
            pred = gd
    if pred is None:
        ctx.fail("C01-R6", site.fn, "panic odd", "cannot find the width predicate guarding the panic", site.loc())
        return
    # placeholder inner width in Engine::generator
    geb = ExprBuilder(g)
    widths = []
    for bb, t in g.calls():
        e = geb.at(bb).call(t)
        if e[0] == "call" and e[1].endswith("from_elem") and e[2][0][0] == "call" and e[2][0][1].endswith("from_elem"):
            w = e[2][0][2][1]
            widths.append(const_small(w))
    pos, c = paths.bool_atoms(pred)

    def ev(e, w):
        if show(e) in WIDTHS:
            return w
        if e[0] == "c":
            return e[1]
        if e[0] == "bin":
            a, b_ = ev(e[2], w), ev(e[3], w)
            if a is None or b_ is None:
                return None
            return {"Rem": lambda: a % b_ if b_ else None, "Eq": lambda: a == b_, "Ne": lambda: a != b_,
                    "Add": lambda: a + b_, "Sub": lambda: a - b_, "Lt": lambda: a < b_, "Gt": lambda: a > b_,
                    "Le": lambda: a <= b_, "Ge": lambda: a >= b_, "BitAnd": lambda: a & b_}.get(e[1], lambda: None)()
        return None
    bad = []
    for w in widths:
        if w is None:
            bad.append("non-constant placeholder width")
            continue
        # all other guards on the same quantity must also hold for the panic to be reached
        reach = True
        for gd in gs:
            if gd[0] in ("true", "false") and has_width(gd[1]):
                pp, cc = paths.bool_atoms(gd)
                v = ev(cc, w)
                if v is None:
                    continue
                if bool(v) != pp:
                    reach = False
            if gd[0] in ("true", "false"):
                pp, cc = paths.bool_atoms(gd)
                # is_empty(<the first row, however it is spelled>)
                if cc[0] == "call" and cc[1].rsplit("::", 1)[-1] == "is_empty" and len(cc[2]) == 1 and ("len(%s)" % show(cc[2][0])) in WIDTHS:
                    if (w == 0) != pp:
                        reach = False
        if reach:
            bad.append("placeholder rows have width %d, for which the panic condition holds" % w)
    if bad:
        ctx.fail("C01-R6", site.fn, "panic odd-LPF",
                 "two-stream voices: Engine::generator passes an LPF placeholder whose rows are empty, and `%s` is then true: "
                 "SpeechGenerator::new panics for every non-empty utterance (%s)" % (show(c), "; ".join(bad)), site.loc())
    else:
        ctx.ok("C01-R6", "T2 odd-LPF panic: unreachable for the 2-stream placeholder (widths %s); 3-stream LPF order is odd (voice-format fact)" % widths, site.loc())



def _label_loop_form(b, eb, ranges=None):
    """the loop form of `labels.iter().flat_map(..).collect()`: one loop whose iterator is a plain
    traversal of self.labels; in it, an extend/push on the vector that is returned, guarded by
    nothing but the loop's own `Some`"""
    ret = None
    for d in b.defs().get(0, []):
        if d[1] != "term" and d[2]["rv"]["k"] == "use" and d[2]["rv"]["op"].get("k") in ("move", "copy") and not d[2]["rv"]["op"]["place"]["proj"]:
            ret = d[2]["rv"]["op"]["place"]["local"]
    if ret is None:
        # the vector may be wrapped on return: StreamParameter::new(vec)
        for d in b.defs().get(0, []):
            if d[1] == "term" and d[2]["callee"]["k"] == "fndef" and cm.callee_name(d[2]["callee"]).endswith("::new") and len(d[2]["args"]) == 1 \
                    and d[2]["args"][0].get("k") in ("move", "copy") and not d[2]["args"][0]["place"]["proj"]:
                ret = d[2]["args"][0]["place"]["local"]
                n_ = 0
                while n_ < 4:
                    ds_ = [x for x in b.defs().get(ret, []) if not b.is_cleanup(x[0])]
                    if len(ds_) == 1 and ds_[0][1] != "term" and ds_[0][2]["rv"]["k"] == "use" and ds_[0][2]["rv"]["op"].get("k") in ("move", "copy") and not ds_[0][2]["rv"]["op"]["place"]["proj"]:
                        ret = ds_[0][2]["rv"]["op"]["place"]["local"]
                        n_ += 1
                    else:
                        break
    if ret is None:
        return False
    loops = b.natural_loops()
    okk = False
    for bb, t in b.calls():
        c = t["callee"]
        nm = cm.callee_name(c) if c["k"] == "fndef" else ""
        if not re.search(r"Vec::<T, A>::(push|extend_from_slice|append)$|Extend<.*>>::extend$", nm):
            continue
        if not any(bb in lb for h, lb in loops):
            continue
        rl = t["args"][0]["place"]["local"] if t["args"] and t["args"][0].get("k") in ("move", "copy") else None
        base = [ditem["rv"]["place"]["local"] for dbb, didx, ditem in b.defs().get(rl, []) if didx != "term" and ditem["rv"]["k"] == "ref"] if rl is not None else []
        if not base or base[0] != ret:
            continue
        gs = paths.guards(b, bb, eb)
        lab = [g for g in gs if g[0] == "some" and re.match(r"^<std::slice::Iter<'a, T> as std::iter::Iterator>::next\(self\.labels\)$", show(g[1]))]
        # an inner `for state in a..b` around the push is the per-label state loop (judged by the caller)
        rng = [g for g in gs if g[0] == "some" and g[1][0] == "call" and "ops::Range<A>>::next" in g[1][1]]
        if len(lab) == 1 and len(lab) + len(rng) == len(gs) and len(rng) <= 1:
            okk = True
            if ranges is not None:
                ranges.extend(rng)
    return okk


# ---- R8: no 0/0 "out of nothing": float divisions by an integer count
FDIV_T2 = [
    # (enclosing function: the site may sit in it or in a closure nested in it, regex on the count
    #  expression with captured variables resolved to their values, reason)
    ("mlpg_adjust::mlpg::MlpgGlobalVariance::<'a>::calc_hmmobj_derivative", r"^Mul\(self\.mtx\.win_size, self\.mtx\.length\)$",
     "called only from parmgen behind gv_length != 0; gv_length counts entries of gv_switch, whose length is mtx.length (C12-R3/R4), so length >= 1; win_size = windows.size() >= 1 for every loaded stream"),
    ("mlpg_adjust::mlpg::MlpgGlobalVariance::<'a>::next_step", r"^Mul\(self\.mtx\.win_size, self\.mtx\.length\)$|^self\.mtx\.length$|^Mul\(self\.mtx\.length, self\.mtx\.length\)$",
     "behind parmgen's gv_length != 0, and gv_length <= mtx.length; win_size >= 1"),
    ("model::interporation_weight::Weights::average", r"^nvoices$",
     "nvoices = VoiceSet::len() >= 1: VoiceSet::new rejects an empty list (C19-R1)"),
    ("model::interporation_weight::InterporationWeight::new", r"^nvoices$",
     "the same division when the equal-share helper is inlined / renamed: nvoices = VoiceSet::len() >= 1 (C19-R1)"),
    ("vocoder::Vocoder::synthesize", r"^self\.fperiod$",
     "fperiod >= 1: set_fperiod stores max(v, 1) (C20-R1) and load_model takes the voice's frame period"),
    ("vocoder::excitation::Excitation::start", r"^fperiod$",
     "both call sites pass self.fperiod of the Vocoder, which Engine::generator takes from condition.fperiod >= 1 (C20-R1)"),
    ("vocoder::lsp::LineSpectralPairs::check_lsp_stability", r"^len\(self\)$",
     "len(self) = vector_length of the spectrum stream >= 1"),
]


# float divisors that are not counts: key fdiv|function|ordinal -> (shape regex, reason)
FDIV_T2F = [
    # (enclosing function - the site may sit in it or in any closure nested in it, shape regex, reason)
    ("duration::DurationEstimator::create", r"^speed$",
     "speed >= 1e-6: set_speed stores max(v, 1e-6) (C20-R1) and the default is 1"),
    ("duration::DurationEstimator::estimate_duration_with_frame_length", r"Iterator::sum\(duration_params\)\.1$|^%\d+$|^arg\d(\.\d)*\.1$|^\(<.*Iterator>::next\(.*duration_params.*\) as Some\)(\.\d)*\.1$",
     "a duration variance (of one state, or summed over the group); ASSUMPTION (voice-format fact): duration variances of a voice are positive"),
    ("label::Labels::load_from_strings", r"^Mul\(\(fperiod as f64\), 10000000\.0\)$",
     "fperiod >= 1 (C20-R1), so the divisor is >= 1e7"),
    ("mlpg_adjust::mlpg::MlpgGlobalVariance::<'a>::next_step", r"^Sub\(.*self\.mtx\.wuw\[.*\]\[0\]",
     "quasi-Newton step size 1/h: h is a sum of data-dependent terms, zero only by exact cancellation - numerical, not `out of nothing` (not decided)"),
    ("mlpg_adjust::mlpg::MlpgMatrix::ldl_factorization", r"^(self\.wuw\[.*\]|core::slice::<impl \[T\]>::split_at_mut\(self\.wuw, .*\)\.1\[0\])\[0\]$",
     "the pivot D[t] of the LDL^T factorisation of W'U^-1 W: positive when every frame's static precision is positive (ASSUMPTION, voice-format fact: static variances are finite and positive; masked dynamic rows only add non-negative terms); its staying positive under rounding is numerical (not decided)"),
    ("mlpg_adjust::mlpg::MlpgMatrix::substitutions", r"^self\.wuw\[.*\]\[0\]$",
     "the same pivot D[t], read back in the backward substitution"),
    ("vocoder::generalized::Generalized::gnorm", r"^Add\(1\.0, Mul\(vocoder::generalized::Generalized::gamma\(self\), self\[0\]\)\)$",
     "k = 1 + gamma*c0; on the only path that reaches it (lsp2mgc -> ignorm -> mgc2mgc -> gnorm) c0 = (K^gamma - 1)/gamma, so k = K^gamma > 0 for a positive frame gain K; a non-positive linear gain is outside the stable range the finiteness clause is conditioned on"),
    ("vocoder::cepstrum::MelCepstrum::postfilter_mcp", r"CoefficientsT::b2en\(",
     "e2 = sum ir^2 with ir[0] = exp(c0) > 0 (C14-R5), so e2 > 0"),
    ("vocoder::cepstrum::MelGeneralizedCepstrum::mgc2mgc", r"^Sub\(1\.0, Mul\(self\.alpha, ",
     "1 - a*b with a, b in [0, 1] (C20-R1 clamp) and a != b (dominating guard): a*b < 1"),
    ("vocoder::lsp::LineSpectralPairs::postfilter_lsp", r"^Add\(Mul\(Mul\(beta, Sub\(self\[",
     "d1^2 + d2^2 with d = beta * (difference of adjacent line spectral frequencies), beta > 0 (dominating guard): zero only if three adjacent frequencies coincide, i.e. outside the stable range the finiteness clause is conditioned on"),
    ("vocoder::lsp::LineSpectralPairs::postfilter_lsp", r"LineSpectralPairs::lsp2en\(self\)$",
     "en2 = sum of squares of an impulse response whose first tap is the gain term > 0"),
]


def _positive_guard_f(gs, xs):
    """a dominating guard proving the float expression xs non-zero: x != 0.0, x > 0.0, not (x <= 0.0), not (x == 0.0)"""
    for g in gs:
        if g[0] not in ("true", "false"):
            continue
        pos, c = paths.bool_atoms(g)
        if c[0] != "bin" or c[3][0] != "c":
            continue
        try:
            v = float(c[3][1])
        except (TypeError, ValueError):
            continue
        op = c[1]
        # |x| >= c > 0 (written as not (|x| < c)): x is not zero; a NaN passes the test, but NaN in,
        # NaN out is not "out of nothing"
        if c[2][0] == "call" and c[2][1] == "f64::abs" and len(c[2][2]) == 1 and show(c[2][2][0]) == xs:
            if (v > 0.0 and ((op == "Lt" and not pos) or (op == "Ge" and pos))) or (v >= 0.0 and ((op == "Gt" and pos) or (op == "Le" and not pos))):
                return True
        if show(c[2]) != xs:
            continue
        if v == 0.0 and ((op == "Ne" and pos) or (op == "Eq" and not pos) or (op == "Gt" and pos) or (op == "Le" and not pos) or (op == "Lt" and pos)):
            return True
    return False


def _nonzero_guard(gs, xs):
    """is one of the normalised guards `X != 0` / `X > 0` / `X >= 1` for the integer expression text xs"""
    for g in gs:
        if g[0] not in ("true", "false"):
            continue
        pos, c = paths.bool_atoms(g)
        if c[0] != "bin":
            continue
        l, r = show(c[2]), c[3]
        if l != xs or r[0] != "c":
            continue
        v, op = r[1], c[1]
        if (op == "Eq" and not pos and v == 0) or (op == "Ne" and pos and v == 0) or (op == "Gt" and pos and v == 0) or (op == "Ge" and pos and v == 1) or (op == "Le" and not pos and v == 0) or (op == "Lt" and not pos and v == 1):
            return True
    return False


def r9(ctx, p):
    """index ranges of the LSP section chains (the one kernel whose two loops have *different*
    bounds for odd orders, so a shared bound is an out-of-range index on real input)"""
    ctx.rule("C01-R9", "lsp2lpc: every delay vector allocated with vec![0.0; N + 1] is indexed only up to N: its indices are loop variables of 0..N (plus 0 / 1) or N itself, N being the same section count the vector was sized with")
    from .c13 import lsp_chain_bounds
    res = lsp_chain_bounds(p)
    if res is None:
        ctx.fail("C01-R9", "vocoder::lsp::LineSpectralPairs::lsp2lpc", "anchor", "lsp2lpc not found")
        return
    ctx.anchor("C01-R9", "sized f64 vectors indexed in lsp2lpc", len(res), 6)
    for name, okv, worst in res:
        if okv:
            ctx.ok("C01-R9", "lsp2lpc: every index of `%s` stays below its allocated length" % name)
        else:
            ctx.fail("C01-R9", "vocoder::lsp::LineSpectralPairs::lsp2lpc", "index range of " + name, "`%s` can be indexed past its end (%s): an LSP voice of the other parity of order panics in the first frame" % (name, worst))


def r8(ctx, p, cg, K):
    ctx.rule("C01-R8", "division ledger (no inf/NaN out of nothing): every f64 division in K by a non-constant divisor is behind a proof that the divisor is non-zero - for an integer count converted to f64: a dominating guard in the function or at every call site (up to two levels); for a float: a dominating test or a positive function; otherwise an audited reason (FDIV_T2 / FDIV_T2F) whose shape is re-checked")
    callers = {}
    for a, bs in cg.edges.items():
        if a in K:
            for b_ in bs:
                callers.setdefault(b_, set()).add(a)
    n = 0
    nf = 0
    ford = {}
    usedf = set()
    used = set()
    for path in sorted(K):
        b = p.bodies[path]
        eb = ExprBuilder(b)
        divs = [(bb, i, st, None) for bb, i, st in b.iter_stmts() if st["k"] == "assign" and st["rv"]["k"] == "binop" and st["rv"]["op"] == "Div"]
        # `1.0 / x` with x: &f64 is the operator-trait call <f64 as Div<&f64>>::div, not a MIR binop
        for bb, t in b.calls():
            c_ = t["callee"]
            if c_["k"] == "fndef" and re.search(r"^<&?(f64|f32) as std::ops::Div<&?(f64|f32)>>::div$", cm.callee_name(c_)) and len(t["args"]) == 2:
                divs.append((bb, None, {"k": "assign", "place": t["dest"], "rv": {"k": "binop", "op": "Div", "a": t["args"][0], "b": t["args"][1]}, "span": t["span"]}, t))
        for bb, i, st, via_call in divs:
            den = eb.at(bb, i).op(st["rv"]["b"])
            if b.kind == "Closure" and den[0] == "upvar":
                # a captured divisor is the value it was bound to (`let n = self.fperiod as f64; .. |x| x / n`)
                try:
                    from ..expr import resolve_upvars as _ru
                    den = _ru(p, b, den)
                except Exception:  # noqa: BLE001
                    pass
            if not (den[0] == "cast" and den[1] in ("f64", "f32") and den[3] not in ("f64", "f32")):
                # a float divisor that is not a converted count
                rty = b.local_ty(st["place"]["local"]) if not st["place"]["proj"] else "?"
                if rty == "?":
                    # result stored straight into a projected place (`*x = a / b`, `v[i] = a / b`):
                    # take the type from the operands
                    for o_ in (st["rv"]["a"], st["rv"]["b"]):
                        if o_.get("k") == "const" and o_.get("ty") in ("f64", "f32"):
                            rty = o_["ty"]
                        elif o_.get("k") in ("move", "copy") and not o_["place"]["proj"] and b.local_ty(o_["place"]["local"]) in ("f64", "f32"):
                            rty = b.local_ty(o_["place"]["local"])
                if den[0] == "c" or rty not in ("f64", "f32"):
                    continue
                nf += 1
                loc = cm.loc_of(st["span"])
                ds = show(den)
                fkey = "fdiv|%s|%d" % (path, ford.setdefault(path, 0))
                ford[path] += 1
                if den[0] == "call" and den[1] in ("f64::exp", "f64::exp2", "f64::cosh"):
                    ctx.ok("C01-R8", "T1 %s: divisor %s(..) is positive for every argument" % (cm.short(path), den[1]), loc)
                    continue
                if _positive_guard_f(paths.guards(b, bb, eb), ds):
                    ctx.ok("C01-R8", "T1 %s: division by %s is dominated by a test that it is non-zero" % (cm.short(path), ds[:60]), loc)
                    continue
                site = ledger.Site("fdiv", path, ds[:3000], "", st["span"], bb, st, b)
                ent = None
                encf = b
                nf_ = 0
                while encf is not None and encf.kind == "Closure" and nf_ < 6:
                    encf = p.bodies.get(encf.parent)     # the inliner re-parents closures of helpers it inlined
                    nf_ += 1
                encfp = encf.path if encf is not None else path
                for k_, (fnp, rx, why_) in enumerate(FDIV_T2F):
                    if (path == fnp or path.startswith(fnp + "::") or encfp == fnp) and re.search(rx, site.shape()):
                        ent = (k_, why_)
                        break
                if ent:
                    usedf.add(ent[0])
                    ctx.ok("C01-R8", "T2 %s  / %s" % (fkey, ds[:80]), loc, ent[1])
                    continue
                ctx.fail("C01-R8", path, "float division " + ds[:50], "division by %s with no proof that it is non-zero (no dominating test, not audited): a zero divisor here turns finite values into inf/NaN out of nothing" % ds[:160], loc)
                continue
            n += 1
            X = den[2]
            xs = show(X)
            loc = cm.loc_of(st["span"])
            # range-loop variable starting at >= 1, or a non-zero constant
            from ..ledger import _range_loop_var
            rl = _range_loop_var(b, eb, X)
            if X[0] == "c" and X[1] != 0 or (rl and rl[0][0] == "c" and rl[0][1] >= 1):
                ctx.ok("C01-R8", "T1 %s: divisor %s is a non-zero constant / a loop variable starting at >= 1" % (cm.short(path), xs[:60]), loc)
                continue
            if _nonzero_guard(paths.guards(b, bb, eb), xs):
                ctx.ok("C01-R8", "T1 %s: division by (%s as f64) is dominated by %s != 0" % (cm.short(path), xs, xs), loc)
                continue
            # guard at every call site, when the count is a field of self and self is passed on
            def guarded_by_callers(fn, depth):
                cs = callers.get(fn, set())
                if not cs or depth > 2 or not xs.startswith("self."):
                    return False
                for c_ in cs:
                    cbd = p.bodies[c_]
                    ceb = ExprBuilder(cbd)
                    sites = cm.local_calls(cbd, p, exact=fn)
                    if not sites:
                        return False
                    for cbb, ct in sites:
                        recv = show(ceb.at(cbb).op(ct["args"][0])) if ct["args"] else ""
                        if recv != "self":
                            return False
                        if not _nonzero_guard(paths.guards(cbd, cbb, ceb), xs) and not guarded_by_callers(c_, depth + 1):
                            return False
                return True
            if guarded_by_callers(path, 1):
                ctx.ok("C01-R8", "T1 %s: every call site (transitively) is dominated by %s != 0" % (cm.short(path), xs), loc)
                continue
            key = "fdiv|%s|%s" % (path, show(den))
            from ..expr import resolve_upvars
            xr = show(resolve_upvars(p, b, X)) if b.kind == "Closure" else xs
            enc = b
            n_ = 0
            while enc is not None and enc.kind == "Closure" and n_ < 6:
                enc = p.bodies.get(enc.parent)
                n_ += 1
            encp = enc.path if enc is not None else path
            hit = None
            for k_, (fnp, rx, why_) in enumerate(FDIV_T2):
                if encp == fnp and re.search(rx, xr):
                    hit = (k_, why_)
                    break
            if hit:
                used.add(hit[0])
                ctx.ok("C01-R8", "T2 " + key, loc, hit[1])
                continue
            ctx.fail("C01-R8", path, "float division by count " + show(den)[:60], "division by (%s as f64) with no proof that the count is non-zero (no dominating guard here or at the call sites, not audited): an empty frame set would give 0/0 = NaN out of nothing" % xs, loc)
    ctx.anchor("C01-R8", "float divisions by an integer count in K", n, 8)
    ctx.anchor("C01-R8", "float divisions by a non-constant float in K", nf, 10)
    ctx.assume("voice-format fact used by C01-R8: the duration variances of a voice are positive")
    for k_, ent_ in enumerate(FDIV_T2F):
        if k_ not in usedf:
            ctx.note("FDIV_T2F entry not matched by any site: %s /%s/" % (ent_[0], ent_[1]))
    for k_, ent_ in enumerate(FDIV_T2):
        if k_ not in used:
            ctx.note("FDIV_T2 entry not matched by any site: %s /%s/" % (ent_[0], ent_[1]))


IVAR_BOUND = 1e50


def _num(c):
    if c[0] != "c" or isinstance(c[1], bool):
        return None
    try:
        return float(c[1])
    except (TypeError, ValueError, OverflowError):
        return None


def r8_ivar(ctx, p):
    """C01-R8, bounded inverse variance: MLPG multiplies the inverse variances with window
    coefficients and means and the LDL factorisation multiplies up to three band entries, so
    `NaN never out of nothing` needs |ivar| bounded far below sqrt3(f64::MAX) for *every* variance,
    0 included.  Every value `with_ivar` can return as the second component is a constant of
    magnitude <= 1e50 or 1/x (x.recip()) behind a test |x| >= K with 1/K <= 1e50.  (Seed C01i
    replaced the 1e38 cap by f64::MAX: a zero variance then overflows the sums to inf and the
    solve returns inf/inf.)"""
    b = cm.body_or_fail(ctx, p, "C01-R8", "model::mean_vari::MeanVari::with_ivar")
    if b is None:
        return
    eb = ExprBuilder(b)

    def alts(e, bb, depth=0):
        """(expression, block) alternatives of a value: multi-definition locals through each definition"""
        if e[0] == "var" and isinstance(e[1], int) and depth < 6:
            out = []
            for dbb, idx, item in b.defs().get(e[1], []):
                if b.is_cleanup(dbb):
                    continue
                eb.at(dbb, idx)
                d = eb.call(item) if idx == "term" else eb.rvalue(item["rv"])
                out.extend(alts(d, dbb, depth + 1))
            return out or [(e, bb)]
        return [(e, bb)]
    n = 0
    for rbb, e, item in paths.return_exprs(b, eb):
        if not (e[0] == "agg" and len(e[2]) == 2):
            ctx.fail("C01-R8", b.path, "return value", "with_ivar returns %s: not a (mean, inverse variance) pair" % show(e)[:80], b.loc())
            continue
        for v, vbb in alts(e[2][1], rbb):
            n += 1
            if is_const(v) and _num(v) is not None:
                if abs(_num(v)) <= IVAR_BOUND:
                    ctx.ok("C01-R8", "with_ivar: constant inverse variance %g, magnitude <= %g" % (_num(v), IVAR_BOUND), b.loc())
                else:
                    ctx.fail("C01-R8", b.path, "inverse-variance cap", "with_ivar can return the constant %g: products of inverse variances, window coefficients and means (and of up to three band entries in the LDL factorisation) overflow to inf, and the solve returns inf/inf = NaN out of finite inputs (the cap has to stay far below the cube root of f64::MAX; <= %g is accepted)" % (_num(v), IVAR_BOUND), b.loc())
                continue
            x = None
            if v[0] == "bin" and v[1] == "Div" and is_const(v[2]) and _num(v[2]) is not None and abs(_num(v[2])) <= 1.0:
                x = v[3]
            elif v[0] == "call" and v[1].endswith("::recip") and len(v[2]) == 1:
                x = v[2][0]
            if x is None:
                ctx.fail("C01-R8", b.path, "inverse variance", "with_ivar can return %s as the inverse variance: neither a constant nor 1/x behind a magnitude test" % show(v)[:80], b.loc())
                continue
            ok = False
            for g in paths.guards(b, vbb, eb):
                if g[0] not in ("true", "false"):
                    continue
                pos, c = paths.bool_atoms(g)
                if c[0] != "bin" or c[1] not in ("Lt", "Le", "Gt", "Ge"):
                    continue
                l, r, op = c[2], c[3], c[1]
                if is_const(l) and not is_const(r):
                    l, r, op = r, l, {"Lt": "Gt", "Le": "Ge", "Gt": "Lt", "Ge": "Le"}[op]
                if not (is_const(r) and _num(r) is not None and _num(r) > 0):
                    continue
                if not (l[0] == "call" and l[1].endswith("::abs") and len(l[2]) == 1 and canon(l[2][0]) == canon(x)):
                    continue
                # holds on this edge: |x| >= K  (Ge/Gt true, Lt/Le false)
                lower = (pos and op in ("Ge", "Gt")) or (not pos and op in ("Lt", "Le"))
                if lower and 1.0 / _num(r) <= IVAR_BOUND:
                    ok = True
                    ctx.ok("C01-R8", "with_ivar: 1/x only where |x| >= %g, so |1/x| <= %g" % (_num(r), 1.0 / _num(r)), b.loc())
                    break
            if not ok:
                ctx.fail("C01-R8", b.path, "inverse variance", "with_ivar returns 1/%s with no dominating test |%s| >= K (K > 0, 1/K <= %g): a tiny variance gives an inverse that overflows the MLPG sums" % (show(x), show(x), IVAR_BOUND), b.loc())
    ctx.anchor("C01-R8", "values with_ivar can return as the inverse variance", n, 3)


def r7(ctx, p):
    fn = "mlpg_adjust::mlpg::MlpgMatrix::calc_wuw_and_wum"
    b = cm.body_or_fail(ctx, p, "C01-R7", fn)
    if b is None:
        return
    eb = ExprBuilder(b)
    rets = [e for bb, e, item in paths.return_exprs(b, eb) if e[0] == "agg" and e[1].endswith("MlpgMatrix::MlpgMatrix")]
    if len(rets) != 1:
        ctx.fail("C01-R7", fn, "return value", "expected one MlpgMatrix literal", b.loc())
        return
    f = dict(zip(rets[0][3], rets[0][2]))
    width_p = to_poly(f["width"])
    length_p = to_poly(f["length"])
    names = {d.get("name"): l for l, d in enumerate(b.locals) if d.get("name")}

    def local_of(e):
        return e[1] if e[0] == "var" and isinstance(e[1], int) else None
    # the locals moved into the literal's wuw / wum fields (followed through plain moves): by role,
    # not by the variables' names
    agg_items = [item for bb, e, item in paths.return_exprs(b, eb) if e[0] == "agg" and e[1].endswith("MlpgMatrix::MlpgMatrix")]

    def moved_local(op):
        seen = 0
        while op.get("k") in ("move", "copy") and not op["place"]["proj"] and seen < 8:
            l = op["place"]["local"]
            ds = [d for d in b.defs().get(l, []) if not b.is_cleanup(d[0])]
            if len(ds) == 1 and ds[0][1] != "term" and ds[0][2]["rv"]["k"] == "use" and ds[0][2]["rv"]["op"].get("k") in ("move", "copy") and not ds[0][2]["rv"]["op"]["place"]["proj"]:
                op = ds[0][2]["rv"]["op"]
                seen += 1
                continue
            return l
        return None
    wuw_l, wum_l = local_of(f["wuw"]), local_of(f["wum"])
    rv = agg_items[0].get("rv") if agg_items and isinstance(agg_items[0], dict) else None
    if rv and rv.get("k") == "aggregate":
        fnames = rv["kind"].get("fields") or []
        for fname, op in zip(fnames, rv["ops"]):
            if fname == "wuw" and wuw_l is None:
                wuw_l = moved_local(op)
            if fname == "wum" and wum_l is None:
                wum_l = moved_local(op)
    loops = b.natural_loops()

    def rows_of(target_local, want_inner):
        """-> list of (count description ok?, inner ok?, span) for every way rows enter the vector"""
        found = []
        # (a) vec![row; n] assigned to the local
        for d in b.defs().get(target_local, []):
            if b.is_cleanup(d[0]) or d[1] != "term":
                continue
            e = eb.at(d[0]).call(d[2])
            if e[0] == "call" and e[1].endswith("from_elem") and len(e[2]) == 2:
                row, n = e[2]
                inner_ok = True
                if want_inner is not None:
                    inner_ok = row[0] == "call" and row[1].endswith("from_elem") and to_poly(row[2][1]) == want_inner
                found.append((to_poly(n) == length_p, inner_ok, d[2]["span"], show(row)[:60]))
        # (b) push inside a loop over 0..length
        for bb, t in b.calls():
            c = t["callee"]
            if c["k"] != "fndef" or not cm.callee_name(c).endswith("Vec::<T, A>::push"):
                continue
            recv = t["args"][0]
            rl = recv["place"]["local"]
            base = None
            for dbb, didx, ditem in b.defs().get(rl, []):
                if didx != "term" and ditem["rv"]["k"] == "ref":
                    base = ditem["rv"]["place"]["local"]
            if base != target_local:
                continue
            row = eb.at(bb).op(t["args"][1])
            inner_ok = True
            if want_inner is not None:
                inner_ok = row[0] == "call" and row[1].endswith("from_elem") and to_poly(row[2][1]) == want_inner
            # exactly once per iteration of the outermost 0..length loop, unconditionally
            cnt_ok = False
            for h, lb in loops:
                if bb in lb:
                    gs = paths.guards(b, bb, eb)
                    rng = [g for g in gs if g[0] == "some" and "Range" in show(g[1])]
                    cond = [g for g in gs if g[0] in ("true", "false")]
                    inner_loops = [1 for h2, lb2 in loops if bb in lb2 and lb2 < lb]
                    if rng and not cond and not inner_loops:
                        for x in walk(rng[0][1]):
                            if x[0] == "agg" and x[1].endswith("Range::Range") and x[2][0][0] == "c" and x[2][0][1] == 0 and to_poly(x[2][1]) == length_p:
                                cnt_ok = True
            found.append((cnt_ok, inner_ok, t["span"], show(row)[:60]))
        return found
    for nm, l, inner in (("wuw", wuw_l, width_p), ("wum", wum_l, None)):
        if l is None:
            ctx.fail("C01-R7", fn, nm, "cannot identify the `%s` vector" % nm, b.loc())
            continue
        fr = rows_of(l, inner)
        if not fr:
            ctx.fail("C01-R7", fn, nm + " rows", "no allocation of `%s` found" % nm, b.loc())
        for cnt_ok, inner_ok, span, rs in fr:
            if cnt_ok and inner_ok:
                ctx.ok("C01-R7", "%s: `length` entries%s" % (nm, ", each row allocated with the `width` field's value" if inner is not None else ""), cm.loc_of(span))
            else:
                ctx.fail("C01-R7", fn, nm + " shape", "`%s` is allocated as %s: row count matches length=%s, row width matches the width field (%s)=%s; band indices up to width-1 would go out of range" % (nm, rs, cnt_ok, width_p, inner_ok), cm.loc_of(span))
    # width = 2*max_width + 1 and length = frames of the first window's sequence
    wtxt = show(f["width"])
    if "max_width(windows)" in wtxt and to_poly(f["width"], lambda e: ("MW",) if e[0] == "call" and e[1].endswith("Windows::max_width") else None) == Poly.atom(("MW",)) * Poly.const(2) + Poly.const(1):
        ctx.ok("C01-R7", "width = 2*windows.max_width() + 1", b.loc())
    else:
        ctx.fail("C01-R7", fn, "width", "width = %s" % wtxt, b.loc())
    if show(f["length"]) == "len(parameters[0])":
        ctx.ok("C01-R7", "length = parameters[0].len() (frames after masking)", b.loc())
    else:
        ctx.fail("C01-R7", fn, "length", "length = %s" % show(f["length"]), b.loc())
