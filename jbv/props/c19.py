"""C19 - Voice sets and interpolation weights are validated."""
from ..expr import ExprBuilder, show, stores, root_of, walk, mut_arg_calls, to_poly, success_value, canon
from .. import paths
from . import common as cm

IW = "model::interporation_weight::"
SETTERS = {"set_duration": ("duration", False), "set_parameter": ("parameter", True), "set_gv": ("gv", True)}
GETTERS = {"get_duration": ("duration", False), "get_parameter": ("parameter", True), "get_gv": ("gv", True)}


def is_self(e):
    return e[0] == "arg" and e[1] == 1


def aggregates_of(p, adt):
    """bodies that build an aggregate of `adt` (struct literal / tuple-struct constructor)"""
    out = {}
    for path, b in p.bodies.items():
        for bb, i, st in b.iter_stmts():
            if st["k"] == "assign" and st["rv"]["k"] == "aggregate":
                kd = st["rv"]["kind"]
                if kd["k"] == "adt" and kd["def"] == adt:
                    out.setdefault(path, []).append((bb, st))
        # tuple-struct constructor used as a function value / call
        for bb, t in b.calls():
            c = t["callee"]
            if c["k"] == "fndef" and c.get("def") == adt and c.get("krate") == p.crate:
                out.setdefault(path, []).append((bb, t))
    return out


def contains_call(e, suffix, arg_pred=None):
    for x in walk(e):
        if x[0] == "call" and (x[1] == suffix or x[1].endswith(suffix)):
            if arg_pred is None or arg_pred(x[2]):
                return True
    return False


def accessor_agreement(ctx, p, rule):
    """set_X writes / get_X returns field X (element stream_index for the per-stream ones) and the
    index used is the stream_index parameter: shared by C19-R5 (validation) and C10-R3 (which
    weight vector each quantity is blended with)"""
    for name, (field, indexed) in SETTERS.items():
        b = cm.body_or_fail(ctx, p, rule, IW + "InterporationWeight::" + name)
        if b is None:
            continue
        eb = ExprBuilder(b)
        sts = [s for s in stores(b, eb) if is_self(s[4])]
        want = [field, "[]"] if indexed else [field]
        for bb, i, st, tgt, root, chain, val in sts:
            idx_ok = not indexed or (tgt[0] == "idx" and show(tgt[2]) == "stream_index")
            if chain == want and idx_ok:
                ctx.ok(rule, "%s writes self.%s%s" % (name, field, "[stream_index]" if indexed else ""), cm.loc_of(st["span"]))
            else:
                ctx.fail(rule, b.path, "store target", "%s writes %s, expected self.%s%s" % (name, show(tgt)[:80], field, "[stream_index]" if indexed else ""), cm.loc_of(st["span"]))
        if not sts:
            ctx.fail(rule, b.path, "no store", "%s stores nothing" % name, b.loc())
    for name, (field, indexed) in GETTERS.items():
        b = cm.body_or_fail(ctx, p, rule, IW + "InterporationWeight::" + name)
        if b is None:
            continue
        ret = ExprBuilder(b).local(0)
        r, ch = root_of(ret)
        want = [field, "[]"] if indexed else [field]
        idx_ok = not indexed or (ret[0] == "idx" and show(ret[2]) == "stream_index")
        if is_self(r) and ch == want and idx_ok:
            ctx.ok(rule, "%s returns self.%s%s" % (name, field, "[stream_index]" if indexed else ""), b.loc())
        else:
            ctx.fail(rule, b.path, "return value", "%s returns %s, expected self.%s%s" % (name, show(ret)[:80], field, "[stream_index]" if indexed else ""), b.loc())


def _is_loop_sum(b, eb, x):
    """x is `let mut s = 0.0; for w in weight { s += *w }` - the sum of the whole `weight` slice
    written as a loop (plain traversal, no skipping adaptor)"""
    import re as _re
    while x[0] == "call" and len(x[2]) == 1 and x[1].rsplit("::", 1)[-1] in ("deref", "borrow"):
        x = x[2][0]
    if not (x[0] == "var" and isinstance(x[1], int)):
        return False
    defs = eb.def_exprs(x[1])
    init = [d for d in defs if d[0] == "c" and float(d[1]) == 0.0]
    upd = [d for d in defs if d[0] == "bin" and d[1] == "Add" and (d[2] == x or d[3] == x)]
    if len(defs) != 2 or len(init) != 1 or len(upd) != 1:
        return False
    el = upd[0][3] if upd[0][2] == x else upd[0][2]
    return bool(_re.match(r"^\(<std::slice::Iter<'a, T> as std::iter::Iterator>::next\((?:[^()]*::(?:into_iter|iter)\()?weight\)?\) as Some\)\.0$", show(el)))


def helper_guards(p, call):
    """does the single Ok return of local helper `call` = h(self, .., weight, ..) sit behind the success
    edges of Weights::new(<its weight parameter>) and check_length(<that value>, self.nvoices)?"""
    hb = p.bodies[call[1]]
    heb = ExprBuilder(hb)
    wpos = [i + 1 for i, a in enumerate(call[2]) if a[0] == "arg" and not is_self(a)]
    oks = [(bb, e) for bb, e, item in paths.return_exprs(hb, heb) if paths.is_ok(e)]
    if len(oks) != 1 or len(wpos) != 1 or not any(is_self(a) for a in call[2]):
        return False, False
    bb, e = oks[0]
    gs = paths.guards(hb, bb, heb)
    wn = lambda args: len(args) == 1 and args[0][0] == "arg" and args[0][1] == wpos[0]

    def cl_ok(args):
        if len(args) != 2:
            return False
        from_new = any(x[0] == "call" and x[1] == IW + "Weights::new" and wn(x[2]) for x in heb.expand_all(args[0]))
        return from_new and show(args[1]) == "self.nvoices"
    payload_new = any(x[0] == "call" and x[1] == IW + "Weights::new" and wn(x[2]) for x in heb.expand_all(e))
    g_new = payload_new and any(g[0] == "ok" and contains_call(g[1], IW + "Weights::new", wn) for g in gs)
    g_len = payload_new and any(g[0] == "ok" and contains_call(g[1], IW + "Weights::check_length", cl_ok) for g in gs)
    return g_new, g_len


def run(ctx):
    ctx.rule("C19-R1", "constructor monopoly: VoiceSet is built only by VoiceSet::new (+derived Clone), Weights only by Weights::new/average; fields private; VoiceSet::new returns Ok only on the non-empty edge and EmptyVoice otherwise")
    ctx.rule("C19-R2", "VoiceSet::new compares every voice but the first on global metadata, stream count and every stream's metadata, returning MetadataError on inequality; the PartialEq impls are derived")
    ctx.rule("C19-R3", "Weights::new returns Ok only when the weight sum passes a comparison with 1.0 under a tolerance <= 1e-6, and stores exactly the checked values")
    ctx.rule("C19-R4", "set_duration/set_parameter/set_gv: the single store to self is dominated by the success edges of Weights::new(weight) and check_length(_, self.nvoices); the stored value is Weights::new's result; nothing is written on a rejecting path; nvoices is the voice count")
    ctx.rule("C19-R5", "set_X/get_X address field X for X in {duration, parameter, gv}")
    p = cm.program(ctx)

    # ---- R1
    for adt, allowed in (("model::voice_set::VoiceSet", {"model::voice_set::VoiceSet::new"}),
                         (IW + "Weights", {IW + "Weights::new", IW + "Weights::average"}),
                         (IW + "InterporationWeight", {IW + "InterporationWeight::new"})):
        a = p.adts.get(adt)
        if a is None:
            ctx.fail("C19-R1", adt, "anchor", "type not found")
            continue
        pubf = [f["name"] for v in a["variants"] for f in v["fields"] if f["vis"] == "pub"]
        if pubf:
            ctx.fail("C19-R1", adt, "public field " + ",".join(pubf), "a public field lets callers build or mutate %s without validation" % adt, cm.loc_of(a["span"]))
        else:
            ctx.ok("C19-R1", "%s: all fields private" % adt, cm.loc_of(a["span"]))
        builders = aggregates_of(p, adt)
        extra = []
        for path in builders:
            b = p.bodies[path]
            if path in allowed:
                continue
            if b.is_derived() and (b.impl or {}).get("trait", "").find("Clone") >= 0:
                continue
            if b.is_derived():
                continue  # Debug etc. never build the type; serde derives would show up here
            if adt == IW + "Weights":
                # the equal-share literal (the pinned tree's `average`): weights = vec![1/n; n] is
                # valid by construction wherever it is written (helper renamed / inlined)
                ebb = ExprBuilder(b)
                lits = [(bb_, i_, st_) for bb_, i_, st_ in b.iter_stmts() if st_.get("k") == "assign" and st_["rv"]["k"] == "aggregate" and st_["rv"]["kind"].get("def") == adt]
                uni = 0
                for bb_, i_, st_ in lits:
                    e_ = ebb.at(bb_, i_).rvalue(st_["rv"])
                    w_ = e_[2][0] if e_[0] == "agg" and e_[2] else None
                    if w_ is not None and w_[0] == "call" and w_[1].endswith("from_elem") and len(w_[2]) == 2:
                        v_, n_ = w_[2]
                        if v_[0] == "bin" and v_[1] == "Div" and v_[2][0] == "c" and v_[2][1] == 1.0 and v_[3][0] == "cast" and canon(v_[3][2]) == canon(n_):
                            uni += 1
                if lits and uni == len(lits):
                    ctx.ok("C19-R1", "%s builds Weights only as the equal-share literal vec![1/n; n]" % path, b.loc())
                    continue
            extra.append(path)
        if adt == IW + "Weights":
            # ... and the unvalidated constructor `average` builds exactly that literal: the default
            # weights of a multi-voice engine sum to 1 (sweep survivor: `1.0 * n` for `1.0 / n`)
            ab = p.body(IW + "Weights::average")
            if ab is not None:
                aeb = ExprBuilder(ab)
                okavg = False
                lits_ = [(bb_, i_, st_) for bb_, i_, st_ in ab.iter_stmts() if st_.get("k") == "assign" and st_["rv"]["k"] == "aggregate" and st_["rv"]["kind"].get("def") == adt]
                for bb_, i_, st_ in lits_:
                    e_ = aeb.at(bb_, i_).rvalue(st_["rv"])
                    w_ = e_[2][0] if e_[0] == "agg" and e_[2] else None
                    if w_ is not None and w_[0] == "call" and w_[1].endswith("from_elem") and len(w_[2]) == 2:
                        v_, n_ = w_[2]
                        if v_[0] == "bin" and v_[1] == "Div" and v_[2][0] == "c" and v_[2][1] == 1.0 and v_[3][0] == "cast" and canon(v_[3][2]) == canon(n_):
                            okavg = True
                if okavg and len(lits_) == 1:
                    ctx.ok("C19-R1", "Weights::average(n) = vec![1/n; n]: the default weights sum to 1", ab.loc())
                else:
                    ctx.fail("C19-R1", ab.path, "equal share", "Weights::average does not build vec![1.0 / n; n]: the default weights of a multi-voice engine are not the equal shares summing to 1", ab.loc())
        if extra:
            for e in extra:
                ctx.fail("C19-R1", e, "constructs " + adt, "%s is built outside its validating constructor" % adt, p.bodies[e].loc())
        else:
            ctx.ok("C19-R1", "%s built only in %s" % (adt, sorted(set(builders) & allowed)))
    b = cm.body_or_fail(ctx, p, "C19-R1", "model::voice_set::VoiceSet::new")
    if b is not None:
        eb = ExprBuilder(b)
        oks = [(bb, e) for bb, e, item in paths.return_exprs(b, eb) if paths.is_ok(e)]
        ctx.anchor("C19-R1", "VoiceSet::new Ok return", len(oks), 1, b.loc())
        for bb, e in oks:
            gs = paths.guards(b, bb, eb)
            nonempty = False
            for g in gs:
                txt = show(g[1])
                if g[0] in ("ok", "some") and "first(" in txt and "voices" in txt:
                    nonempty = True
                if g[0] == "false" and "is_empty(" in txt and "voices" in txt:
                    nonempty = True
                if g[0] in ("true", "false") and "len(voices)" in txt:
                    pos, cmp_ = paths.bool_atoms(g)
                    if cmp_[0] == "bin":
                        op, l, r = cmp_[1], cmp_[2], cmp_[3]
                        # len > 0 / len != 0 / len >= 1 (true)   |  len == 0 / len < 1 (false)
                        ls, rs = show(l), show(r)
                        if ls == "len(voices)" and r[0] == "c":
                            v = r[1]
                            if (pos and ((op in ("Gt", "Ne") and v == 0) or (op == "Ge" and v == 1))) or \
                               (not pos and ((op in ("Eq", "Le") and v == 0) or (op == "Lt" and v == 1))):
                                nonempty = True
            if nonempty:
                ctx.ok("C19-R1", "VoiceSet::new: Ok(..) is dominated by the non-empty edge (%s)" % "; ".join("%s %s" % (g[0], show(g[1])[:60]) for g in gs), b.loc())
            else:
                ctx.fail("C19-R1", b.path, "Ok return", "Ok(VoiceSet) is not dominated by a non-emptiness test on `voices` (guards: %s)" % [(g[0], show(g[1])[:60]) for g in gs], b.loc())
        # EmptyVoice is produced
        if any(x[0] == "agg" and x[1].endswith("ModelError::EmptyVoice") for bb, i, st in b.iter_stmts() if st["k"] == "assign" for x in walk(eb.rvalue(st["rv"]))):
            ctx.ok("C19-R1", "VoiceSet::new produces ModelError::EmptyVoice", b.loc())
        else:
            ctx.fail("C19-R1", b.path, "EmptyVoice", "the empty-list error is no longer produced", b.loc())

        # ---- R2
        errs = [(bb, e) for bb, e, item in paths.return_exprs(b, eb) if paths.is_err_of(e, "ModelError::MetadataError")]
        found = {"global": False, "count": False, "stream": False}
        # must-reach: the *inequality* outcome of each comparison, taken alone, has to end in
        # Err(MetadataError): from its target neither the next loop iteration nor an Ok return may be
        # reachable without passing an Err(MetadataError) return (`a != b && c != d` instead of two
        # separate tests satisfies the existence check above but not this one)
        err_blocks = set(bb for bb, e in errs)
        ok_blocks = [bb for bb, e, item in paths.return_exprs(b, eb) if paths.is_ok(e)]
        headers = [h for h, lb in b.natural_loops()]

        allform = []

        def predicate_covers(cb, reject=False):
            """kinds of comparison that hold on *every* path of the (loop-free) predicate closure on
            which it can return something other than `reject` (false for `all(pred)`, true for
            `any(!pred)`)"""
            if cb.natural_loops():
                return set()
            ebc = ExprBuilder(cb)
            edges = {}
            from ..expr import resolve_upvars as _ru

            def _res(g):
                # captured values (a hoisted `reference.stream_models.len()`) by value
                if len(g) > 1 and isinstance(g[1], tuple):
                    try:
                        return (g[0], _ru(p, cb, g[1])) + tuple(g[2:])
                    except Exception:  # noqa: BLE001
                        return g
                return g
            for sb, g, tg in paths.switch_outcomes(cb, ebc):
                edges.setdefault((sb, tg), []).append(_res(g))
            flip = lambda g: (("false" if g[0] == "true" else "true"),) + tuple(g[1:])
            covers = None
            stack = [(0, (), {}, 0)]
            npaths = 0
            while stack:
                bb, held, benv, depth = stack.pop()
                if depth > 200 or npaths > 256:
                    return set()
                benv = dict(benv)
                for idx, st in enumerate(cb.blocks[bb]["stmts"]):
                    if st["k"] != "assign" or st["place"]["proj"]:
                        continue
                    l = st["place"]["local"]
                    rv = st["rv"]
                    if rv["k"] == "use" and rv["op"].get("k") == "const" and "bool" in rv["op"]:
                        benv[l] = ("c", bool(rv["op"]["bool"]))
                    elif rv["k"] == "use" and rv["op"].get("k") in ("move", "copy") and not rv["op"]["place"]["proj"] and rv["op"]["place"]["local"] in benv:
                        benv[l] = benv[rv["op"]["place"]["local"]]
                    elif rv["k"] == "unop" and rv.get("op") == "Not" and rv["a"].get("k") in ("move", "copy") and not rv["a"]["place"]["proj"] \
                            and rv["a"]["place"]["local"] in benv:
                        src_ = benv[rv["a"]["place"]["local"]]
                        benv[l] = ("c", not src_[1]) if src_[0] == "c" else ("e", ("un", "Not", src_[1]))
                    else:
                        benv[l] = ("e", ebc.at(bb, idx).rvalue(rv))
                t = cb.blocks[bb]["term"]
                if t["k"] == "call" and not t["dest"]["proj"]:
                    benv[t["dest"]["local"]] = ("e", ebc.at(bb).call(t))
                if t["k"] == "return":
                    npaths += 1
                    r = benv.get(0)
                    if r is not None and r[0] == "c" and r[1] is reject:
                        continue
                    ks = set(held)
                    if r is not None and r[0] == "e":
                        k = classify(_res(("true" if reject else "false", r[1])))
                        if k:
                            ks.add(k)
                    covers = ks if covers is None else covers & ks
                    continue
                for sx in cb.succs(bb):
                    if cb.is_cleanup(sx):
                        continue
                    h2 = held
                    for g in edges.get((bb, sx), []):
                        k = classify(flip(g)) if g[0] in ("true", "false") else None
                        if k:
                            h2 = h2 + (k,)
                    stack.append((sx, h2, benv, depth + 1))
            return covers or set()

        def classify(g):
            if g[0] not in ("true", "false"):
                return None
            pos, cmp_ = paths.bool_atoms(g)
            txt = show(cmp_)
            if cmp_[0] == "call" and ((cmp_[1].endswith("PartialEq::ne") or cmp_[1].endswith("PartialEq>::ne")) and pos or
                                      (cmp_[1].endswith("PartialEq::eq") or cmp_[1].endswith("PartialEq>::eq")) and not pos):
                a0, a1 = show(cmp_[2][0]), show(cmp_[2][1])
                if a0.endswith(".metadata") and a1.endswith(".metadata") and "stream_models" not in a0 + a1 and a0 != a1:
                    return "global"
                if a0.endswith(".metadata") and a1.endswith(".metadata") and "stream_models" in a0 + a1 and "::zip(" in a0 + a1 and a0 != a1:
                    return "stream"      # loop form: for (s, r) in a.stream_models.iter().zip(b.stream_models) { if s.metadata != r.metadata .. }
            if cmp_[0] == "bin" and ((cmp_[1] == "Ne" and pos) or (cmp_[1] == "Eq" and not pos)):
                l, r = show(cmp_[2]), show(cmp_[3])
                if l.startswith("len(") and r.startswith("len(") and "stream_models" in l and "stream_models" in r and l != r:
                    return "count"
            if cmp_[0] == "call" and cmp_[1].endswith("::any") and "Iterator" in cmp_[1] and pos and len(cmp_[2]) == 2:
                # `others.iter().any(|voice| !<the three comparisons>)`
                for cl in [x for x in walk(cmp_[2][1]) if x[0] == "agg" and x[1].startswith("closure:")]:
                    cb = p.bodies.get(cl[1][len("closure:"):])
                    if cb is not None and predicate_covers(cb, reject=True) == {"global", "count", "stream"}:
                        allform.append(show(cmp_[2][0]))
                        return "all"
            if cmp_[0] == "call" and cmp_[1].endswith("::all") and "Iterator" in cmp_[1] and not pos and "stream_models" not in txt and len(cmp_[2]) == 2:
                # `others.iter().all(|voice| <the three comparisons>)`: one test, whose predicate
                # returns true only when all three comparisons hold
                for cl in [x for x in walk(cmp_[2][1]) if x[0] == "agg" and x[1].startswith("closure:")]:
                    cb = p.bodies.get(cl[1][len("closure:"):])
                    if cb is not None and predicate_covers(cb) == {"global", "count", "stream"}:
                        allform.append(show(cmp_[2][0]))
                        return "all"
            if cmp_[0] == "call" and cmp_[1].endswith("::all") and "Iterator" in cmp_[1] and not pos and "stream_models" in txt and "zip" in txt:
                # the predicate closure compares the two metadata fields with ==
                for cl in [x for x in walk(cmp_) if x[0] == "agg" and x[1].startswith("closure:")]:
                    cb = p.bodies.get(cl[1][len("closure:"):])
                    if cb is None:
                        continue
                    r = ExprBuilder(cb).local(0)
                    if r[0] == "call" and r[1].endswith("PartialEq>::eq"):
                        x0, x1 = show(r[2][0]), show(r[2][1])
                        if x0.endswith(".metadata") and x1.endswith(".metadata") and x0 != x1:
                            return "stream"
            return None
        escapes = {}
        sw_of = {}
        for sb, g, tg in paths.switch_outcomes(b, eb):
            k = classify(g)
            if k is None:
                continue
            esc = [x for x in headers + ok_blocks if b.can_reach(tg, x, avoid=err_blocks)]
            escapes.setdefault(k, []).append(bool(esc))
            sw_of.setdefault(k, set()).add(sb)
        # ... and no comparison can be skipped: an iteration cannot get from the loop body's entry to
        # the next iteration / the Ok return around the comparison's test
        all_loops = b.natural_loops()

        def loop_entries(h_, lb_):
            # the iteration proper starts on the `Some` outcome of the loop's own iterator next()
            inner = set()
            for h2_, lb2_ in all_loops:
                if h2_ != h_ and h2_ in lb_:
                    inner |= set(lb2_)
            return [tg for sb, g, tg in paths.switch_outcomes(b, eb) if sb in lb_ and sb not in inner and tg in lb_ and g[0] == "some" and "::next(" in show(g[1])]
        for h, lb in all_loops:
            if any(h2 != h and h in lb2 for h2, lb2 in all_loops):
                continue      # an inner loop: judged as part of the iteration of its outer loop
            entries = loop_entries(h, lb)
            if not entries:
                ctx.note("C19-R2: loop iteration entry not identified; the unskippable-comparison clause was not evaluated")
                continue
            for k, sbs in sw_of.items():
                inner = [(h2, lb2) for h2, lb2 in all_loops if h2 != h and h2 in lb and sbs and all(x in lb2 for x in sbs)]
                if inner:
                    # the comparison sits in an inner loop (one test per stream): the inner loop
                    # cannot be skipped by an outer iteration, and no inner iteration can skip the test
                    h2, lb2 = inner[0]
                    skipped = any(b.can_reach(en, x, avoid=err_blocks | {h2}) for en in entries for x in [h] + ok_blocks) or \
                        any(b.can_reach(en2, h2, avoid=err_blocks | sbs) for en2 in loop_entries(h2, lb2))
                else:
                    skipped = any(b.can_reach(en, x, avoid=err_blocks | sbs) for en in entries for x in [h] + ok_blocks)
                if skipped:
                    found[k] = False
                    ctx.fail("C19-R2", b.path, "comparison skipped " + k, "an iteration over a further voice can complete without evaluating the %s comparison (it sits behind another condition)" % k, b.loc())
                else:
                    ctx.ok("C19-R2", "every iteration evaluates the %s comparison" % k, b.loc())
        if "all" in escapes and not any(escapes["all"]):
            # the single `all` test must not be skippable either
            skipped = any(b.can_reach(0, x, avoid=err_blocks | sw_of["all"]) for x in ok_blocks)
            if skipped:
                ctx.fail("C19-R2", b.path, "comparison skipped all", "Ok(VoiceSet) can be returned without evaluating the compatibility test", b.loc())
            else:
                ctx.ok("C19-R2", "the failing outcome of `all(|voice| global == && count == && streams ==)` always ends in Err(MetadataError), and the test cannot be skipped", b.loc())
                for k in ("global", "count", "stream"):
                    found[k] = True
        elif "all" in escapes:
            ctx.fail("C19-R2", b.path, "inequality accepted all", "when the compatibility predicate fails for a voice the set can still be accepted", b.loc())
        for k in ("global", "count", "stream"):
            if k in escapes and not any(escapes[k]):
                found[k] = True
                ctx.ok("C19-R2", "the failing outcome of the %s comparison always ends in Err(MetadataError)" % k, b.loc())
            elif k in escapes:
                found[k] = False
                ctx.fail("C19-R2", b.path, "inequality accepted " + k, "when the %s comparison fails the voice can still be accepted: from that outcome the next iteration / the Ok return is reachable without an Err(MetadataError) (comparisons joined with && instead of tested separately?)" % k, b.loc())
        for k, v in found.items():
            if v:
                ctx.ok("C19-R2", "VoiceSet::new returns MetadataError when the %s comparison fails" % k, b.loc())
            else:
                ctx.fail("C19-R2", b.path, "comparison " + k, "no MetadataError return guarded by the %s metadata comparison" % k, b.loc())
        # loop covers every voice but the first: iterator source is voices[1..] / iter().skip(1)
        src_ok = False
        for bb, t in b.calls():
            e = eb.call(t)
            if e[0] == "idx" and show(e[1]) == "voices" and e[2][0] == "agg" and e[2][1].endswith("RangeFrom::RangeFrom"):
                st0 = e[2][2][0]
                if st0[0] == "c" and st0[1] in (0, 1):
                    src_ok = True
            if e[0] == "call" and e[1].endswith("Iterator::skip") and e[2][1][0] == "c" and e[2][1][1] in (0, 1) and "voices" in show(e[2][0]):
                src_ok = True
        if not src_ok and allform and all("split_first(voices)" in a and a.endswith(".1") for a in allform):
            src_ok = True      # (first, rest) = voices.split_first(); rest.iter().all(..)
        if not src_ok:
            # (first, rest) = voices.split_first(); for v in rest { .. }
            for bb, t in b.calls():
                nm = cm.callee_name(t["callee"]) if t["callee"]["k"] == "fndef" else ""
                if nm.endswith("into_iter") or nm.endswith("::iter"):
                    a = show(eb.at(bb).op(t["args"][0]))
                    if "split_first(voices)" in a and a.endswith(".1"):
                        src_ok = True
        if not src_ok:
            # plain iteration over all voices
            for bb, t in b.calls():
                nm = cm.callee_name(t["callee"]) if t["callee"]["k"] == "fndef" else ""
                if nm.endswith("into_iter") and show(eb.op(t["args"][0])) == "voices":
                    src_ok = True
        if src_ok:
            ctx.ok("C19-R2", "comparison loop starts at voice index <= 1", b.loc())
        else:
            ctx.fail("C19-R2", b.path, "loop range", "the comparison loop does not cover every voice after the first", b.loc())
    for ty in ("model::voice::GlobalModelMetadata", "model::voice::StreamModelMetadata"):
        ims = [im for im in p.impls if im.get("self_adt") == ty and (im.get("trait") or "").endswith("cmp::PartialEq")]
        if ims and all(im["derived"] for im in ims):
            ctx.ok("C19-R2", "%s: PartialEq is derived (all fields compared)" % ty, cm.loc_of(ims[0]["span"]))
        else:
            ctx.fail("C19-R2", ty, "impl PartialEq", "PartialEq is missing or hand-written: equality need not cover every field", None)

    # ---- R3
    b = cm.body_or_fail(ctx, p, "C19-R3", IW + "Weights::new")
    if b is not None:
        eb = ExprBuilder(b)
        oks = [(bb, e) for bb, e, item in paths.return_exprs(b, eb) if paths.is_ok(e)]
        ctx.anchor("C19-R3", "Weights::new Ok return", len(oks), 1, b.loc())
        for bb, e in oks:
            good = None
            for g in paths.guards(b, bb, eb):
                if g[0] not in ("true", "false"):
                    continue
                pos, c = paths.bool_atoms(g)
                # approx: AbsDiff::ne(eps_builder, &sum, &1.0) false / ::eq true ; Relative likewise
                if c[0] == "call" and ("approx::AbsDiff" in c[1] or "approx::Relative" in c[1] or "approx::Ulps" in c[1]):
                    m = c[1].rsplit("::", 1)[-1]
                    if (m == "ne" and not pos) or (m == "eq" and pos):
                        builder, lhs, rhs = c[2]
                        sides = [lhs, rhs]
                        has_sum = any(x[0] == "call" and x[1].endswith("Iterator::sum") and "weight" in show(x) for s in sides for x in walk(s)) \
                            or any(_is_loop_sum(b, eb, s) for s in sides)
                        has_one = any(s[0] == "c" and float(s[1]) == 1.0 for s in sides) or any(
                            x[0] == "c" and x[1] == 1 for s in sides for x in walk(s) if s[0] != "call")
                        # epsilon: default (f64::EPSILON) or .epsilon(c) with c <= 1e-6
                        eps_ok = True
                        for x in walk(builder):
                            if x[0] == "call" and x[1].endswith("::epsilon"):
                                cs = [a for a in x[2] if a[0] == "c"]
                                if not cs or float(cs[0][1]) > 1e-6:
                                    eps_ok = False
                            if x[0] == "call" and (x[1].endswith("::max_relative") or x[1].endswith("::max_ulps")):
                                eps_ok = False
                        if has_sum and has_one and eps_ok:
                            good = "approx %s(sum(weight), 1.0) with epsilon <= 1e-6" % m
                # manual: abs(sum - 1) > eps false / <= eps true
                if c[0] == "bin" and c[1] in ("Gt", "Ge", "Lt", "Le"):
                    l, r = c[2], c[3]
                    if c[1] in ("Lt", "Le"):
                        small, big = l, r
                        inside = pos
                    else:
                        small, big = r, l
                        inside = not pos
                    # small = |sum-1| , big = eps   and we are on the `small <= big` side
                    if small[0] == "call" and small[1] == "f64::abs" and big[0] == "c" and float(big[1]) <= 1e-6 and inside:
                        pol = to_poly(small[2][0])
                        if len(pol.t) == 2 and abs(pol.t.get((), 0)) == 1 and "sum" in show(small[2][0]).lower():
                            good = "|sum - 1| <= %g" % float(big[1])
            if good:
                ctx.ok("C19-R3", "Weights::new: Ok is dominated by the passing edge of %s" % good, b.loc())
            else:
                ctx.fail("C19-R3", b.path, "Ok return", "Ok(Weights) is not dominated by a sum-equals-1 check with tolerance <= 1e-6", b.loc())
            # stored values = the checked slice
            inner = e[2][0]
            if inner[0] == "agg" and inner[3] == ("weights",):
                w = inner[2][0]
                if w[0] == "call" and w[1].endswith("to_vec") and w[2][0][0] == "arg" and w[2][0][1] == 1:
                    ctx.ok("C19-R3", "Weights::new stores weight.to_vec() (the checked values)", b.loc())
                else:
                    ctx.fail("C19-R3", b.path, "stored weights", "stored vector is %s, not a copy of the checked argument" % show(w), b.loc())
        if not any(paths.is_err_of(e, "WeightError::InvalidSum") for bb, e, item in paths.return_exprs(b, eb)):
            ctx.fail("C19-R3", b.path, "InvalidSum", "the sum error is no longer returned", b.loc())

    # ---- R4 / R5
    b = p.body(IW + "Weights::check_length")
    have_cl = b is not None
    if b is not None:
        eb = ExprBuilder(b)
        good = False
        for bb, e, item in paths.return_exprs(b, eb):
            if paths.is_err_of(e, "WeightError::InvalidLength"):
                for g in paths.guards(b, bb, eb):
                    if g[0] in ("true", "false"):
                        pos, c = paths.bool_atoms(g)
                        if c[0] == "bin" and ((c[1] == "Ne" and pos) or (c[1] == "Eq" and not pos)):
                            s = {show(c[2]), show(c[3])}
                            if s == {"len(self.weights)", "length"}:
                                good = True
        oks = [bb for bb, e, item in paths.return_exprs(b, eb) if paths.is_ok(e)]
        ok_guarded = False
        for bb in oks:
            for g in paths.guards(b, bb, eb):
                if g[0] in ("true", "false"):
                    pos, c = paths.bool_atoms(g)
                    if c[0] == "bin" and ((c[1] == "Eq" and pos) or (c[1] == "Ne" and not pos)) and {show(c[2]), show(c[3])} == {"len(self.weights)", "length"}:
                        ok_guarded = True
        if good and ok_guarded:
            ctx.ok("C19-R4", "check_length: Err iff self.weights.len() != length", b.loc())
        else:
            ctx.fail("C19-R4", b.path, "length comparison", "check_length does not return Err exactly when self.weights.len() != length", b.loc())

    for name, (field, indexed) in SETTERS.items():
        b = cm.body_or_fail(ctx, p, "C19-R4", IW + "InterporationWeight::" + name)
        if b is None:
            continue
        eb = ExprBuilder(b)
        warg = b.argc  # weight slice is the last parameter
        sts = [s for s in stores(b, eb) if is_self(s[4])]
        if len(sts) != 1:
            ctx.fail("C19-R4", b.path, "stores", "expected exactly one store through self, found %d" % len(sts), b.loc())
            continue
        bb, i, st, tgt, root, chain, val = sts[0]
        want = [field, "[]"] if indexed else [field]
        if chain == want:
            ctx.ok("C19-R5", "%s writes self.%s" % (name, ".".join(chain)), cm.loc_of(st["span"]))
        else:
            ctx.fail("C19-R5", b.path, "store target", "%s writes self.%s, expected self.%s" % (name, ".".join(chain), ".".join(want)), cm.loc_of(st["span"]))
        # value stored = Ok payload of Weights::new(weight)
        wn = lambda args: len(args) == 1 and args[0][0] == "arg" and args[0][1] == warg
        val_all = list(eb.expand_all(val))
        # a local validating helper `fn h(&self, weight) -> Result<Weights, _>` is looked through
        helper = None
        for x in val_all:
            if x[0] == "call" and x[1] in p.bodies and x[1] != IW + "Weights::new" and p.bodies[x[1]].kind != "Closure" and any(wn((a,)) for a in x[2]):
                helper = x
        if helper is not None:
            val_all = val_all + list(walk(success_value(p, val, keep=(IW + "Weights::new",))))
        if any(x[0] == "call" and x[1] == IW + "Weights::new" and wn(x[2]) for x in val_all):
            ctx.ok("C19-R4", "%s stores the value produced by Weights::new(weight)" % name, cm.loc_of(st["span"]))
        else:
            ctx.fail("C19-R4", b.path, "stored value", "stored value %s is not the result of Weights::new(weight)" % show(val), cm.loc_of(st["span"]))
        gs = paths.guards(b, bb, eb)
        g_new = any(g[0] == "ok" and contains_call(g[1], IW + "Weights::new", wn) for g in gs)

        def cl_ok(args):
            if len(args) != 2:
                return False
            a0 = list(eb.expand_all(args[0]))
            from_new = any(x[0] == "call" and x[1] == IW + "Weights::new" for x in a0)
            return from_new and show(args[1]) == "self.nvoices"
        g_len = any(g[0] == "ok" and contains_call(g[1], IW + "Weights::check_length", cl_ok) for g in gs)
        if helper is not None and any(g[0] == "ok" and contains_call(g[1], helper[1]) for g in gs):
            hn, hl = helper_guards(p, helper)
            g_new, g_len = g_new or hn, g_len or hl
        # the comparison itself in front of the store (the check written out, or a helper that was
        # folded into the setter): len(<new weights>.weights) == self.nvoices on the dominating edge
        for g in gs:
            if g[0] in ("true", "false"):
                pos, c = paths.bool_atoms(g)
                if c[0] == "bin" and ((c[1] == "Eq" and pos) or (c[1] == "Ne" and not pos)):
                    for l_, r_ in ((c[2], c[3]), (c[3], c[2])):
                        if show(r_) == "self.nvoices" and l_[0] == "len" and l_[1][0] == "field" and l_[1][2] == "weights" \
                                and any(x[0] == "call" and x[1] == IW + "Weights::new" and wn(x[2]) for x in eb.expand_all(l_[1][1])):
                            g_len = True
        if g_new:
            ctx.ok("C19-R4", "%s: store dominated by the success edge of Weights::new(weight)" % name, cm.loc_of(st["span"]))
        else:
            ctx.fail("C19-R4", b.path, "sum check", "the assignment is not dominated by the success edge of Weights::new(weight): an invalid sum could be stored", cm.loc_of(st["span"]))
        if g_len:
            ctx.ok("C19-R4", "%s: store dominated by the success edge of check_length(weights, self.nvoices)" % name, cm.loc_of(st["span"]))
        else:
            ctx.fail("C19-R4", b.path, "length check", "the assignment is not dominated by the success edge of check_length(<new weights>, self.nvoices)%s: a wrong-length vector could be stored, or the old weights lost on rejection" % ("" if have_cl else " (no such function any more) or by the comparison len(weights) == self.nvoices itself"), cm.loc_of(st["span"]))
        # no other way to modify self
        for cbb, t, cname, k, ref in mut_arg_calls(b, eb):
            r, ch = root_of(ref)
            if is_self(r) and "index_mut" not in cname:
                ctx.fail("C19-R4", b.path, "call " + cname, "self is passed mutably to another function (could modify weights on a rejecting path)", cm.loc_of(t["span"]))
            elif is_self(r):
                # index_mut itself must also be dominated by both checks (it does not modify)
                pass
    for name, (field, indexed) in GETTERS.items():
        b = cm.body_or_fail(ctx, p, "C19-R5", IW + "InterporationWeight::" + name)
        if b is None:
            continue
        ret = ExprBuilder(b).local(0)
        r, ch = root_of(ret)
        want = [field, "[]"] if indexed else [field]
        if is_self(r) and ch == want:
            ctx.ok("C19-R5", "%s returns self.%s" % (name, ".".join(ch)), b.loc())
        else:
            ctx.fail("C19-R5", b.path, "return value", "%s returns %s, expected self.%s" % (name, show(ret), ".".join(want)), b.loc())

    # nvoices = number of voices
    b = cm.body_or_fail(ctx, p, "C19-R4", IW + "InterporationWeight::new")
    if b is not None:
        ret = ExprBuilder(b).local(0)
        if ret[0] == "agg" and "nvoices" in ret[3]:
            v = ret[2][ret[3].index("nvoices")]
            if v[0] == "arg" and v[1] == 1:
                ctx.ok("C19-R4", "InterporationWeight::new stores its first parameter in nvoices", b.loc())
            else:
                ctx.fail("C19-R4", b.path, "field nvoices", "nvoices = %s" % show(v), b.loc())
    writers = set()
    for path, bd in p.bodies.items():
        if bd.is_derived():
            continue
        for bb, i, st in bd.iter_stmts():
            if st["k"] == "assign":
                for e in st["place"]["proj"]:
                    if e["k"] == "field" and e.get("name") == "nvoices" and e.get("of") == IW + "InterporationWeight":
                        writers.add(path)
    if writers:
        for w in sorted(writers):
            ctx.fail("C19-R4", w, "store nvoices", "nvoices is modified after construction", p.bodies[w].loc())
    else:
        ctx.ok("C19-R4", "nvoices is never assigned after construction")
    b = cm.body_or_fail(ctx, p, "C19-R4", "engine::Condition::load_model")
    if b is not None:
        eb = ExprBuilder(b)
        calls = cm.local_calls(b, p, exact=IW + "InterporationWeight::new")
        good = False
        for bb, t in calls:
            a0 = eb.op(t["args"][0])
            if a0[0] == "call" and a0[1] == "model::voice_set::VoiceSet::len" and show(a0[2][0]) == "voices":
                good = True
            if a0[0] == "len" and "voices" in show(a0):
                good = True
        if good:
            ctx.ok("C19-R4", "load_model builds InterporationWeight::new(voices.len(), ..)", b.loc())
        else:
            ctx.fail("C19-R4", b.path, "InterporationWeight::new argument", "nvoices is not initialised with the number of voices", b.loc())
    b = cm.body_or_fail(ctx, p, "C19-R4", "model::voice_set::VoiceSet::len")
    if b is not None:
        ret = ExprBuilder(b).local(0)
        if show(ret) == "len(self.0)":
            ctx.ok("C19-R4", "VoiceSet::len = number of voices", b.loc())
        else:
            ctx.fail("C19-R4", b.path, "return value", "len() returns %s" % show(ret), b.loc())

    ctx.assume("approx's AbsDiff default epsilon is f64::EPSILON (approx 0.5.1)")
    ctx.assume("NaN weights: sum is NaN, abs_diff_ne(NaN, 1) is true, so rejected -- follows from the comparison form")
    expl = ("Construct-set (who builds VoiceSet/Weights), dominance of Ok returns and of the setters' single store by the "
            "normalised success edges of the validating calls, error returns guarded by each metadata comparison, derived "
            "PartialEq, field/name agreement of setters and getters. Covers every history of valid/invalid updates because a "
            "rejected update provably executes no store.")
    return expl, ["rustc MIR", "approx crate semantics of abs_diff_ne", "derive(PartialEq) compares all fields"]
