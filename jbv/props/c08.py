"""C08 - Speaking rate scales the utterance, never below one frame per state."""
from ..expr import ExprBuilder, show, stores, root_of, walk, to_poly, Poly, to_clamp, Clamp, POS_INF, canon
from .. import paths
from . import common as cm

DE = "duration::DurationEstimator::"


def closure_body(p, e):
    """body of the closure aggregate found in expression e (first one)"""
    for x in walk(e):
        if x[0] == "agg" and x[1].startswith("closure:"):
            return p.bodies.get(x[1][len("closure:"):])
    return None


def _two_loop_form(fl, eb, loops, tcanon):
    """the sum variable if `loops` are two sequential while-loops whose only exits are the false
    edges of `sum < target` and `sum > target` (one each), else None"""
    seen = set()
    sumvar = None
    for h, lb in loops:
        exits = [(b, s) for b in lb for s in fl.succs(b) if s not in lb and any(fl.blocks[x]["term"]["k"] == "return" for x in fl.reach_from(s))]
        if len(exits) != 1:
            return None
        b, s = exits[0]
        t = fl.blocks[b]["term"]
        if t["k"] != "switch":
            return None
        d = eb.at(b).op(t["discr"])
        if not (d[0] == "bin" and d[1] in ("Lt", "Gt")):
            return None
        names = [show(d[2]), show(d[3])]
        if tcanon not in names:
            return None
        other = (d[2], d[3])[1 - names.index(tcanon)]
        if other[0] != "var" or (sumvar is not None and other != sumvar):
            return None
        sumvar = other
        # the exit is the false edge (value 0)
        val = [v for v, tg in list(t["targets"]) + [(None, t["otherwise"])] if tg == s]
        if val != [0]:
            return None
        sum_less = (d[1] == "Lt") == (names.index(tcanon) == 1)      # sum < target
        seen.add("lt" if sum_less else "gt")
    if seen != {"lt", "gt"}:
        return None
    # in sequence: one loop's header is reached from the other's exit, never the reverse
    (h1, l1), (h2, l2) = loops
    if not ((fl.can_reach(h1, h2) and not fl.can_reach(h2, h1)) or (fl.can_reach(h2, h1) and not fl.can_reach(h1, h2))):
        return None
    return sumvar


def floor_form(ctx, p, rule, cb, want_rho=True, value=None, rho_is=None):
    """closure of estimate_duration: returns cast(max(round(mean + rho*vari), c>=1)) -> bool.
    With `value` given, judges that expression instead of the closure's return value (loop form:
    the pushed element), `rho_is(atom)` saying which atom is rho there."""
    if value is None:
        eb = ExprBuilder(cb)
        ret = eb.local(0)
    else:
        ret = value
    if not (ret[0] == "cast" and ret[1] == "usize"):
        ctx.fail(rule, cb.path, "return value", "per-state duration is %s, expected a float->usize cast of a floored, rounded value" % show(ret), cb.loc())
        return False
    inner = ret[2]
    # clamp domain w.r.t. the rounded value
    rounded = [x for x in walk(inner) if x[0] == "call" and x[1] in ("f64::round", "f64::round_ties_even", "f64::floor", "f64::ceil", "f64::trunc")]
    if not rounded or rounded[0][1] != "f64::round":
        ctx.fail(rule, cb.path, "rounding", "duration is not round(..) of the model value: %s" % show(inner), cb.loc())
        return False
    r = rounded[0]
    cl = to_clamp(inner, lambda e: e == r)
    if cl is None or cl.hi != POS_INF or cl.lo < 1:
        ctx.fail(rule, cb.path, "one-frame floor", "per-state duration %s is not max(round(..), c) with c >= 1 (found %s)" % (show(inner), cl), cb.loc())
        return False
    pol = to_poly(r[2][0])
    mean = Poly.atom(("field", ("arg", 2), "0"))
    vari = Poly.atom(("field", ("arg", 2), "1"))
    rho = Poly.atom(("upvar", "rho"))
    # canonical atoms: arguments are canonicalised by name; pattern parameter has no name
    cand = [a for a in pol.atoms()]
    txt = repr(pol)
    okp = False
    # structural: exactly two terms: one atom X (mean) with coeff 1, one product rho*Y
    if len(pol.t) == 2:
        monos = sorted(pol.t.items(), key=lambda kv: len(kv[0]))
        (m1, c1), (m2, c2) = monos
        if c1 == 1 and c2 == 1 and len(m1) == 1 and len(m2) == 2:
            a_mean = m1[0][0]
            names = [a for a, e in m2]
            is_rho = rho_is or (lambda a: isinstance(a, tuple) and a[0] == "upvar" and a[1].lstrip("*") == "rho")
            has_rho = any(is_rho(a) for a in names)
            others = [a for a in names if not is_rho(a)]
            if has_rho and others and a_mean[0] == "field" and others[0][0] == "field" and a_mean[2] == "0" and others[0][2] == "1" and a_mean[1] == others[0][1]:
                okp = True
    if not okp:
        ctx.fail(rule, cb.path, "model value", "rounded value is %s, expected mean + rho*variance of the state's Gaussian" % txt, cb.loc())
        return False
    ctx.ok(rule, "per-state duration = cast(max(round(mean + rho*vari), %g))" % cl.lo, cb.loc())
    return True


def candidate_filtered(fl, tgt):
    """hand-written arg-min: the decremented element is `unwrap(best).0` (or `(best as Some).0.0`)
    where every `best = Some((elem, ..))` assignment is dominated by `*elem > 1`"""
    from ..expr import alternatives
    eb = ExprBuilder(fl)
    # the Option local the element reference is taken from
    cand = None
    for x in walk(tgt):
        if x[0] == "call" and x[1].endswith("Option::<T>::unwrap") and x[2] and x[2][0][0] == "var" and isinstance(x[2][0][1], int):
            cand = x[2][0][1]
        if x[0] == "variant" and x[2] == "Some" and x[1][0] == "var" and isinstance(x[1][1], int):
            cand = x[1][1]
    if cand is None:
        # var nodes may carry the name instead of the local number
        for x in walk(tgt):
            if x[0] == "var":
                for l, d in enumerate(fl.locals):
                    if (d.get("name") == x[1] or l == x[1]) and str(d.get("ty", "")).startswith("std::option::Option<(&mut usize"):
                        cand = l
    if cand is None:
        return False
    somes = 0
    work = [(d, 0) for d in fl.defs().get(cand, [])]
    while work:
        (dbb, di, item), depth = work.pop()
        if fl.is_cleanup(dbb) or di == "term":
            continue
        rv = item["rv"]
        if rv["k"] == "aggregate" and rv["kind"].get("variant") == "None":
            continue
        if rv["k"] == "use" and rv["op"].get("k") in ("move", "copy") and not rv["op"]["place"]["proj"] and depth < 4:
            work.extend((d, depth + 1) for d in fl.defs().get(rv["op"]["place"]["local"], []))
            continue
        if not (rv["k"] == "aggregate" and rv["kind"].get("variant") == "Some"):
            return False
        e = eb.at(dbb, di).rvalue(rv)
        pay = e[2][0] if e[0] == "agg" and e[2] else None
        elem = pay[2][0] if pay is not None and pay[0] == "agg" and pay[1] == "tuple" and pay[2] else pay
        if elem is None:
            return False
        es = show(elem)
        good = False
        for g in paths.guards(fl, dbb, eb):
            if g[0] in ("true", "false"):
                pos, c = paths.bool_atoms(g)
                if c[0] == "bin" and show(c[2]) == es and c[3][0] == "c" and isinstance(c[3][1], int):
                    k = c[3][1]
                    if (c[1] == "Gt" and pos and k >= 1) or (c[1] == "Ge" and pos and k >= 2) or (c[1] == "Le" and not pos and k >= 1) or (c[1] == "Lt" and not pos and k >= 2):
                        good = True
        if not good:
            return False
        somes += 1
    return somes >= 1


def _root_bool(fl, op):
    """chase plain copies of a switch discriminant back to the local it reads: (local, negated)"""
    neg = False
    n = 0
    while n < 8:
        n += 1
        if op.get("k") not in ("move", "copy") or op["place"]["proj"]:
            return None, neg
        l = op["place"]["local"]
        ds = [d for d in fl.defs().get(l, []) if not fl.is_cleanup(d[0])]
        if len(ds) == 1 and ds[0][1] != "term":
            rv = ds[0][2]["rv"]
            if rv["k"] == "use" and rv["op"].get("k") in ("move", "copy") and not rv["op"]["place"]["proj"]:
                op = rv["op"]
                continue
            if rv["k"] == "unop" and rv.get("op") == "Not" and rv["a"].get("k") in ("move", "copy") and not rv["a"]["place"]["proj"]:
                op = rv["a"]
                neg = not neg
                continue
        return l, neg
    return None, neg


def candidate_filtered_index(fl, tgt, store_bb):
    """hand-written arg-min by *index*: the decremented element is `v[unwrap(best).0]`, where every
    `best = Some((i, ..))` assignment sits in a loop over `v.iter()..enumerate()` whose item is
    `(i, (&v[i], ..))`, and on every path of the loop body from the item to the assignment either
    `v[i] > 1` was tested, or a flag was tested with the value opposite to the one that dominates
    the decrement (one loop serving both directions: `if !lengthen && frames <= 1 { continue }`)"""
    eb = ExprBuilder(fl)
    if not (tgt[0] == "idx"):
        return False
    vec, ix = tgt[1], tgt[2]
    cand = None
    for x in walk(ix):
        if x[0] == "call" and x[1].endswith("Option::<T>::unwrap") and x[2] and x[2][0][0] == "var" and isinstance(x[2][0][1], int):
            cand = x[2][0][1]
        if x[0] == "variant" and x[2] == "Some" and x[1][0] == "var" and isinstance(x[1][1], int):
            cand = x[1][1]
    if cand is None:
        return False
    # flags that dominate the decrement: (root local, value)
    site_flags = {}
    for sb, t, val in fl.guards(store_bb):
        if t.get("discr_ty") != "bool" or not isinstance(val, int):
            continue
        l, neg = _root_bool(fl, t["discr"])
        if l is not None:
            site_flags[l] = bool(val) != neg
    loops = dict(fl.natural_loops())
    preds = fl.preds()
    somes = 0
    work = [(d, 0) for d in fl.defs().get(cand, [])]
    while work:
        (dbb, di, item), depth = work.pop()
        if fl.is_cleanup(dbb) or di == "term":
            continue
        rv = item["rv"]
        if rv["k"] == "aggregate" and rv["kind"].get("variant") == "None":
            continue
        if rv["k"] == "use" and rv["op"].get("k") in ("move", "copy") and not rv["op"]["place"]["proj"] and depth < 4:
            work.extend((d, depth + 1) for d in fl.defs().get(rv["op"]["place"]["local"], []))
            continue
        if not (rv["k"] == "aggregate" and rv["kind"].get("variant") == "Some"):
            return False
        e = eb.at(dbb, di).rvalue(rv)
        pay = e[2][0] if e[0] == "agg" and e[2] else None
        idx = pay[2][0] if pay is not None and pay[0] == "agg" and pay[1] == "tuple" and pay[2] else None
        # idx = item.0 with item = (next(enumerate(zip(iter(vec), ..) | iter(vec))) as Some).0
        if idx is None or not (idx[0] == "field" and idx[2] == "0"):
            return False
        it = idx[1]
        if not (it[0] == "field" and it[2] == "0" and it[1][0] == "variant" and it[1][2] == "Some" and it[1][1][0] == "call" and it[1][1][1].endswith("::next")):
            return False
        src = it[1][1][2][0]
        if not (src[0] == "call" and src[1].endswith("Iterator::enumerate")):
            return False
        inner = src[2][0]
        zipped = inner[0] == "call" and inner[1].endswith("Iterator::zip")
        first = inner[2][0] if zipped else inner
        while first[0] == "call" and len(first[2]) == 1 and first[1].rsplit("::", 1)[-1] in ("iter", "iter_mut", "into_iter", "deref", "as_slice"):
            first = first[2][0]
        if canon(first) != canon(vec):
            return False
        elem = ("field", ("field", it, "1"), "0") if zipped else ("field", it, "1")
        # the innermost loop that contains the assignment
        inner_loops = sorted(((h, bl) for h, bl in loops.items() if dbb in bl), key=lambda x: len(x[1]))
        if not inner_loops:
            return False
        header, blocks = inner_loops[0]
        # enumerate acyclic paths header -> dbb inside the loop, collecting boolean switch outcomes
        ok_all = [True]
        count = [0]

        def walk_paths(bb, seen, lits):
            if not ok_all[0] or count[0] > 4000:
                ok_all[0] = False
                return
            if bb == dbb:
                count[0] += 1
                good = False
                for kind, payload in lits:
                    if kind == "elem>1":
                        good = True
                    if kind == "flag" and payload[0] in site_flags and site_flags[payload[0]] != payload[1]:
                        # the flag is read-only between the two tests: one definition, outside this loop
                        ds = [d for d in fl.defs().get(payload[0], []) if not fl.is_cleanup(d[0])]
                        if len(ds) == 1 and ds[0][0] not in blocks:
                            good = True
                if not good:
                    ok_all[0] = False
                return
            t = fl.term(bb)
            for s in fl.succs(bb):
                if s not in blocks or s in seen or fl.is_cleanup(s) or s == header:
                    continue
                nl = lits
                if t.get("k") == "switch" and t.get("discr_ty") == "bool":
                    vals = [v for v, tg in t["targets"] if tg == s]
                    if t.get("otherwise") == s and not vals:
                        listed = [v for v, tg in t["targets"]]
                        vals = [1] if listed == [0] else ([0] if listed == [1] else [])
                    if len(vals) == 1:
                        val = bool(vals[0])
                        l, neg = _root_bool(fl, t["discr"])
                        if l is not None:
                            nl = nl + [("flag", (l, val != neg))]
                            ds = [d for d in fl.defs().get(l, []) if not fl.is_cleanup(d[0])]
                            if len(ds) == 1 and ds[0][1] != "term":
                                ce = eb.at(ds[0][0], ds[0][1]).rvalue(ds[0][2]["rv"])
                                holds = val != neg
                                if ce[0] == "bin" and ce[3][0] == "c" and isinstance(ce[3][1], int) and canon(ce[2]) == canon(elem):
                                    k = ce[3][1]
                                    if (ce[1] == "Gt" and holds and k >= 1) or (ce[1] == "Ge" and holds and k >= 2) or \
                                       (ce[1] == "Le" and not holds and k >= 1) or (ce[1] == "Lt" and not holds and k >= 2):
                                        nl = nl + [("elem>1", None)]
                walk_paths(s, seen | {s}, nl)
        walk_paths(header, {header}, [])
        if not ok_all[0] or count[0] == 0:
            return False
        somes += 1
    return somes >= 1


def run(ctx):
    ctx.rule("C08-R1", "speed-1 law: create() returns estimate_duration(parameters, 0.0) unless speed != 1.0; each element is cast(max(round(mean + rho*vari), 1))")
    ctx.rule("C08-R2", "target length = cast(max(round(sum(speed-1 durations) / speed), 1))")
    ctx.rule("C08-R3", "target <= number of states returns vec![1; states]")
    ctx.rule("C08-R4", "greedy loop: only exit is target == sum; sum starts as the element sum; every iteration changes one element and sum by the same +-1; +1 iff target > sum; the -1 candidates are filtered by > 1")
    ctx.rule("C08-R5", "plumbing: Engine::generator passes condition.speed to create() on the alignment-flag-false edge")
    p = cm.program(ctx)

    # ---- R1
    ed = cm.body_or_fail(ctx, p, "C08-R1", DE + "estimate_duration")
    if ed is not None:
        eb = ExprBuilder(ed)
        ret = eb.local(0)
        # collect(map(iter(params), closure)) without skip/take/filter/step_by/rev
        chain = [x[1].rsplit("::", 1)[-1] for x in walk(ret) if x[0] == "call"]
        bad = [c for c in chain if c in ("skip", "take", "step_by", "filter", "rev", "skip_while", "take_while", "filter_map", "chain")]
        pipeline_ok = ret[0] == "call" and ret[1].endswith("Iterator::collect") and "map" in chain and not bad and show(ret).count("duration_params") == 1
        if pipeline_ok:
            ctx.ok("C08-R1", "estimate_duration = collect(map(iter(duration_params), f)): one output per state", ed.loc())
        cb = closure_body(p, ret)
        loop_ok = False
        if cb is None:
            # loop form: for MeanVari(mean, vari) in duration_params { out.push(f(mean, vari)) }; out
            import re as _re
            pushes = [(bb, t) for bb, t in ed.calls() if t["callee"]["k"] == "fndef" and cm.callee_name(t["callee"]).endswith("Vec::<T, A>::push")]
            if len(pushes) == 1:
                pbb, pt = pushes[0]
                gs = paths.guards(ed, pbb, eb)
                plain = len(gs) == 1 and gs[0][0] == "some" and _re.match(r"^<std::slice::Iter<'a, T> as std::iter::Iterator>::next\((?:[^()]*::(?:into_iter|iter)\()?duration_params\)?\)$", show(gs[0][1]))
                # the vector pushed into is the one returned
                rl = pt["args"][0]["place"]["local"]
                base = [d[2]["rv"]["place"]["local"] for d in ed.defs().get(rl, []) if d[1] != "term" and d[2]["rv"]["k"] == "ref"]
                retl = [d[2]["rv"]["op"]["place"]["local"] for d in ed.defs().get(0, []) if d[1] != "term" and d[2]["rv"]["k"] == "use" and d[2]["rv"]["op"].get("k") in ("move", "copy")]
                if plain and base and retl and base[0] == retl[0]:
                    loop_ok = floor_form(ctx, p, "C08-R1", ed, value=eb.at(pbb).op(pt["args"][1]), rho_is=lambda a: a == ("arg", "rho"))
                    if loop_ok:
                        ctx.ok("C08-R1", "estimate_duration pushes one floored duration per element of duration_params (plain loop), using the rho parameter", ed.loc())
        if not pipeline_ok and not loop_ok:
            ctx.fail("C08-R1", ed.path, "iterator pipeline", "estimate_duration is not a plain per-state map: %s" % show(ret), ed.loc())
        if loop_ok:
            pass
        elif cb is None:
            ctx.fail("C08-R1", ed.path, "closure", "per-state closure not found", ed.loc())
        else:
            floor_form(ctx, p, "C08-R1", cb)
            # the closure's rho is estimate_duration's rho parameter
            caps = [x for x in walk(ret) if x[0] == "agg" and x[1].startswith("closure:")]
            if caps and any(show(a) == "rho" for a in caps[0][2]):
                ctx.ok("C08-R1", "closure captures the rho parameter", ed.loc())
            else:
                ctx.fail("C08-R1", ed.path, "capture rho", "the closure does not capture estimate_duration's rho parameter", ed.loc())
    cr = cm.body_or_fail(ctx, p, "C08-R1", DE + "create")
    if cr is not None:
        eb = ExprBuilder(cr)
        rets = eb.def_exprs(0)
        vals = list(eb.expand_all(("var", 0, None)))
        calls1 = cm.local_calls(cr, p, exact=DE + "estimate_duration")
        callsN = cm.local_calls(cr, p, exact=DE + "estimate_duration_with_frame_length")
        good1 = False
        for bb, t in calls1:
            a = [eb.at(bb).op(x) for x in t["args"]]
            if show(a[0]) == "self.parameters" and a[1][0] == "c" and a[1][1] == 0 and not paths.guards(cr, bb, eb):
                good1 = True
        if good1:
            ctx.ok("C08-R1", "create(): unconditional estimate_duration(self.parameters, 0.0)", cr.loc())
        else:
            ctx.fail("C08-R1", cr.path, "speed-1 estimate", "create() does not start from estimate_duration(self.parameters, 0.0)", cr.loc())
        if len(callsN) != 1:
            ctx.fail("C08-R1", cr.path, "frame-length call", "expected one estimate_duration_with_frame_length call, found %d" % len(callsN), cr.loc())
        else:
            bb, t = callsN[0]
            gs = paths.guards(cr, bb, eb)
            okg = False
            for g in gs:
                if g[0] in ("true", "false"):
                    pos, c = paths.bool_atoms(g)
                    if c[0] == "bin" and {show(c[2]), show(c[3])} == {"speed", "1.0"} and ((c[1] == "Ne" and pos) or (c[1] == "Eq" and not pos)):
                        okg = True
            if okg and len(gs) == 1:
                ctx.ok("C08-R1", "frame-length branch taken iff speed != 1.0", cm.loc_of(t["span"]))
            else:
                ctx.fail("C08-R1", cr.path, "speed test", "the frame-length branch is guarded by %s, expected exactly `speed != 1.0`" % [(g[0], show(g[1])) for g in gs], cm.loc_of(t["span"]))
            # ---- R2 (argument)
            a = [eb.at(bb).op(x) for x in t["args"]]
            pol = to_poly(a[1])
            okk = False
            if len(pol.t) == 1:
                (mono, c), = pol.t.items()
                d = dict(mono)
                sums = [at for at in d if isinstance(at, tuple) and at[0] == "call" and at[1].endswith("Iterator::sum")]
                sp = [at for at in d if at == ("arg", "speed")]
                if c == 1 and len(d) == 2 and sums and sp and d[sums[0]] == 1 and d[sp[0]] == -1:
                    # the summed vector is the speed-1 estimate
                    src = [x for x in walk(a[1]) if x[0] == "call" and x[1].endswith("Iterator::sum")]
                    if src and "estimate_duration(self.parameters, 0.0)" in show(src[0]).replace("duration::DurationEstimator::", ""):
                        okk = True
            if okk and show(a[0]) == "self.parameters":
                ctx.ok("C08-R2", "frame_length argument = sum(estimate_duration(parameters, 0)) / speed", cm.loc_of(t["span"]))
            else:
                ctx.fail("C08-R2", cr.path, "frame_length argument", "frame-length argument is %s (poly %s), expected sum(speed-1 durations) / speed" % (show(a[1]), pol), cm.loc_of(t["span"]))
        # returned value is one of the two estimates
        rv = show(("var", 0, None))
        allowed = 0
        for e in eb.def_exprs(0):
            for x in eb.expand_all(e):
                if x[0] == "call" and x[1] in (DE + "estimate_duration", DE + "estimate_duration_with_frame_length"):
                    allowed += 1
        if allowed >= 2:
            ctx.ok("C08-R1", "create() returns one of the two estimates", cr.loc())
        else:
            ctx.fail("C08-R1", cr.path, "return value", "create() returns something other than the estimates", cr.loc())

    fl = cm.body_or_fail(ctx, p, "C08-R2", DE + "estimate_duration_with_frame_length")
    if fl is not None:
        r234(ctx, p, fl)

    # ---- R5
    # ... and that speed is the one the user set, down to the documented floor (the clause C20-R1
    # decides, stated for C08: a higher floor in the setter caps the lengthening)
    from .c20 import check_setter
    check_setter(ctx, p, "C08-R5", "set_speed")
    g = cm.body_or_fail(ctx, p, "C08-R5", "engine::Engine::generator")
    if g is not None:
        eb = ExprBuilder(g)
        calls = cm.local_calls(g, p, exact=DE + "create")
        if len(calls) != 1:
            ctx.fail("C08-R5", g.path, "create call", "expected one DurationEstimator::create call, found %d" % len(calls), g.loc())
        else:
            bb, t = calls[0]
            a = eb.at(bb).op(t["args"][1])
            if show(a) == "self.condition.speed":
                ctx.ok("C08-R5", "create receives self.condition.speed", cm.loc_of(t["span"]))
            else:
                ctx.fail("C08-R5", g.path, "speed argument", "create receives %s, expected self.condition.speed" % show(a), cm.loc_of(t["span"]))
            gs = paths.guards(g, bb, eb)
            if any(gd[0] == "false" and show(gd[1]) == "self.condition.phoneme_alignment_flag" for gd in gs):
                ctx.ok("C08-R5", "create is called on the alignment-flag-false edge", cm.loc_of(t["span"]))
            else:
                ctx.fail("C08-R5", g.path, "dispatch", "create is not on the phoneme_alignment_flag == false edge", cm.loc_of(t["span"]))
    expl = ("Def-use normal forms of the per-state duration (clamp domain over the rounded model value, polynomial mean+rho*vari), of the "
            "target length and of the frame-length argument; dominating guards of the speed test and the fallback; natural-loop exit "
            "analysis and pairing of the +-1 updates of one element and the running sum in the greedy loop. The stated total-length law "
            "follows arithmetically from these forms.")
    return expl, ["rustc MIR", "f64::round / max semantics"]


def r234(ctx, p, fl):
    eb = ExprBuilder(fl)
    # target
    tnames = [l for l, d in enumerate(fl.locals) if d.get("name") == "target_length"]
    target = None
    for l in range(len(fl.locals)):
        e = eb.local(l)
        if e[0] == "cast" and e[1] == "usize" and "frame_length" in show(e):
            target = (l, e)
            break
    if target is None:
        ctx.fail("C08-R2", fl.path, "target", "target length (usize cast of the frame length) not found", fl.loc())
        return
    tl, te = target
    inner = te[2]
    rounded = [x for x in walk(inner) if x[0] == "call" and x[1].startswith("f64::") and x[1].split("::")[1] in ("round", "floor", "ceil", "trunc")]
    if rounded and rounded[0][1] == "f64::round" and show(rounded[0][2][0]) == "frame_length":
        cl = to_clamp(inner, lambda e: e == rounded[0])
        if cl is not None and cl.lo >= 1 and cl.hi == POS_INF:
            ctx.ok("C08-R2", "target = cast(max(round(frame_length), %g))" % cl.lo, fl.loc())
        else:
            ctx.fail("C08-R2", fl.path, "target floor", "target is %s" % show(te), fl.loc())
    else:
        ctx.fail("C08-R2", fl.path, "target rounding", "target is %s, expected round(frame_length)" % show(te), fl.loc())
    tcanon = show(te)

    # ---- R3
    found3 = False
    for bb, e, item in paths.return_exprs(fl, eb):
        if e[0] == "call" and e[1].endswith("from_elem") and e[2][0][0] == "c":
            gs = paths.guards(fl, bb, eb)
            for g in gs:
                if g[0] in ("true", "false"):
                    pos, c = paths.bool_atoms(g)
                    if c[0] == "bin":
                        l, r = show(c[2]), show(c[3])
                        sz = show(e[2][1])
                        if ((l == tcanon and r == sz and ((c[1] == "Le" and pos) or (c[1] == "Gt" and not pos))) or
                                (l == sz and r == tcanon and ((c[1] == "Ge" and pos) or (c[1] == "Lt" and not pos)))):
                            if e[2][0][1] == 1 and sz == "len(duration_params)":
                                found3 = True
                            else:
                                ctx.fail("C08-R3", fl.path, "fallback value", "fallback is vec![%s; %s], expected vec![1; number of states]" % (e[2][0][1], sz), fl.loc())
                                found3 = None
    if found3:
        ctx.ok("C08-R3", "target <= len(params) returns vec![1; len(params)]", fl.loc())
    elif found3 is False:
        ctx.fail("C08-R3", fl.path, "fallback", "no `target <= size => vec![1; size]` early return found", fl.loc())

    # ---- R4
    all_loops = fl.natural_loops()
    # the greedy loop is the outermost one; hand-written candidate searches may be nested in it
    loops = [(h_, lb_) for h_, lb_ in all_loops if not any(h2 != h_ and h_ in lb2 for h2, lb2 in all_loops)]
    two_loop = None
    if len(loops) == 2:
        # `while sum < target { +1 }` followed by `while sum > target { -1 }` (either order): each
        # step moves sum by one towards the target, so after both loops sum == target
        two_loop = _two_loop_form(fl, eb, loops, tcanon)
        if two_loop is None:
            ctx.fail("C08-R4", fl.path, "loop", "two outermost loops that are not `while sum < target` / `while sum > target` in sequence", fl.loc())
            return
    elif len(loops) != 1:
        ctx.fail("C08-R4", fl.path, "loop", "expected one (outermost) loop in estimate_duration_with_frame_length, found %d" % len(loops), fl.loc())
        return
    h, lb = loops[0]
    if two_loop is not None:
        lb = set(loops[0][1]) | set(loops[1][1])
    inner_blocks = set()
    for h2, lb2 in all_loops:
        if h2 != h and not (two_loop is not None and h2 == loops[1][0]):
            inner_blocks |= set(lb2)
    # exits
    exits = []
    for b in lb:
        for s in fl.succs(b):
            if s not in lb:
                exits.append((b, s))
    real_exits = []
    for b, s in exits:
        # ignore exits into blocks that can only diverge
        if not any(fl.blocks[x]["term"]["k"] == "return" for x in fl.reach_from(s)):
            continue
        real_exits.append((b, s))
    sumvar = None
    okexit = True
    cmp_order = None
    for b, s in real_exits:
        t = fl.blocks[b]["term"]
        if t["k"] != "switch":
            okexit = False
            continue
        d = eb.at(b).op(t["discr"])
        if d[0] == "discr" and d[1][0] == "call" and d[1][1].endswith("::cmp") and "Ord" in d[1][1] and len(d[1][2]) == 2:
            # match sum.cmp(&target) { Equal => break, .. }
            sides = list(d[1][2])
            names = [show(x) for x in sides]
            if tcanon in names:
                other = sides[1 - names.index(tcanon)]
                if other[0] == "var":
                    sumvar = other
                val = [v for v, tg in list(t["targets"]) + [(None, t["otherwise"])] if tg == s]
                listed = [v for v, tg in t["targets"]]
                eq_exit = val == [0] or (val == [None] and 0 not in listed and len(listed) == 2)
                if not eq_exit:
                    okexit = False
                cmp_order = names.index(tcanon)     # 1: cmp(sum, target); 0: cmp(target, sum)
            else:
                okexit = False
        elif d[0] == "bin" and d[1] in ("Ne", "Eq"):
            sides = [d[2], d[3]]
            names = [show(x) for x in sides]
            if tcanon in names:
                other = sides[1 - names.index(tcanon)]
                if other[0] == "var":
                    sumvar = other
                val = [v for v, tg in [(v, tg) for v, tg in t["targets"]] + [(None, t["otherwise"])] if tg == s]
                eq_exit = (d[1] == "Ne" and val == [0]) or (d[1] == "Eq" and (val == [None] or val == [1]))
                if not eq_exit:
                    okexit = False
            else:
                okexit = False
        else:
            okexit = False
    if two_loop is not None:
        sumvar = two_loop
        ctx.ok("C08-R4", "two loops in sequence, `while %s < target` and `while %s > target`, each left only when its strict comparison fails: afterwards target == %s" % (show(sumvar), show(sumvar), show(sumvar)), fl.loc())
    elif okexit and real_exits and sumvar is not None:
        ctx.ok("C08-R4", "the loop's only exit is target == %s" % show(sumvar), fl.loc())
    else:
        ctx.fail("C08-R4", fl.path, "loop exit", "the greedy loop can exit other than on target == sum (exits: %s)" % real_exits, fl.loc())
        return
    sl = sumvar[1]
    # sum initialised with the element sum of the estimate
    init = [d for d in fl.defs().get(sl, []) if d[0] not in lb and not fl.is_cleanup(d[0])]
    durvar = None
    if len(init) == 1:
        e = eb.at(init[0][0], init[0][1]).call(init[0][2]) if init[0][1] == "term" else eb.rvalue(init[0][2]["rv"])
        if e[0] == "call" and e[1].endswith("Iterator::sum"):
            src = e[2][0]
            calls = [x for x in eb.expand_all(src) if x[0] == "call" and x[1] == DE + "estimate_duration"]
            if calls:
                ctx.ok("C08-R4", "sum is initialised with the element sum of estimate_duration(params, rho)", fl.loc())
                durvar = src
            else:
                ctx.fail("C08-R4", fl.path, "sum init", "sum is initialised with %s" % show(e), fl.loc())
        else:
            ctx.fail("C08-R4", fl.path, "sum init", "sum is initialised with %s, expected the element sum" % show(e), fl.loc())
    else:
        ctx.fail("C08-R4", fl.path, "sum init", "sum has %d initialisations outside the loop" % len(init), fl.loc())
    # updates inside the loop
    ups = []   # (kind 'sum'|'elem', delta, bb, stmt, extra)
    for d in fl.defs().get(sl, []):
        if d[0] in lb and d[1] != "term":
            e = eb.at(d[0], d[1]).rvalue(d[2]["rv"])
            pol = to_poly(e, lambda x: ("S",) if x == sumvar else None)
            delta = pol - Poly.atom(("S",))
            if delta.is_const():
                ups.append(("sum", int(delta.const_value()), d[0], d[2], None))
            else:
                ctx.fail("C08-R4", fl.path, "sum update", "sum is updated by a non-constant: %s" % show(e), cm.loc_of(d[2]["span"]))
    for bb, i, st, tgt, root, chain, val in stores(fl, ExprBuilder(fl)):
        if bb not in lb:
            continue
        # *found = *found +- 1
        pol = to_poly(val, lambda x: ("E",) if canon(x) == canon(tgt) else None)
        delta = pol - Poly.atom(("E",))
        if delta.is_const():
            ups.append(("elem", int(delta.const_value()), bb, st, tgt))
        else:
            ctx.fail("C08-R4", fl.path, "element update", "a duration element is overwritten with %s" % show(val), cm.loc_of(st["span"]))
    dom = fl.dominators()
    groups = {}
    for u in ups:
        # polarity of the Gt(target,sum) guard
        pol_ = None
        for g in paths.guards(fl, u[2], ExprBuilder(fl)):
            if g[0] == "variant" and cmp_order is not None and isinstance(g[1], tuple) and g[1][0] == "call" and g[1][1].endswith("::cmp") and len(g) > 2:
                v_ = g[2]
                if isinstance(v_, tuple) and v_ and v_[0] == "not":
                    rest_ = [x for x in (255, 0, 1) if x not in [y % 256 for y in v_[1]]]
                    v_ = rest_[0] if len(rest_) == 1 else None
                if isinstance(v_, int):
                    v_ = v_ % 256
                    first_less = v_ == 255          # first argument < second
                    first_greater = v_ == 1
                    if first_less or first_greater:
                        # cmp(sum, target): Less => target > sum
                        sum_less = first_less if cmp_order == 1 else first_greater
                        pol_ = "target>sum" if sum_less else "target<sum"
            if g[0] in ("true", "false"):
                pos, c = paths.bool_atoms(g)
                if c[0] == "bin" and c[1] in ("Gt", "Lt", "Ge", "Le"):
                    l, r = show(c[2]), show(c[3])
                    if {l, r} == {tcanon, show(sumvar)}:
                        gt = (c[1] in ("Gt", "Ge") and l == tcanon) or (c[1] in ("Lt", "Le") and r == tcanon)
                        strict = c[1] in ("Gt", "Lt")
                        pol_ = ("target>sum" if (gt == pos) else "target<sum")
        groups.setdefault(pol_, []).append(u)
    okpair = True
    for polname, want in (("target>sum", 1), ("target<sum", -1)):
        gl = groups.get(polname, [])
        kinds = sorted((k, dlt) for k, dlt, *_ in gl)
        if kinds != [("elem", want), ("sum", want)]:
            okpair = False
            ctx.fail("C08-R4", fl.path, "update pairing (%s)" % polname, "on the %s branch the updates are %s, expected exactly one element %+d and sum %+d" % (polname, kinds, want, want), fl.loc())
    if None in groups:
        okpair = False
        ctx.fail("C08-R4", fl.path, "unguarded update", "an update of sum/element is not under the target-vs-sum comparison: %s" % [(k, d) for k, d, *_ in groups[None]], fl.loc())
    if okpair:
        ctx.ok("C08-R4", "each iteration: one element and sum both +1 when target > sum, both -1 otherwise", fl.loc())
    # -1 candidates filtered by > 1
    for k, dlt, bb, st, tgt in ups:
        if k == "elem":
            srcs = list(ExprBuilder(fl).expand_all(tgt))
            filt = [x for x in srcs if x[0] == "call" and x[1].endswith("Iterator::filter")]
            on_estimate = any(x[0] == "call" and x[1] == DE + "estimate_duration" for x in srcs)
            if not on_estimate:
                ctx.fail("C08-R4", fl.path, "element source", "the updated element does not come from the estimate vector", cm.loc_of(st["span"]))
            if dlt == -1:
                okf = False
                for f in filt:
                    cb = closure_body(p, f[2][1]) if len(f[2]) > 1 else None
                    if cb is None:
                        continue
                    r = ExprBuilder(cb).local(0)
                    if r[0] == "bin" and r[3][0] == "c":
                        if (r[1] == "Gt" and r[3][1] >= 1) or (r[1] == "Ge" and r[3][1] >= 2):
                            if root_of(r[2])[0][0] == "arg":
                                okf = True
                if not okf:
                    okf = candidate_filtered(fl, tgt)
                if not okf:
                    okf = candidate_filtered_index(fl, tgt, bb)
                if okf:
                    ctx.ok("C08-R4", "the decrement candidate set is filtered by `duration > 1`", cm.loc_of(st["span"]))
                else:
                    ctx.fail("C08-R4", fl.path, "decrement guard", "a state's duration can be decremented without a `> 1` filter: a state could reach 0 frames", cm.loc_of(st["span"]))
            if dlt == 1 and filt:
                ctx.note("increment candidates are filtered (not required)")
    # the result returned after the loop is the adjusted vector
    post = [e for bb, e, item in paths.return_exprs(fl, eb) if bb not in lb]
    if any(any(x[0] == "call" and x[1] == DE + "estimate_duration" for x in eb.expand_all(e)) for e in post):
        ctx.ok("C08-R4", "the adjusted vector is returned", fl.loc())
    else:
        ctx.fail("C08-R4", fl.path, "return value", "the loop's result vector is not returned", fl.loc())
