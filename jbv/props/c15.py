"""C15 - Additional half tone transposes F0 and nothing else."""
import math

import re
from ..expr import ExprBuilder, show, stores, root_of, walk, to_poly, Poly, to_clamp, Clamp, canon, mut_arg_calls
from ..flow import condition_flow
from .. import paths
from . import common as cm

AHT = "model::stream_parameter::StreamParameter::apply_additional_half_tone"
CONSTS = {"constants::HALF_TONE": math.log(2.0) / 12.0, "constants::MIN_LF0": math.log(20.0), "constants::MAX_LF0": math.log(20000.0)}


def ulps(a, b):
    return abs(a - b) / (abs(b) * 2.0 ** -52) if a != b else 0.0


def check_consts(ctx, p, rule, names):
    ok = True
    for n in names:
        c = p.consts.get(n)
        if c is None or "f64" not in c:
            ctx.fail(rule, n, "constant", "constant not found or not an f64")
            ok = False
            continue
        v = float(c["f64"])
        u = ulps(v, CONSTS[n])
        if u <= 2:
            ctx.ok(rule, "%s = %.17g (closed form %.17g, %.1f ulp)" % (n, v, CONSTS[n], u), cm.loc_of(c["span"]))
        else:
            ctx.fail(rule, n, "constant value", "%s = %.17g but the closed form is %.17g (%.3g ulp apart)" % (n, v, CONSTS[n], u), cm.loc_of(c["span"]))
            ok = False
    return ok


def run(ctx):
    ctx.rule("C15-R1", "HALF_TONE = ln2/12; clamp bounds are MIN_LF0 = ln 20 and MAX_LF0 = ln 20000")
    ctx.rule("C15-R2", "write set of apply_additional_half_tone: only the mean of the first (static) component of each state; nothing is stored when h == 0")
    ctx.rule("C15-R3", "form: new = clamp(old + h*HALF_TONE, MIN_LF0, MAX_LF0)")
    ctx.rule("C15-R4", "applied exactly once in the synthesis closure, to the stream of model_stream(1), before MLPG; its result is the lf0 trajectory")
    ctx.rule("C15-R5", "non-interference: condition.additional_half_tone reaches the lf0 trajectory only (not durations, spectrum, LPF, vocoder)")
    ctx.rule("C15-R6", "the half tone that reaches the shift is the one the user set: set_additional_half_tone stores its argument unchanged on every path (the clause C20-R1 decides, stated for C15: a narrower range in the setter shifts by the wrong amount without touching the shift itself)")
    p = cm.program(ctx)
    cg = cm.callgraph(p)
    from .c20 import check_setter
    check_setter(ctx, p, "C15-R6", "set_additional_half_tone")

    check_consts(ctx, p, "C15-R1", ["constants::HALF_TONE", "constants::MIN_LF0", "constants::MAX_LF0"])

    b = cm.body_or_fail(ctx, p, "C15-R2", AHT)
    if b is not None:
        eb = ExprBuilder(b)
        sts0 = stores(b, eb)
        sts = [(bb, i, st, tgt, root, chain, val, paths.guards(b, bb, eb), None) for bb, i, st, tgt, root, chain, val in sts0]
        if not sts0:
            # closure form: self.0.iter_mut().for_each(|(pdfs, _)| { pdfs[0].0 = f(pdfs[0].0) }) - the
            # element stores live in the closure; captured values are resolved to the parent's terms
            from ..expr import resolve_upvars
            for fbb, ft in b.calls():
                fc = ft["callee"]
                if fc["k"] != "fndef" or not cm.callee_name(fc).endswith("::for_each"):
                    continue
                recv = eb.at(fbb).op(ft["args"][0])
                clo = eb.op(ft["args"][1])
                # self.0.iter_mut().map(|e| &mut <projection of e>).for_each(..): the closure's
                # parameter is that projection of the element
                proj = None
                if recv[0] == "call" and recv[1].endswith("Iterator::map") and len(recv[2]) == 2:
                    inner, mclo = recv[2]
                    while inner[0] == "call" and len(inner[2]) == 1 and inner[1].rsplit("::", 1)[-1] in ("iter_mut", "into_iter", "deref_mut"):
                        inner = inner[2][0]
                    mcb = p.bodies.get(mclo[1][len("closure:"):]) if mclo[0] == "agg" and mclo[1].startswith("closure:") else None
                    if show(inner) == "self.0" and mcb is not None and not mcb.natural_loops():
                        proj = ExprBuilder(mcb).local(0)
                        recv = inner
                if show(recv) != "self.0" or not (clo[0] == "agg" and clo[1].startswith("closure:")):
                    continue
                cb = p.bodies.get(clo[1][len("closure:"):])
                if cb is None:
                    continue
                ceb = ExprBuilder(cb)
                pg = paths.guards(b, fbb, eb)
                for bb, i, st, tgt, root, chain, val in stores(cb, ceb):
                    if root[0] == "arg" and root[1] == 2:
                        if proj is not None:
                            # (substitute the closure's own parameter first: resolving captures
                            # brings in the parent's parameters, which are numbered from 1 as well)
                            from ..loops import rewrite
                            sub = lambda n: proj if (n[0] == "arg" and n[1] == 2) else None
                            tgt, val = rewrite(tgt, sub), rewrite(val, sub)
                            root, chain = root_of(tgt)
                        val2 = resolve_upvars(p, cb, val)
                        sts.append((bb, i, st, tgt, root, chain, val2, pg + paths.guards(cb, bb, ceb),
                                    "for_each over self.0.iter_mut() (every element)"))
        ctx.anchor("C15-R2", "stores in apply_additional_half_tone", len(sts), 1, b.loc())
        for bb, i, st, tgt, root, chain, val, gs, trav in sts:
            # conditions the store depends on without being dominated by them (`a && b { return }`)
            if trav is None:
                try:
                    gs = list(gs) + [g_ for g_ in paths.control_guards(b, bb, eb) if g_ not in gs]
                except Exception:  # noqa: BLE001
                    pass
            # target: <element of self.0>.0[0].0  -> chain ends with ['0', '[]', '0'] and the index is constant 0
            okt = chain[-3:] == ["0", "[]", "0"] and tgt[1][0] == "idx" and tgt[1][2][0] == "c" and tgt[1][2][1] == 0
            elem_src = show(tgt)
            if okt and ("self.0" in elem_src or trav is not None):
                ctx.ok("C15-R2", "store target is (element of self.0).0[0].0: the mean of the static component", cm.loc_of(st["span"]))
            else:
                ctx.fail("C15-R2", b.path, "store target", "apply_additional_half_tone writes %s (chain %s), expected only the mean of the first component" % (elem_src[-80:], chain), cm.loc_of(st["span"]))
            # guard: not on the h == 0 path
            nz = False
            for g in gs:
                if g[0] in ("true", "false"):
                    pos, c = paths.bool_atoms(g)
                    if c[0] == "bin" and {show(c[2]), show(c[3])} == {"additional_half_tone", "0.0"}:
                        if (c[1] == "Eq" and not pos) or (c[1] == "Ne" and pos):
                            nz = True
            # every state: besides h != 0 the store may only be guarded by the plain traversal of self.0
            for g in gs:
                if g[0] in ("true", "false"):
                    pos, c = paths.bool_atoms(g)
                    if c[0] == "bin" and {show(c[2]), show(c[3])} == {"additional_half_tone", "0.0"}:
                        continue
                gsrc = show(g[1]) if len(g) > 1 and isinstance(g[1], tuple) else str(g)
                if trav is not None and g[0] == "some" and False:
                    continue
                if g[0] == "some" and re.match(r"^<std::slice::IterMut<.*?> as std::iter::Iterator>::next\(self\.0\)$", gsrc):
                    ctx.ok("C15-R2", "the store runs for every element of self.0 (plain iter_mut traversal)", cm.loc_of(st["span"]))
                    continue
                if g[0] == "some" and re.match(r"^std::iter::range::<impl std::iter::Iterator for std::ops::Range<A>>::next\(std::ops::Range::Range\{start: 0, end: (std::vec::Vec::<T, A>::len|core::slice::<impl \[T\]>::len|len)\(self\.0\)\}\)$", gsrc):
                    ctx.ok("C15-R2", "the store runs for every index 0..self.0.len()", cm.loc_of(st["span"]))
                    continue
                ctx.fail("C15-R2", b.path, "conditional shift", "the shift is not applied to every state: the store is additionally guarded by [%s] %s (the voiced/unvoiced decision is taken later against the configured MSD threshold, so every state's mean must be shifted)" % (g[0], gsrc[:200]), cm.loc_of(st["span"]))
            # R3 form
            old = ("OLD",)
            h = ("H",)

            def atomize(e):
                if canon(e) == canon(tgt):
                    return old
                if e[0] == "arg" and e[2] == "additional_half_tone":
                    return h
                return None
            inner = None
            cl = None
            for x in walk(val):
                if x[0] == "call" and x[1] in ("f64::clamp",):
                    inner = x
            if inner is not None:
                lo, hi = inner[2][1], inner[2][2]
                if lo[0] == "c" and hi[0] == "c" and lo[3] == "constants::MIN_LF0" and hi[3] == "constants::MAX_LF0" and val == inner:
                    pol = to_poly(inner[2][0], atomize)
                    want = Poly.atom(old) + Poly.atom(h) * Poly.const(lo[1] * 0 + p_const(p, "constants::HALF_TONE"))
                    if pol == want:
                        ctx.ok("C15-R3", "new = clamp(old + h*HALF_TONE, MIN_LF0, MAX_LF0)", cm.loc_of(st["span"]))
                    else:
                        ctx.fail("C15-R3", b.path, "shift", "clamped value is %s, expected old + h*HALF_TONE" % pol, cm.loc_of(st["span"]))
                else:
                    ctx.fail("C15-R3", b.path, "clamp bounds", "clamp bounds are %s / %s, expected the constants MIN_LF0 / MAX_LF0 as the outermost operation" % (show(lo), show(hi)), cm.loc_of(st["span"]))
            else:
                # max/min form
                cand = [x for x in walk(val) if x[0] == "bin" and x[1] == "Add"]
                okm = False
                for add in cand:
                    cl = to_clamp(val, lambda e: e == add)
                    if cl is not None and ulps(cl.lo, CONSTS["constants::MIN_LF0"]) <= 2 and ulps(cl.hi, CONSTS["constants::MAX_LF0"]) <= 2:
                        pol = to_poly(add, atomize)
                        if pol == Poly.atom(old) + Poly.atom(h) * Poly.const(p_const(p, "constants::HALF_TONE")):
                            okm = True
                if okm:
                    ctx.ok("C15-R3", "new = min(max(old + h*HALF_TONE, MIN_LF0), MAX_LF0)", cm.loc_of(st["span"]))
                else:
                    ctx.fail("C15-R3", b.path, "form", "stored value %s is not clamp(old + h*HALF_TONE, MIN_LF0, MAX_LF0)" % show(val)[:200], cm.loc_of(st["span"]))
            if nz:
                ctx.ok("C15-R2", "the store is on the h != 0 path only (h == 0 returns before any store)", cm.loc_of(st["span"]))
            else:
                # without the h == 0 exit the clamp runs for h = 0 too, and clamp(old, MIN_LF0, MAX_LF0)
                # is not the identity: a stored mean outside [ln 20, ln 20000] (an untrained pdf, a
                # very low voice) is rewritten although no shift was asked for
                ctx.fail("C15-R2", b.path, "h == 0 not the identity", "the store is not restricted to h != 0 (no dominating `additional_half_tone == 0.0` exit): with h = 0 every mean is still passed through clamp(MIN_LF0, MAX_LF0), which changes means outside that range", cm.loc_of(st["span"]))
        for cbb, t, cname, k, ref in mut_arg_calls(b, eb):
            r, ch = root_of(ref)
            if r[0] == "arg" and r[1] == 1 and not any(s in cname for s in ("into_iter", "iter_mut", "IterMut", "index_mut", "deref_mut", "Iterator>::next")):
                ctx.fail("C15-R2", b.path, "call " + cname, "self is passed mutably to another function", cm.loc_of(t["span"]))

    # ---- R4
    K, _ = cm.synth_closure(ctx, p, cg)
    sites = []
    for path in K:
        bd = p.bodies[path]
        for bb, t in cm.local_calls(bd, p, exact=AHT):
            sites.append((bd, bb, t))
    if len(sites) != 1:
        ctx.fail("C15-R4", "K", "apply_additional_half_tone calls", "expected exactly one call in the synthesis closure, found %d" % len(sites))
    else:
        bd, bb, t = sites[0]
        eb = ExprBuilder(bd)
        recv = eb.at(bb).op(t["args"][0])
        harg = eb.op(t["args"][1])
        # ... and nothing else: in Engine::generator and its closures the half tone is read for that
        # argument only - no other store or call takes a value computed from it
        gen_ = p.body("engine::Engine::generator")
        others = []
        for bd2 in ([gen_] + list(p.nested(gen_.path))) if gen_ is not None else []:
            eb2 = ExprBuilder(bd2)
            mentions = lambda e: any(x[0] == "field" and x[2] == "additional_half_tone" for x in walk(e)) or any(x[0] == "upvar" and "additional_half_tone" in str(x[1]) for x in walk(e))
            for sbb, si, sst, stgt, sroot, schain, sval in stores(bd2, eb2):
                if mentions(sval):
                    others.append(("store %s" % show(stgt)[:50], cm.loc_of(sst["span"])))
            for cbb2, ct2 in bd2.calls():
                if ct2 is t:
                    continue
                cn2 = cm.callee_name(ct2["callee"]) if ct2["callee"]["k"] == "fndef" else ""
                for a2 in ct2["args"]:
                    try:
                        ae = eb2.at(cbb2).op(a2)
                    except Exception:
                        continue
                    # the closure that holds the call captures `self` (or the value) - that is the read itself
                    if ae[0] == "agg" and ae[1].startswith("closure:"):
                        continue
                    if mentions(ae) and not (cn2 == AHT):
                        others.append(("argument of %s" % cn2.split("::")[-1], cm.loc_of(ct2["span"])))
        if others:
            for what, loc_ in others[:3]:
                ctx.fail("C15-R4", "engine::Engine::generator", "other use of the half tone", "the additional half tone also feeds %s: it must only shift the log-F0 means (through apply_additional_half_tone)" % what, loc_)
        else:
            ctx.ok("C15-R4", "Engine::generator and its closures use the half tone for that one argument only", cm.loc_of(t["span"]))
        # for every h: the call is not skipped for some values of h (only `h != 0`, for which the
        # shift is the identity anyway, may guard it)
        condg = []
        for g in paths.guards(bd, bb, eb):
            if g[0] in ("true", "false"):
                pos, c = paths.bool_atoms(g)
                zero_test = c[0] == "bin" and c[1] in ("Ne", "Eq") and (c[1] == "Ne") == pos and ((canon(c[2]) == canon(harg) and c[3][0] == "c" and c[3][1] == 0) or (canon(c[3]) == canon(harg) and c[2][0] == "c" and c[2][1] == 0))
                if not zero_test:
                    condg.append(("" if pos else "not ") + show(c)[:80])
        if condg:
            ctx.fail("C15-R4", bd.path, "conditional shift", "the shift is applied only when %s: for the other values of the half tone F0 is not transposed" % " and ".join(condg), cm.loc_of(t["span"]))
        else:
            ctx.ok("C15-R4", "the call is unconditional (at most skipped for h == 0, the identity)", cm.loc_of(t["span"]))
        direct = False
        if bd.path == "engine::Engine::generator" and show(harg).endswith("condition.additional_half_tone"):
            # direct form: `let mut s = models.model_stream(1); s.stream.apply_additional_half_tone(h);
            # MlpgAdjust::new(.., .., s).create(..)` - the shifted value is the one handed to the lf0 MLPG,
            # and the shift dominates that call
            rl = None
            op0 = t["args"][0]
            # receiver = &mut L.stream  -> the local L
            if op0.get("k") in ("move", "copy") and not op0["place"]["proj"]:
                for dbb, didx, ditem in bd.defs().get(op0["place"]["local"], []):
                    if didx != "term" and ditem["rv"]["k"] == "ref" and [e_.get("name") for e_ in ditem["rv"]["place"]["proj"] if e_["k"] == "field"] == ["stream"]:
                        rl = ditem["rv"]["place"]["local"]
            if rl is not None:
                src = show(eb.local(rl))
                def base_local(op):
                    n_ = 0
                    while op.get("k") in ("move", "copy") and not op["place"]["proj"] and n_ < 6:
                        l_ = op["place"]["local"]
                        if l_ == rl:
                            return l_
                        ds_ = [d_ for d_ in bd.defs().get(l_, []) if not bd.is_cleanup(d_[0])]
                        if len(ds_) == 1 and ds_[0][1] != "term" and ds_[0][2]["rv"]["k"] == "use":
                            op = ds_[0][2]["rv"]["op"]
                            n_ += 1
                            continue
                        return l_
                    return None
                news = [(nbb, nt) for nbb, nt in cm.local_calls(bd, p, exact="mlpg_adjust::MlpgAdjust::<'a>::new") if base_local(nt["args"][2]) == rl]
                if src.startswith("model::Models::<'a>::model_stream(") and src.endswith(", 1)") and len(news) == 1 and bb in bd.dominators().get(news[0][0], ()) and bb != news[0][0]:
                    # and that MlpgAdjust's create() result is the lf0 argument
                    nb = p.body("speech::SpeechGenerator::new")
                    for gbb, gt in cm.local_calls(bd, p, exact="speech::SpeechGenerator::new"):
                        for k_, a_ in enumerate(gt["args"]):
                            if nb is not None and nb.local_name(k_ + 1) == "lf0":
                                s_ = show(eb.at(gbb).op(a_))
                                if "create(" in s_ and "msd_threshold[1]" in s_ and "gv_weight[1]" in s_:
                                    direct = True
        applied = False
        g0 = p.body("engine::Engine::generator")
        if (not direct) and bd.kind == "Closure" and bd.parent == "engine::Engine::generator" and g0 is not None and show(recv).endswith(".stream"):
            # closure form applied directly: `prepare(&mut v)` with v = model_stream(1), v then handed to
            # the MlpgAdjust whose create() result is the lf0 trajectory
            geb0 = ExprBuilder(g0)
            for cbb, ct in g0.calls():
                cn_ = cm.callee_name(ct["callee"]) if ct["callee"]["k"] == "fndef" else ""
                if not cn_.endswith("FnOnce::call_once") and not cn_.endswith("FnMut::call_mut") and not cn_.endswith("Fn::call"):
                    continue
                a0 = geb0.at(cbb).op(ct["args"][0])
                if not (a0[0] == "agg" and a0[1] == "closure:" + bd.path):
                    continue
                # the tuple's single element is `&mut V`
                tl = ct["args"][1]["place"]["local"] if ct["args"][1].get("k") in ("move", "copy") else None
                vl = None
                for dbb, didx, ditem in g0.defs().get(tl, []):
                    if didx != "term" and ditem["rv"]["k"] == "aggregate" and len(ditem["rv"]["ops"]) == 1 and ditem["rv"]["ops"][0].get("k") in ("move", "copy"):
                        rl_ = ditem["rv"]["ops"][0]["place"]["local"]
                        # `&mut V`, possibly through reborrows `&mut *r`
                        for _ in range(4):
                            nxt_ = None
                            for d2 in g0.defs().get(rl_, []):
                                if d2[1] != "term" and d2[2]["rv"]["k"] == "ref":
                                    pj = d2[2]["rv"]["place"]["proj"]
                                    if not pj:
                                        vl = d2[2]["rv"]["place"]["local"]
                                    elif all(e_["k"] == "deref" for e_ in pj):
                                        nxt_ = d2[2]["rv"]["place"]["local"]
                            if vl is not None or nxt_ is None:
                                break
                            rl_ = nxt_
                if vl is None:
                    continue
                src = show(geb0.local(vl))

                def base_local2(op):
                    n_ = 0
                    while op.get("k") in ("move", "copy") and not op["place"]["proj"] and n_ < 6:
                        l_ = op["place"]["local"]
                        if l_ == vl:
                            return l_
                        ds_ = [d_ for d_ in g0.defs().get(l_, []) if not g0.is_cleanup(d_[0])]
                        if len(ds_) == 1 and ds_[0][1] != "term" and ds_[0][2]["rv"]["k"] == "use":
                            op = ds_[0][2]["rv"]["op"]
                            n_ += 1
                            continue
                        return l_
                    return None
                news = [(nbb, nt) for nbb, nt in cm.local_calls(g0, p, exact="mlpg_adjust::MlpgAdjust::<'a>::new") if base_local2(nt["args"][2]) == vl]
                if src.startswith("model::Models::<'a>::model_stream(") and src.endswith(", 1)") and len(news) == 1 and cbb in g0.dominators().get(news[0][0], ()) and cbb != news[0][0]:
                    nb = p.body("speech::SpeechGenerator::new")
                    for gbb, gt in cm.local_calls(g0, p, exact="speech::SpeechGenerator::new"):
                        for k_, a_ in enumerate(gt["args"]):
                            if nb is not None and nb.local_name(k_ + 1) == "lf0":
                                s_ = show(geb0.at(gbb).op(a_))
                                if "create(" in s_ and "msd_threshold[1]" in s_ and "gv_weight[1]" in s_:
                                    applied = True
        if applied:
            direct = True
            ctx.ok("C15-R4", "the closure holding the single call is applied to the value of model_stream(1) before that value is handed to the MlpgAdjust whose create() result is the lf0 trajectory", cm.loc_of(t["span"]))
        elif direct:
            ctx.ok("C15-R4", "the single call shifts the value of model_stream(1) in place, before it is handed to the MlpgAdjust whose create() result is the lf0 trajectory", cm.loc_of(t["span"]))
        elif bd.kind == "Closure" and bd.parent == "engine::Engine::generator" and show(recv).endswith(".stream") and "additional_half_tone" in show(harg) and "condition" in show(harg):
            ctx.ok("C15-R4", "the single call is in Engine::generator's closure: m.stream.apply_additional_half_tone(self.condition.additional_half_tone)", cm.loc_of(t["span"]))
        else:
            ctx.fail("C15-R4", bd.path, "call site", "unexpected call site: %s(%s, %s)" % (AHT.split("::")[-1], show(recv), show(harg)), cm.loc_of(t["span"]))
        g = p.body("engine::Engine::generator")
        if g is not None and not direct:
            geb = ExprBuilder(g)
            # mutated(model_stream(1), closure) -> MlpgAdjust::new(_, _, that) -> create -> lf0 argument
            ok4 = False
            for gbb, gt in cm.local_calls(g, p, exact="speech::SpeechGenerator::new"):
                nb = p.body("speech::SpeechGenerator::new")
                for k, a in enumerate(gt["args"]):
                    if nb.local_name(k + 1) == "lf0":
                        e = geb.at(gbb).op(a)
                        s = show(e)
                        if "mutated(model::Models::<'a>::model_stream(" in s and ", 1)" in s and "create(" in s and "closure:" + bd.path in s:
                            ok4 = True
                        else:
                            ctx.fail("C15-R4", g.path, "lf0 argument", "the lf0 trajectory is %s" % s[:200], cm.loc_of(gt["span"]))
            if ok4:
                ctx.ok("C15-R4", "lf0 = MlpgAdjust::new(.., .., mutated(model_stream(1), closure)).create(durations)", g.loc())
        mu = p.body("engine::Engine::generator::mutated")
        if mu is not None and not direct:
            r = show(ExprBuilder(mu).local(0))
            calls = [cm.callee_name(t2["callee"]) if t2["callee"]["k"] == "fndef" else "<indirect>" for b2, t2 in mu.calls()]
            if r == "value" and len(calls) == 1 and "call_once" in calls[0]:
                ctx.ok("C15-R4", "mutated(value, f) calls f(&mut value) once and returns value", mu.loc())
            else:
                ctx.fail("C15-R4", mu.path, "helper", "mutated() returns %s with calls %s" % (r, calls), mu.loc())

    # ---- R5
    tn, res = condition_flow(p, cg, ["condition", "additional_half_tone"])
    if tn is None:
        ctx.fail("C15-R5", "engine::Engine::generator", "anchor", "flow analysis anchors missing")
    else:
        reached = sorted(k for k, v in res.items() if v and not k.startswith("_"))
        ctx.sample({"source": "condition.additional_half_tone", "reaches": reached})
        if reached == ["lf0"] and not res["_branches"]:
            ctx.ok("C15-R5", "condition.additional_half_tone reaches only the lf0 argument of SpeechGenerator::new; no branch depends on it")
        else:
            for r in reached:
                if r != "lf0":
                    ctx.fail("C15-R5", "engine::Engine::generator", "flow to " + r, "the additional half tone influences `%s`" % r)
            if "lf0" not in reached:
                ctx.fail("C15-R5", "engine::Engine::generator", "no flow to lf0", "the additional half tone no longer reaches the lf0 trajectory")
            if res["_branches"]:
                ctx.fail("C15-R5", "engine::Engine::generator", "branch", "control flow depends on the additional half tone (lines %s)" % res["_branches"])
    # inside MLPG the voiced/unvoiced pattern uses msd only: Mask::create reads the second tuple field
    mc = p.body("mlpg_adjust::mask::Mask::create::{closure#0}")
    if mc is not None:
        r = ExprBuilder(mc).local(0)
        txt = show(r)
        if ".1" in txt and ".0" not in txt.replace(".0)", ")"):
            ctx.ok("C15-R5", "the voicing mask reads only the msd component (tuple field 1), which the shift never writes (R2)", mc.loc())
        else:
            ctx.note("mask predicate: " + txt)
    ctx.assume("durations, spectrum and LPF are computed from values that the taint pass shows independent of the half tone; equality of those trajectories then follows from determinism (C03)")
    expl = ("Closed-form check of the three constants, write-set and normal form of the single store of the shift function, uniqueness "
            "and position of its call in the synthesis closure, and access-path taint from condition.additional_half_tone through "
            "Engine::generator (closures included) showing that only the lf0 trajectory depends on it.")
    return expl, ["rustc MIR", "f64::clamp semantics"]


def p_const(p, name):
    from fractions import Fraction
    return Fraction(float(p.consts[name]["f64"]))
