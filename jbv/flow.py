"""Flow matrix of Engine::generator: which condition field reaches which synthesis input.
Built on the access-path taint engine (E5)."""
from .taint import Taint
from .mir import callee_name

GEN = "engine::Engine::generator"
SGNEW = "speech::SpeechGenerator::new"


def generator_sinks(p):
    """-> (body, {sink name: operand}) : the arguments of SpeechGenerator::new by parameter name,
    plus the `durations` local"""
    g = p.body(GEN)
    nb = p.body(SGNEW)
    if g is None or nb is None:
        return None, {}
    sinks = {}
    for bb, t in g.calls():
        c = t["callee"]
        if c["k"] == "fndef" and callee_name(c) == SGNEW:
            for k, a in enumerate(t["args"]):
                sinks[nb.local_name(k + 1) or "arg%d" % (k + 1)] = a
    return g, sinks


def condition_flow(p, cg, fields, index=None):
    """taint result of Engine::generator for source self.<fields>[index]"""
    g, sinks = generator_sinks(p)
    if g is None:
        return None, {}
    # Declassification with a stated reason: `x.len()` of a trajectory returned by
    # MlpgAdjust::create is the frame count, which depends on `durations` only (C01-R1: one row per
    # mask entry; the mask is the duration-expansion of the per-state flags, so its length is the
    # sum of the durations whatever the flag values are).
    create_results = {}
    for bb, t in g.calls():
        c = t["callee"]
        if c["k"] == "fndef" and callee_name(c) == "mlpg_adjust::MlpgAdjust::<'a>::create" and not t["dest"]["proj"]:
            create_results[t["dest"]["local"]] = t
    # .. and every local that merely receives such a result by a plain move (the return slot of an
    # inlined helper, a renamed binding)
    changed = True
    while changed:
        changed = False
        for bb, i, st in g.iter_stmts():
            if st["k"] == "assign" and not st["place"]["proj"] and st["rv"]["k"] == "use" and st["rv"]["op"].get("k") in ("move", "copy") \
                    and not st["rv"]["op"]["place"]["proj"] and st["rv"]["op"]["place"]["local"] in create_results \
                    and st["place"]["local"] not in create_results:
                if len([d for d in g.defs().get(st["place"]["local"], []) if not g.is_cleanup(d[0])]) == 1:
                    create_results[st["place"]["local"]] = create_results[st["rv"]["op"]["place"]["local"]]
                    changed = True
    holder = {}

    def hook(t, at):
        c = t["callee"]
        if c["k"] != "fndef" or not callee_name(c).endswith("Vec::<T, A>::len"):
            return None
        a = t["args"][0]
        if a.get("k") not in ("copy", "move"):
            return None
        l = a["place"]["local"]
        tn_ = holder.get("tn")
        if tn_ is None:
            return None
        for base in tn_.pts.get(l, ()):
            if base[0] in create_results and base[1] is None:
                ct = create_results[base[0]]
                dur_t = tn_.operand_tainted(ct["args"][1]) or any(
                    tn_._is_t(*x) for pl in [ct["args"][1].get("place")] if pl for x in tn_.pts.get(pl["local"], ()))
                return (dur_t, [False] * len(t["args"]))
        return None

    class T2(Taint):
        def _run(self):
            holder["tn"] = self
            super()._run()
    tn = T2(g, source=(("local", 1), list(fields), index), program=p, cg=cg, call_hook=hook)
    res = {}
    for name, op in sinks.items():
        res[name] = tn.operand_tainted(op)
    for l, d in enumerate(g.locals):
        if d.get("name") == "durations":
            res["durations"] = tn.local_tainted(l)
    res["_branches"] = [t["span"].get("line") for sb, t in tn.tainted_switches]
    return tn, res
