"""E6: panic-capable-construct and allocation ledger.

Enumerates, for a set of bodies, every construct that can panic or allocate by an
input-controlled size.  Each site gets a *key without line numbers*:
    kind | function | detail | ordinal-among-equals
Classification into T1 (mechanically discharged), T2 (audited table) or finding is done by the
property modules; this module only enumerates and provides the mechanical guards.
"""
import re

from .expr import ExprBuilder, show, walk, canon
from .mir import callee_name

# ---- external APIs that can panic (family regex -> kind, note)
PANIC_API = [
    (r"^(std|core)::option::Option::<T>::(unwrap|expect)$", "unwrap", "Option::unwrap/expect"),
    (r"^(std|core)::result::Result::<T, E>::(unwrap|expect|unwrap_err|expect_err)$", "unwrap", "Result::unwrap/expect"),
    (r"^core::panicking::", "panic", "explicit panic"),
    (r"^std::rt::(begin_panic|panic_fmt)|^std::panicking::begin_panic", "panic", "explicit panic"),
    (r"^<std::vec::Vec<T, A> as std::ops::Index(Mut)?<I>>::index(_mut)?$", "index", "Vec indexing"),
    (r"^core::slice::index::<impl std::ops::Index(Mut)?<I> for \[T\]>::index(_mut)?$", "index", "slice indexing"),
    (r"^core::str::traits::<impl std::ops::Index(Mut)?<I> for str>::index(_mut)?$", "index", "str slicing"),
    (r"^<std::string::String as std::ops::Index(Mut)?<I>>::index(_mut)?$", "index", "String slicing"),
    (r"^<std::collections::(HashMap|BTreeMap)<.*> as std::ops::Index<.*>>::index$", "index", "map indexing"),
    (r"^core::array::<impl std::ops::Index(Mut)?<I> for \[T; N\]>::index(_mut)?$", "index", "array indexing"),
    (r"^(std|core)::ops::Index(Mut)?::index(_mut)?$", "index", "indexing on a generic receiver"),
    (r"^core::slice::<impl \[T\]>::(split_at|split_at_mut|copy_from_slice|clone_from_slice|swap|chunks|chunks_exact|windows|rotate_left|rotate_right|copy_within|fill_with|select_nth_unstable.*)$", "slice-api", "slice API with a length/index precondition"),
    (r"^core::str::<impl str>::(split_at|split_at_mut)$", "slice-api", "str::split_at (index must be a char boundary in range)"),
    (r"^std::vec::Vec::<T, A>::(remove|insert|swap_remove|drain|split_off|splice|extend_from_within)$", "slice-api", "Vec API with an index precondition"),
    (r"^std::string::String::(remove|insert|insert_str|drain|split_off|replace_range|truncate)$", "slice-api", "String API with an index precondition"),
    (r"^(std|core)::iter::Iterator::step_by$", "slice-api", "step_by(0) panics"),
    (r"^(std|core)::iter::Iterator::(sum|product)$", "arith-api", "integer sum/product overflow panics with overflow checks"),
    (r"^(std|core)::ops::(Add|Sub|Mul|Div|Rem|Neg|Shl|Shr)(Assign)?::\w+$", "arith-api", "arithmetic on a generic integer type inherits overflow/zero checks"),
    (r"^<\w+ as (std|core)::ops::(Add|Sub|Mul|Div|Rem|Neg|Shl|Shr)(Assign)?(<.*>)?>::\w+$", "arith-api", "integer operator impl (overflow checks on in dev builds)"),
    (r"^core::num::<impl \w+>::(pow|abs|div_euclid|rem_euclid|next_power_of_two|ilog\w*|isqrt|strict_\w+)$", "arith-api", "integer method that can overflow / divide by zero"),
    (r"^(std|core)::cell::RefCell::<T>::(borrow|borrow_mut)$", "unwrap", "RefCell borrow"),
    (r"^core::char::methods::<impl char>::(from_digit|to_digit)$", "slice-api", "radix precondition"),
    (r"^core::f64::<impl f64>::clamp$|^core::cmp::Ord::clamp$|^std::cmp::Ord::clamp$", "clamp", "clamp panics when min > max (or NaN bounds)"),
    (r"^std::slice::<impl \[T\]>::(repeat|concat|join)$", "alloc", "repeat(n): allocation proportional to n, capacity overflow panics"),
    (r"^std::vec::Vec::<T(, A)?>::(with_capacity|reserve|reserve_exact|resize|resize_with)$|^std::vec::Vec::<T, A>::with_capacity_in$", "alloc", "explicit capacity"),
    (r"^std::vec::from_elem$", "alloc", "vec![x; n]"),
    (r"^std::string::String::(with_capacity|reserve)$|^core::str::<impl str>::repeat$|^std::str::<impl str>::repeat$", "alloc", "explicit capacity"),
    (r"^std::collections::\w+::<.*>::(with_capacity|reserve)$", "alloc", "explicit capacity"),
    (r"^(std|core)::iter::repeat_n$|^(std|core)::iter::Iterator::take$", "noalloc", "lazy"),
]
PANIC_API = [(re.compile(rx), kind, note) for rx, kind, note in PANIC_API]

FLOAT_TYS = ("f64", "f32")


def api_kind(name):
    for rx, kind, note in PANIC_API:
        if rx.search(name):
            return kind, note
    return None, None


class Site:
    def __init__(self, kind, fn, detail, why, span, bb, item, body, extra=None, api=None):
        self.kind = kind
        self.fn = fn
        self.api = api or kind
        self.detail = detail
        self.why = why
        self.span = span
        self.bb = bb
        self.item = item
        self.body = body
        self.extra = extra or {}
        self.key = None
        self.tier = None     # "T1" / "T2" / None
        self.reason = None

    def loc(self):
        return "%s:%s" % (self.span.get("file"), self.span.get("line"))

    def shape(self):
        """`detail` with every local-variable / captured-variable name replaced by %1, %2, .. in
        order of first appearance: what the T2 shape regexes are matched against, so that renaming a
        local does not change the shape of an audited site (parameters keep their names)."""
        if getattr(self, "_shape", None) is not None:
            return self._shape
        b = self.body
        detail = self.detail
        # captured variables by value: `^node_count` -> what the constructing function bound it to
        if b.kind == "Closure" and "^" in detail and getattr(b, "program", None) is not None:
            try:
                from .expr import resolve_upvar_text
                detail = resolve_upvar_text(b.program, b, detail)
            except Exception:  # noqa: BLE001
                detail = self.detail
        self._order = {}
        self._shape = self.normalise(detail)
        return self._shape

    def normalise(self, detail):
        """replace local / captured variable names by %1, %2, .. (numbering shared with shape())"""
        b = self.body
        if getattr(self, "_order", None) is None:
            self._order = {}
        order = self._order
        names = set()
        for l, d in enumerate(b.locals):
            nm = d.get("name")
            if nm and (l > b.argc or b.kind == "Closure") and nm != "self":
                names.add(nm)
        for m in re.finditer(r"\^\*?([A-Za-z_]\w*)", detail):
            if m.group(1) != "self":
                names.add(m.group(1))

        def sub(m):
            w = m.group(0)
            if w not in names:
                return w
            pre = detail[max(0, m.start() - 2):m.start()]
            post = detail[m.end():m.end() + 2]
            if pre.endswith(".") or pre.endswith("::") or post.startswith(":") or post.startswith("("):
                return w
            if w not in order:
                order[w] = "%%%d" % (len(order) + 1)
            return order[w]
        return re.sub(r"[A-Za-z_]\w*", sub, detail)

    def mac(self):
        return self.span.get("mac")

    def __repr__(self):
        return "<%s %s %s>" % (self.kind, self.fn, self.detail)


def _panic_macro(t):
    m = t["span"].get("mac") or ""
    m = m.split("::")[-1]
    return m


def enumerate_sites(p, bodies, kinds=None):
    """All panic-capable / allocation constructs in `bodies` (iterable of paths)."""
    sites = []
    for path in sorted(bodies):
        b = p.bodies[path]
        eb = ExprBuilder(b)
        for bb, t in b.iter_terms():
            k = t["k"]
            if k == "assert":
                m = t["msg"]
                mk = m["k"]
                if mk == "BoundsCheck":
                    idx = eb.op(m["index"])
                    ln = eb.op(m["len"])
                    sites.append(Site("bounds", path, "index %s of len %s" % (show(idx)[:150], show(ln)[:150]),
                                      "slice/array index out of bounds", t["span"], bb, t, b,
                                      {"index": idx, "len": ln}, api="[]"))
                elif mk == "Overflow":
                    a, c = eb.op(m["a"]), eb.op(m["b"])
                    sites.append(Site("overflow", path, "%s(%s, %s)" % (m["op"], show(a)[:150], show(c)[:150]),
                                      "integer overflow check (overflow-checks on)", t["span"], bb, t, b,
                                      {"op": m["op"], "a": a, "b": c}, api=m["op"]))
                elif mk in ("DivisionByZero", "RemainderByZero"):
                    cond = eb.op(t["cond"])
                    div = cond[2] if cond[0] == "bin" and cond[1] == "Eq" else cond
                    sites.append(Site("divzero", path, "%s of %s by %s" % (mk, show(eb.op(m["a"]))[:50], show(div)[:50]),
                                      "integer division/remainder by zero", t["span"], bb, t, b, {"divisor": div},
                                      api="Div" if mk == "DivisionByZero" else "Rem"))
                elif mk == "OverflowNeg":
                    sites.append(Site("overflow", path, "Neg", "negation overflow", t["span"], bb, t, b))
                else:
                    sites.append(Site("assert-" + mk, path, mk, "compiler-inserted check", t["span"], bb, t, b))
            elif k == "call":
                c = t["callee"]
                if c["k"] != "fndef":
                    continue
                name = callee_name(c)
                kind, note = api_kind(name)
                if kind is None:
                    # unresolved generic: look at declared path
                    kind, note = api_kind(c["def"])
                if kind is None or kind == "noalloc":
                    continue
                if kind == "arith-api":
                    if c.get("resolved_krate") == p.crate:
                        continue  # local operator impl: its own body is analysed
                    # operator impls on floats never panic
                    st = (c.get("self_ty") or c.get("resolved_impl_self") or "").lstrip("&").replace("mut ", "")
                    m = re.match(r"^<&?(?:'\w+ )?(?:mut )?(\w+) as ", name)
                    prim = m.group(1) if m else st
                    if prim in FLOAT_TYS:
                        continue
                    if "Iterator::sum" in name or "Iterator::product" in name:
                        # element type from generic args
                        args = c.get("args") or []
                        if any(a in FLOAT_TYS or a.endswith("MeanVari") for a in args):
                            continue
                if kind == "panic":
                    mac = _panic_macro(t)
                    msg = ""
                    # message: first string constant flowing into the call
                    for a in t["args"]:
                        e = eb.op(a)
                        for x in walk(e):
                            if x[0] == "s":
                                msg = x[1]
                                break
                    det = "%s!(%s)" % (mac or "panic", msg[:50])
                    sites.append(Site("panic", path, det, note, t["span"], bb, t, b, {"macro": mac, "msg": msg},
                                      api="panic"))
                    continue
                args = [eb.op(a) for a in t["args"]]
                det = "%s(%s)" % (short_api(name), ", ".join(show(a)[:200] for a in args))
                sites.append(Site(kind, path, det, note, t["span"], bb, t, b, {"name": name, "args": args, "callee": c},
                                  api=short_api(name)))
        # casts that can lose information are not panics; division on floats is not a panic
    if kinds:
        sites = [s for s in sites if s.kind in kinds]
    # keys
    seen = {}
    for s in sites:
        base = "%s|%s|%s" % (s.kind, s.fn, s.api)
        n = seen.get(base, 0)
        seen[base] = n + 1
        s.key = "%s|%d" % (base, n)
    return sites


def short_api(name):
    m = re.search(r"::(\w+)$", name)
    tail = m.group(1) if m else name
    if "Vec<" in name or "Vec::" in name:
        return "Vec::" + tail
    if "Option" in name:
        return "Option::" + tail
    if "Result" in name:
        return "Result::" + tail
    if "for str" in name or "impl str" in name or name.startswith("<std::string::String as std::ops::Index"):
        return "str::" + tail
    if "[T]" in name:
        return "slice::" + tail
    return tail


# --------------------------------------------------------------------------------------
# T1 mechanical guards


def _range_loop_var(body, eb, e):
    """If e is the variable of `for e in lo..hi` (Range::next result unwrapped), return (lo, hi)."""
    # pattern: e = (next(&mut iter) as Some).0 ; iter = into_iter(Range{start, end})
    x = e
    if x[0] == "var":
        # user variable assigned from the Some payload: single def through a copy
        ds = eb.def_exprs(x[1])
        if len(ds) == 1:
            x = ds[0]
    if x[0] == "field" and x[2] == "0" and x[1][0] == "variant" and x[1][2] == "Some":
        nx = x[1][1]
        if nx[0] == "call" and "Range" in nx[1] and nx[1].endswith("::next"):
            it = nx[2][0]
            for d in ([it] if it[0] != "var" else eb.def_exprs(it[1])):
                if d[0] == "agg" and d[1].endswith("Range::Range"):
                    return d[2][0], d[2][1], False
                if d[0] == "call" and d[1].endswith("RangeInclusive::<Idx>::new"):
                    return d[2][0], d[2][1], True
    return None


def guard_bounds(site):
    """T1: `x[i]` with i from `0..x.len()` (same x), or i a constant below a dominating length test."""
    b = site.body
    eb = ExprBuilder(b)
    idx, ln = site.extra.get("index"), site.extra.get("len")
    if idx is None:
        return None
    r = _range_loop_var(b, eb, idx)
    if r:
        lo, hi, incl = r
        if not incl and hi[0] == "len" and ln[0] == "len" and canon(hi[1]) == canon(ln[1]):
            return "index is the variable of `for i in _..len(x)` over the indexed object"
        if not incl and canon(hi) == canon(ln):
            return "index ranges below the same length value"
    return None


def guard_index_call(site):
    """T1 for Vec/slice Index calls: index from 0..len() of the same object."""
    b = site.body
    eb = ExprBuilder(b)
    args = site.extra.get("args") or []
    if len(args) != 2:
        return None
    obj, idx = args
    r = _range_loop_var(b, eb, idx)
    if r:
        lo, hi, incl = r
        if not incl and hi[0] == "len" and canon(hi[1]) == canon(obj):
            return "index is the variable of `for i in _..x.len()` over the indexed object"
    return None


def guard_lt_len(site):
    """T1: an element access `x[e]` (compiler bounds check or Index call) dominated by the test
    `e < x.len()` on the same expression and the same object"""
    from . import paths
    x = site.extra
    if site.kind == "bounds":
        idx, ln = x.get("index"), x.get("len")
    elif site.kind == "index":
        a = x.get("args") or []
        if len(a) != 2 or a[1][0] in ("agg",) or (a[1][0] == "call" and "Range" in a[1][1]):
            return None
        idx, ln = a[1], ("len", a[0])
    else:
        return None
    if idx is None or ln is None:
        return None
    b = site.body
    eb = ExprBuilder(b)
    ci, cl = canon(idx), canon(ln)
    for g in paths.guards(b, site.bb, eb):
        if g[0] not in ("true", "false"):
            continue
        pos, c = paths.bool_atoms(g)
        if c[0] != "bin":
            continue
        op, l, r = c[1], canon(c[2]), canon(c[3])
        if (l, r) == (ci, cl) and ((op == "Lt" and pos) or (op == "Ge" and not pos)):
            return "index expression is tested `< len` of the same object on every path to the access"
        if (l, r) == (cl, ci) and ((op == "Gt" and pos) or (op == "Le" and not pos)):
            return "index expression is tested `< len` of the same object on every path to the access"
    return None


def _minus_const(e):
    """(inner, c) if e = inner - c with a constant c >= 0"""
    if e[0] == "bin" and e[1] in ("Sub", "SubUnchecked") and e[3][0] == "c" and isinstance(e[3][1], int) and e[3][1] >= 0:
        return e[2], e[3][1]
    return None


def guard_loop_minus_const(site):
    """T1 for `i - c` / `x[i - c]` with i the variable of `for i in lo..x.len()`, lo a constant >= c:
    the subtraction cannot wrap, and i - c < i < len(x)"""
    b = site.body
    eb = ExprBuilder(b)
    x = site.extra
    if site.kind == "overflow" and x.get("op") == "Sub":
        a, c = x.get("a"), x.get("b")
        if a is not None and c is not None and c[0] == "c" and isinstance(c[1], int) and c[1] >= 0:
            r = _range_loop_var(b, eb, a)
            if r and r[0][0] == "c" and isinstance(r[0][1], int) and r[0][1] >= c[1]:
                return "i - %d with i from a range starting at %d: no wrap" % (c[1], r[0][1])
        return None
    if site.kind == "bounds":
        idx, ln = x.get("index"), x.get("len")
        obj = ln[1] if ln is not None and ln[0] == "len" else None
    elif site.kind == "index":
        a = x.get("args") or []
        if len(a) != 2:
            return None
        obj, idx = a
    else:
        return None
    if idx is None or obj is None:
        return None
    mc = _minus_const(idx)
    if mc is None:
        return None
    r = _range_loop_var(b, eb, mc[0])
    if r and not r[2] and r[1][0] == "len" and canon(r[1][1]) == canon(obj):
        return "index is i - %d with i the variable of `for i in _..x.len()` over the indexed object" % mc[1]
    return None


def is_str_slice(site):
    """a range slice of a str / String: besides `end <= len` it needs both ends on a char boundary,
    which no length argument gives - only the full range is mechanical (seed C18i: the error
    preview `lossy[..min(len, 20)]` cut a 3-byte U+FFFD)"""
    return site.kind == "index" and str(site.api).startswith("str::index")


def t1_common(site):
    """guards shared by every ledger user"""
    x = site.extra
    if is_str_slice(site):
        a = x.get("args") or []
        if len(a) == 2 and a[1][0] == "agg" and a[1][1].endswith("RangeFull::RangeFull"):
            return "full-range slice `x[..]` cannot fail"
        return None
    if site.kind in ("overflow", "bounds", "index"):
        r = guard_loop_minus_const(site)
        if r:
            return r
    if site.kind == "index":
        a = x.get("args") or []
        if len(a) == 2 and a[1][0] == "agg" and a[1][1].endswith("RangeFull::RangeFull"):
            return "full-range slice `x[..]` cannot fail"
        r = guard_index_call(site)
        if r:
            return r
    if site.kind == "bounds":
        r = guard_bounds(site)
        if r:
            return r
    if site.kind in ("index", "bounds"):
        r = guard_lt_len(site)
        if r:
            return r
    if site.kind == "index":
        r = guard_prior_index(site)
        if r:
            return r
        # x[i..] / x[..i] / x[..=i] with i the variable of `for i in lo..x.len()`: i <= len
        a = x.get("args") or []
        if len(a) == 2 and a[1][0] == "agg" and a[1][2] and (a[1][1].endswith("RangeFrom::RangeFrom") or a[1][1].endswith("RangeTo::RangeTo")):
            r2 = _range_loop_var(site.body, ExprBuilder(site.body), a[1][2][0])
            if r2 and not r2[2] and r2[1][0] == "len" and canon(r2[1][1]) == canon(a[0]):
                return "range bound is a loop variable below len() of the sliced object"
    if site.kind in ("bounds", "index"):
        # element j of the first half of x.split_at(k) with k - j a positive constant: j < k = its length
        if site.kind == "bounds":
            idx_, ln_ = x.get("index"), x.get("len")
            obj_ = ln_[1] if ln_ is not None and ln_[0] == "len" else None
        else:
            a_ = x.get("args") or []
            obj_, idx_ = (a_[0], a_[1]) if len(a_) == 2 else (None, None)
        if obj_ is not None and idx_ is not None and obj_[0] == "field" and obj_[2] == "0" and obj_[1][0] == "call" and "split_at" in obj_[1][1] and len(obj_[1][2]) == 2 and idx_[0] != "agg":
            from .expr import to_poly
            d_ = to_poly(obj_[1][2][1]) - to_poly(idx_)
            if d_.is_const() and d_.const_value() >= 1:
                return "element j of the first half of x.split_at(k) with j < k"
    if site.kind == "index":
        # the second half of x.split_at(len(x)/c) sliced `[..len(x)/c]`: it has len - len/c >= len/c
        # elements for c >= 2
        a = x.get("args") or []
        if len(a) == 2 and a[1][0] == "agg" and a[1][1].endswith("RangeTo::RangeTo") and a[1][2]:
            obj, end = a[0], a[1][2][0]
            if obj[0] == "field" and obj[2] == "1" and obj[1][0] == "call" and "split_at" in obj[1][1] and len(obj[1][2]) == 2 and canon(obj[1][2][1]) == canon(end) \
                    and end[0] == "bin" and end[1] == "Div" and end[2][0] == "len" and canon(end[2][1]) == canon(obj[1][2][0]) and end[3][0] == "c" and end[3][1] >= 2:
                return "second half of x.split_at(len(x)/c) sliced [..len(x)/c]: len - len/c >= len/c"
    if site.kind == "slice-api" and site.api and "copy_from_slice" in site.api:
        a = x.get("args") or []
        if len(a) == 2:
            dst, src = a
            # the source is a copy (clone / to_vec are transparent in the expression tree) of the
            # destination itself, or a vector allocated with the destination's length
            def norm(e):
                # a copy has the length of what it copies
                while e[0] == "call" and len(e[2]) == 1 and e[1].rsplit("::", 1)[-1] in ("to_vec", "clone", "to_owned", "deref", "as_slice", "borrow", "as_ref"):
                    e = e[2][0]
                # `self` of a type whose Deref returns one of its fields is that field
                b_ = site.body
                prog = getattr(b_, "program", None)
                if e[0] == "arg" and e[1] == 1 and prog is not None and b_.impl and b_.impl.get("self_ty"):
                    d_ = prog.bodies.get("<%s as std::ops::Deref>::deref" % b_.impl["self_ty"])
                    if d_ is not None:
                        r_ = ExprBuilder(d_).local(0)
                        if r_[0] == "field" and r_[1][0] == "arg" and r_[1][1] == 1:
                            return ("field", e, r_[2])
                return e
            if canon(norm(dst)) == canon(norm(src)):
                return "source is a copy of the destination (clone): equal lengths"
            if src[0] == "call" and src[1].endswith("from_elem") and len(src[2]) == 2 and src[2][1][0] == "len" and canon(norm(src[2][1][1])) == canon(norm(dst)):
                return "source is vec![_; len(destination)]: equal lengths"
    if site.kind == "slice-api" and site.api and site.api.endswith("windows") or (site.kind == "slice-api" and site.api and site.api.rsplit("::", 1)[-1] in ("chunks", "chunks_exact")):
        a = x.get("args") or []
        if len(a) == 2 and a[1][0] == "c" and isinstance(a[1][1], int) and a[1][1] >= 1:
            return "window / chunk size is the non-zero constant %d" % a[1][1]
    if site.kind == "slice-api" and site.api and "split_at" in site.api:
        a = x.get("args") or []
        if len(a) == 2:
            obj, mid = a
            # x.split_at(x.len() / c), c >= 1, or x.split_at(min(x.len(), _)): mid <= len
            if mid[0] == "bin" and mid[1] == "Div" and mid[2][0] == "len" and canon(mid[2][1]) == canon(obj) and mid[3][0] == "c" and mid[3][1] >= 1:
                return "split point is len(x) / c of the split object (<= len)"
            if mid[0] == "call" and mid[1].split("::")[-1] == "min" and any(y[0] == "len" and canon(y[1]) == canon(obj) for y in mid[2]):
                return "split point is min(len(x), _) of the split object"
            # x.split_at(i + 1) with i the variable of `for i in _..x.len()`: i + 1 <= len
            if mid[0] == "bin" and mid[1] in ("Add", "AddUnchecked") and mid[3][0] == "c" and mid[3][1] == 1:
                r2 = _range_loop_var(site.body, ExprBuilder(site.body), mid[2])
                if r2 and not r2[2] and r2[1][0] == "len" and canon(r2[1][1]) == canon(obj):
                    return "split point is i + 1 with i the variable of `for i in _..x.len()` over the split object"
            # the second half of x.split_at(len(x)/c), split again at len(x)/c: it has
            # len - len/c >= len/c elements for c >= 2
            if obj[0] == "field" and obj[2] == "1" and obj[1][0] == "call" and "split_at" in obj[1][1] and len(obj[1][2]) == 2 and canon(obj[1][2][1]) == canon(mid) \
                    and mid[0] == "bin" and mid[1] == "Div" and mid[2][0] == "len" and canon(mid[2][1]) == canon(obj[1][2][0]) and mid[3][0] == "c" and mid[3][1] >= 2:
                return "second half of x.split_at(len(x)/c) split at len(x)/c again: len - len/c >= len/c"
    return None


_SHRINK = re.compile(r"::(truncate|clear|pop|drain|remove|swap_remove|split_off|retain|dedup\w*|set_len|resize\w*|shrink\w*)$")


def guard_prior_index(site):
    """`x[c..]` (c a constant) after `x[k]`, k >= c - 1, succeeded on every path to it: the earlier
    access is bounds-checked, so len(x) >= k + 1 >= c and the range start is in range.  No call
    that can shorten a Vec may sit in the function at all (coarse, but sound)."""
    a = site.extra.get("args") or []
    if len(a) != 2:
        return None
    obj, rng = a
    if not (rng[0] == "agg" and rng[1].endswith("RangeFrom::RangeFrom") and rng[2] and rng[2][0][0] == "c" and isinstance(rng[2][0][1], int)):
        return None
    c = rng[2][0][1]
    if c == 0:
        return "x[0..] cannot fail"
    b = site.body
    eb = ExprBuilder(b)
    dom = b.dominators().get(site.bb, ())
    for bb, t in b.calls():
        cal = t["callee"]
        if cal["k"] == "fndef" and _SHRINK.search(callee_name(cal)):
            return None
    for bb, t in b.calls():
        if bb == site.bb or bb not in dom:
            continue
        cal = t["callee"]
        if cal["k"] != "fndef":
            continue
        nm = callee_name(cal)
        if not (nm.endswith("Index<I>>::index") or nm.endswith("IndexMut<I>>::index_mut") or nm.endswith("::index") or nm.endswith("::index_mut")):
            continue
        if len(t["args"]) != 2:
            continue
        o2, i2 = eb.at(bb).op(t["args"][0]), eb.op(t["args"][1])
        if i2[0] == "c" and isinstance(i2[1], int) and i2[1] >= c - 1 and canon(o2) == canon(obj):
            return "a dominating access to element %d of the same object succeeded, so its length is at least %d and the range start %d is in range" % (i2[1], i2[1] + 1, c)
    return None


def site_guards(site):
    """normalised dominating guards of a site as strings `polarity: condition`"""
    from . import paths
    eb = ExprBuilder(site.body)
    out = []
    b = site.body
    prog = getattr(b, "program", None)
    for g in paths.guards(site.body, site.bb, eb):
        out.append("%s: %s" % (g[0], show(g[1]) if len(g) > 1 and isinstance(g[1], tuple) else str(g[1:])))
        # `E.and_then(f)` / `E.filter(f)` / `E.map(..)` is Some  =>  E is Some, and (and_then, filter)
        # whatever dominates every Some / true return of f holds for E's payload
        e = g[1] if len(g) > 1 and isinstance(g[1], tuple) else None
        # len(x) == 0  <=>  x.is_empty()
        if g[0] in ("true", "false") and e is not None and e[0] == "bin" and e[1] in ("Eq", "Ne"):
            for l_, r_ in ((e[2], e[3]), (e[3], e[2])):
                if l_[0] == "len" and r_[0] == "c" and r_[1] == 0:
                    holds_empty = (g[0] == "true") == (e[1] == "Eq")
                    out.append("%s: <len == 0>::is_empty(%s)" % ("true" if holds_empty else "false", show(l_[1])))
        # std predicates with an exact meaning on the code point: c.is_ascii_digit() <=> '0' <= c <= '9'
        if g[0] == "true" and e is not None and e[0] == "call" and e[1].endswith("::is_ascii_digit") and len(e[2]) == 1 and ("char" in e[1] or "u8" in e[1]):
            out.append("true: Le(48, %s)" % show(e[2][0]))
            out.append("true: Le(%s, 57)" % show(e[2][0]))
        if g[0] == "some" and e is not None and e[0] == "call" and len(e[2]) == 2 and prog is not None and \
                e[1].rsplit("::", 1)[-1] in ("and_then", "filter") and "Option" in e[1]:
            inner, clo = e[2]
            out.append("some: %s" % show(inner))
            cb = prog.bodies.get(clo[1][len("closure:"):]) if clo[0] == "agg" and clo[1].startswith("closure:") else None
            if cb is not None and not cb.natural_loops():
                ceb = ExprBuilder(cb)
                common = None
                for rbb, re_, item in paths.return_exprs(cb, ceb):
                    yes = (re_[0] == "agg" and re_[1].endswith("Option::Some")) if e[1].endswith("and_then") else not (re_[0] == "c" and re_[1] is False)
                    if e[1].endswith("and_then") and not (re_[0] == "agg" and re_[1].endswith("Option::None")) and not yes:
                        common = set()      # an opaque return value: nothing can be concluded
                        break
                    if not yes:
                        continue
                    gs_ = set()
                    for cg in paths.guards(cb, rbb, ceb):
                        if cg[0] in ("true", "false") and isinstance(cg[1], tuple):
                            gs_.add((cg[0], cg[1]))
                    common = gs_ if common is None else (common & gs_)
                payload = ("field", ("variant", inner, "Some"), "0")
                from .loops import rewrite
                for pol_, ce in sorted(common or (), key=lambda x: show(x[1])):
                    sub_ = rewrite(ce, lambda n: payload if n[0] == "arg" and n[1] == 2 else None)
                    out.append("%s: %s" % (pol_, show(sub_)))
    # a closure runs only where it is constructed/used: add the guards of its construction site
    depth = 0
    while prog is not None and b is not None and b.kind == "Closure" and depth < 4:
        par = prog.bodies.get(getattr(b, "direct_parent", None) or b.parent)
        if par is None:
            break
        peb = ExprBuilder(par)
        for bb, i, st in par.iter_stmts():
            if st["k"] == "assign" and st["rv"]["k"] == "aggregate" and st["rv"]["kind"].get("def") == b.path:
                for g in paths.guards(par, bb, peb):
                    out.append("parent %s: %s" % (g[0], show(g[1]) if len(g) > 1 and isinstance(g[1], tuple) else str(g[1:])))
        b = par
        depth += 1
    return out


def t2_lookup(table, site):
    """the audited entry for a site: by exact key, or - for a site in a closure / in a helper that
    did not exist in the pinned tree (the key of such a body is not stable) - an entry of the same
    kind and API under the same enclosing pinned function whose shape and guards match"""
    ent = table.get(site.key)
    if ent is not None:
        return ent
    b = site.body
    prog = getattr(b, "program", None)
    top = b
    n = 0
    while prog is not None and top is not None and top.kind == "Closure" and n < 6:
        top = prog.bodies.get(top.parent)
        n += 1
    if top is None:
        return None
    parts = site.key.split("|")
    same_fn_only = top is b and "{closure" not in site.fn
    for k, e in table.items():
        kp = k.split("|")
        if len(kp) < 3 or kp[0] != parts[0] or kp[2] != parts[2]:
            continue
        if same_fn_only:
            # a site of a pinned function whose ordinal changed (a sibling site moved in or out of
            # a closure): only an entry of that very function that names the guards it relies on,
            # tied to the operand through named groups, may be re-used
            if kp[1] != site.fn or len(e) < 3 or not e[2] or "(?P<" not in e[0]:
                continue
        else:
            kfn = kp[1].split("::{closure")[0]
            if kfn != top.path:
                continue
        if t2_match(e, site)[0]:
            return e
    return None


def t2_match(ent, site, extra_text=""):
    """an audited (T2) entry is (shape regex, reason[, [guard regexes]]): the site's name-normalised
    expression must still match the shape, and every guard the audit relies on must still dominate
    the site.  Returns (ok, why-not)."""
    rx = ent[0]
    m = re.search(rx, site.shape() + extra_text)
    if not m:
        return False, "audited site changed shape: expected /%s/ in `%s`" % (rx, site.shape()[:200])
    # named groups of the shape regex tie the guards to the operands: `{name}` in a guard regex is
    # the text the group matched
    groups = {k: v for k, v in m.groupdict().items() if v is not None}

    def tie(grx):
        for k, v in groups.items():
            grx = grx.replace("{%s}" % k, re.escape(v))
        return grx
    if len(ent) > 2:
        gs = site_guards(site)
        if groups:
            # tied guards are compared with the shape, so they are name-normalised the same way
            gs = gs + [site.normalise(g) for g in gs]
        for grx in ent[2]:
            grx = tie(grx)
            if not any(re.search(grx, g) for g in gs):
                return False, "the guard the audit relies on (/%s/) no longer dominates the site; dominating guards are %s" % (grx, [g[:80] for g in gs])
    if len(ent) > 3 and ent[3]:
        prog = getattr(site.body, "program", None)
        if prog is None:
            return False, "caller guards cannot be evaluated (no program)"
        for grx in ent[3]:
            if not _callers_guarded(prog, site.fn, grx, 1):
                return False, "the guard the audit relies on at the call sites (/%s/) does not dominate every call path to %s (up to 3 levels)" % (grx, site.fn)
    return True, None


_CALLERS = {}


def _callers_of(prog, fn):
    key = id(prog)
    if key not in _CALLERS:
        idx = {}
        for path, b in prog.bodies.items():
            for bb, t in b.calls():
                c = t["callee"]
                if c["k"] == "fndef":
                    idx.setdefault(callee_name(c), []).append((b, bb, t))
        _CALLERS[key] = idx
    return _CALLERS[key].get(fn, [])


def _callers_guarded(prog, fn, grx, depth):
    """every call site of `fn` is dominated by a guard matching grx, or sits in a function all of
    whose call sites are (recursively, depth <= 3)"""
    from . import paths
    cs = _callers_of(prog, fn)
    # a closure runs where it is handed over: the statement that builds it stands for its call sites
    fb = prog.bodies.get(fn)
    if not cs and fb is not None and fb.kind == "Closure":
        par = prog.bodies.get(getattr(fb, "direct_parent", None) or fb.parent)
        if par is not None:
            for bb_, i_, st_ in par.iter_stmts():
                if st_["k"] == "assign" and st_["rv"]["k"] == "aggregate" and st_["rv"]["kind"].get("k") == "closure" and st_["rv"]["kind"].get("def") == fn:
                    cs = cs + [(par, bb_, None)]
    if not cs or depth > 3:
        return False
    for b, bb, t in cs:
        eb = ExprBuilder(b)
        gs = ["%s: %s" % (g[0], show(g[1]) if len(g) > 1 and isinstance(g[1], tuple) else str(g[1:])) for g in paths.guards(b, bb, eb)]
        if any(re.search(grx, g) for g in gs):
            continue
        if not _callers_guarded(prog, b.path, grx, depth + 1):
            return False
    return True
