"""E2: resolved call graph over local bodies, closures, and external callee collection."""
from collections import defaultdict

from .mir import callee_name


def _walk_operands(body):
    """every operand in non-cleanup code, with its location"""
    for bb, i, st in body.iter_stmts():
        if st["k"] != "assign":
            continue
        rv = st["rv"]
        for key in ("op", "a", "b"):
            if key in rv and isinstance(rv[key], dict):
                yield bb, i, rv[key], st["span"]
        for o in rv.get("ops", []):
            yield bb, i, o, st["span"]
    for bb, t in body.iter_terms():
        if t["k"] in ("call", "tailcall"):
            for a in t["args"]:
                yield bb, "term", a, t["span"]
            c = t["callee"]
            if c["k"] != "fndef":
                yield bb, "term", c["op"], t["span"]
        elif t["k"] == "switch":
            yield bb, "term", t["discr"], t["span"]
        elif t["k"] == "assert":
            yield bb, "term", t["cond"], t["span"]


class CallGraph:
    def __init__(self, program):
        self.p = program
        self.edges = defaultdict(set)      # caller path -> callee local paths
        self.edge_sites = defaultdict(list)  # (caller, callee) -> [span]
        self.ext = defaultdict(list)       # caller path -> [(name, callee-json, term)]
        self.unresolved = defaultdict(list)
        self.indirect = defaultdict(list)
        self.trait_impls = defaultdict(list)  # (trait path, method) -> [body paths]
        self._index_traits()
        for path, b in program.bodies.items():
            self._scan(b)

    def _index_traits(self):
        for path, b in self.p.bodies.items():
            im = b.impl
            if not im or not im.get("trait"):
                continue
            method = path.rsplit("::", 1)[-1]
            tr = im["trait"]
            if im.get("provided"):
                tpath = tr
            else:
                # "<X as some::Trait<Args>>" -> some::Trait
                s = tr
                if " as " in s:
                    s = s.split(" as ", 1)[1]
                    s = s[:-1] if s.endswith(">") else s
                # strip generic args
                depth = 0
                out = []
                for ch in s:
                    if ch == "<":
                        depth += 1
                    if depth == 0:
                        out.append(ch)
                    if ch == ">":
                        depth -= 1
                tpath = "".join(out)
            self.trait_impls[(tpath, method)].append(path)

    def _add(self, caller, callee, span):
        self.edges[caller].add(callee)
        self.edge_sites[(caller, callee)].append(span)

    def _scan(self, b):
        crate = self.p.crate
        bodies = self.p.bodies
        for bb, t in b.calls():
            c = t["callee"]
            if c["k"] != "fndef":
                self.indirect[b.path].append(t)
                continue
            res = c.get("resolved")
            if res is not None and c.get("resolved_krate") == crate and res in bodies:
                self._add(b.path, res, t["span"])
                continue
            if res is not None and c.get("resolved_krate") == crate:
                # local item without MIR body (e.g. tuple-struct constructor fn): no effect
                if c.get("resolved_kind") in ("Item",) and res not in bodies:
                    self.ext[b.path].append(("<local-ctor>" + res, c, t))
                    continue
            if res is None and c.get("krate") == crate:
                # unresolved local trait method / generic: link to every local impl
                tr = c.get("trait")
                method = c["def"].rsplit("::", 1)[-1]
                targets = self.trait_impls.get((tr, method), []) if tr else []
                if c["def"] in bodies:
                    targets = targets + [c["def"]]
                if targets:
                    for tg in targets:
                        self._add(b.path, tg, t["span"])
                    continue
                self.unresolved[b.path].append(t)
                continue
            if res is None and c.get("krate") != crate:
                # external trait method on a generic receiver: external, receiver unknown
                self.ext[b.path].append((c["def"], c, t))
                continue
            self.ext[b.path].append((callee_name(c), c, t))
        # closures constructed and fn items referenced as values
        for bb, i, st in b.iter_stmts():
            if st["k"] == "assign" and st["rv"]["k"] == "aggregate":
                kd = st["rv"]["kind"]
                if kd["k"] in ("closure", "coroutine", "coroutineclosure") and kd["def"] in bodies:
                    self._add(b.path, kd["def"], st["span"])
        for bb, i, o, span in _walk_operands(b):
            if o["k"] == "const" and "fn" in o:
                if o.get("fn_krate") == crate and o["fn"] in bodies:
                    self._add(b.path, o["fn"], span)
                elif o.get("fn_krate") == crate:
                    # generic trait method referenced as a value: link all impls
                    method = o["fn"].rsplit("::", 1)[-1]
                    tr = o["fn"].rsplit("::", 1)[0]
                    for tg in self.trait_impls.get((tr, method), []):
                        self._add(b.path, tg, span)
                else:
                    self.ext[b.path].append(("<fnref>" + o["fn"], {"k": "fndef", "def": o["fn"],
                                                                  "krate": o.get("fn_krate")}, None))
        # closure/fn types appearing as generic args of callees (e.g. passed by type only)
        for bb, t in b.calls():
            c = t["callee"]
            if c["k"] != "fndef":
                continue
            for info in list(c.get("arg_info") or []) + list(t.get("arg_tys") or []):
                self._link_tyinfo(b, info, t["span"])

    def _link_tyinfo(self, b, info, span):
        while isinstance(info, dict):
            k = info.get("k")
            if k in ("closure", "fndef") and info.get("def") in self.p.bodies:
                self._add(b.path, info["def"], span)
                return
            if k == "ref":
                info = info.get("to")
                continue
            return

    def closure(self, roots):
        """transitive closure of local bodies reachable from roots; returns {path: parent-path}"""
        seen = {}
        st = [(r, None) for r in roots if r in self.p.bodies]
        while st:
            n, par = st.pop()
            if n in seen:
                continue
            seen[n] = par
            for m in sorted(self.edges.get(n, ())):
                if m not in seen:
                    st.append((m, n))
        return seen

    def path_to(self, closure, node):
        out = [node]
        while closure.get(out[-1]) is not None:
            out.append(closure[out[-1]])
        return list(reversed(out))
