"""E2: resolved call graph over local bodies, closures, and external callee collection."""
from collections import defaultdict

from .mir import callee_name


def _walk_operands(body):
    """every operand in non-cleanup code, with its location"""
    for bb, i, st in body.iter_stmts():
        if st["k"] != "assign":
            continue
        rv = st["rv"]
        for key in ("op", "a", "b"):
            if key in rv and isinstance(rv[key], dict):
                yield bb, i, rv[key], st["span"]
        for o in rv.get("ops", []):
            yield bb, i, o, st["span"]
    for bb, t in body.iter_terms():
        if t["k"] in ("call", "tailcall"):
            for a in t["args"]:
                yield bb, "term", a, t["span"]
            c = t["callee"]
            if c["k"] != "fndef":
                yield bb, "term", c["op"], t["span"]
        elif t["k"] == "switch":
            yield bb, "term", t["discr"], t["span"]
        elif t["k"] == "assert":
            yield bb, "term", t["cond"], t["span"]


class CallGraph:
    def __init__(self, program):
        self.p = program
        self.edges = defaultdict(set)      # caller path -> callee local paths
        self.edge_sites = defaultdict(list)  # (caller, callee) -> [span]
        self.ext = defaultdict(list)       # caller path -> [(name, callee-json, term)]
        self.unresolved = defaultdict(list)
        self.indirect = defaultdict(list)
        self.trait_impls = defaultdict(list)  # (trait path, method) -> [body paths]
        self.trait_all = defaultdict(list)    # trait path -> [body paths of all local impl methods]
        self.impl_methods = defaultdict(list)  # impl def -> [body paths]
        self.adt_ext_trait_methods = defaultdict(list)  # local adt path -> [body paths] (impls of external traits)
        top = {m.split("::")[0] for m in program.doc.get("mods", []) if m}
        self.local_tops = top
        self._index_traits()
        self.adt_paths = sorted(program.adts, key=len, reverse=True)
        for path, b in program.bodies.items():
            self._scan(b)

    def _index_traits(self):
        self.trait_krate = {}
        for path, b in self.p.bodies.items():
            im = b.impl
            if not im or not im.get("trait"):
                continue
            method = path.rsplit("::", 1)[-1]
            tpath = im.get("trait_path")
            if tpath is None:
                continue
            self.trait_krate[tpath] = im.get("trait_krate")
            self.trait_impls[(tpath, method)].append(path)
            self.trait_all[tpath].append(path)
            if not im.get("provided"):
                self.impl_methods[im["impl_def"] + "|" + im["trait"]].append(path)
                if not self.is_local_trait(tpath):
                    st = im.get("self_ty") or ""
                    for a in self.p.adts:
                        if a in st:
                            self.adt_ext_trait_methods[a].append(path)

    def is_local_trait(self, tpath):
        return self.trait_krate.get(tpath) == self.p.crate

    def _add(self, caller, callee, span):
        self.edges[caller].add(callee)
        self.edge_sites[(caller, callee)].append(span)

    def _scan(self, b):
        crate = self.p.crate
        bodies = self.p.bodies
        for bb, t in b.calls():
            c = t["callee"]
            if c["k"] != "fndef":
                self.indirect[b.path].append(t)
                continue
            res = c.get("resolved")
            if res is not None and c.get("resolved_krate") == crate and res in bodies:
                self._add(b.path, res, t["span"])
                continue
            if res is not None and c.get("resolved_krate") == crate:
                # local item without MIR body (e.g. tuple-struct constructor fn): no effect
                if c.get("resolved_kind") in ("Item",) and res not in bodies:
                    self.ext[b.path].append(("<local-ctor>" + res, c, t))
                    continue
            if res is None and c.get("krate") == crate:
                # unresolved local trait method / generic: link to every local impl
                tr = c.get("trait")
                method = c["def"].rsplit("::", 1)[-1]
                targets = self.trait_impls.get((tr, method), []) if tr else []
                if c["def"] in bodies:
                    targets = targets + [c["def"]]
                if targets:
                    for tg in targets:
                        self._add(b.path, tg, t["span"])
                    continue
                self.unresolved[b.path].append(t)
                continue
            if res is None and c.get("krate") != crate:
                # external trait method on a generic receiver: external, receiver unknown
                self.ext[b.path].append((c["def"], c, t))
                self._link_ext(b, c, t)
                continue
            self.ext[b.path].append((callee_name(c), c, t))
            self._link_ext(b, c, t)
        # closures constructed and fn items referenced as values
        for bb, i, st in b.iter_stmts():
            if st["k"] == "assign" and st["rv"]["k"] == "aggregate":
                kd = st["rv"]["kind"]
                if kd["k"] in ("closure", "coroutine", "coroutineclosure") and kd["def"] in bodies:
                    self._add(b.path, kd["def"], st["span"])
        for bb, i, o, span in _walk_operands(b):
            if o["k"] == "const" and "fn" in o:
                if o.get("fn_krate") == crate and o["fn"] in bodies:
                    self._add(b.path, o["fn"], span)
                elif o.get("fn_krate") == crate:
                    # generic trait method referenced as a value: link all impls
                    method = o["fn"].rsplit("::", 1)[-1]
                    tr = o["fn"].rsplit("::", 1)[0]
                    for tg in self.trait_impls.get((tr, method), []):
                        self._add(b.path, tg, span)
                else:
                    self.ext[b.path].append(("<fnref>" + o["fn"], {"k": "fndef", "def": o["fn"],
                                                                  "krate": o.get("fn_krate")}, None))
        # closure/fn types appearing as generic args of callees (e.g. passed by type only)
        for bb, t in b.calls():
            c = t["callee"]
            if c["k"] != "fndef":
                continue
            for info in list(c.get("arg_info") or []) + list(t.get("arg_tys") or []):
                self._link_tyinfo(b, info, t["span"])

    def _link_ext(self, b, c, t):
        """An external callee may call back into local code: (a) every local impl method of the
        external trait the callee belongs to; (b) every method of impls of external traits for a
        local ADT that appears in the callee's generic arguments (e.g. `sum::<MeanVari>` calls
        `<MeanVari as Sum>::sum`).  Sound over-approximation."""
        tr = c.get("trait")
        if tr and not self.is_local_trait(tr):
            for tg in self.trait_all.get(tr, []):
                self._add(b.path, tg, t["span"])
        wa = (c.get("resolved_with_args") or "") + " " + (c.get("with_args") or "")
        name = c.get("resolved") or c.get("def") or ""
        ck = c.get("resolved_krate") or c.get("krate") or ""
        fmt_family = "fmt::" in name or "ToString" in name or "::error::Error" in name
        serde_family = ck.startswith("serde") or (c.get("trait_krate") or "").startswith("serde")
        if "::" in wa:
            for a in self.adt_paths:
                if a in wa:
                    for tg in self.adt_ext_trait_methods.get(a, []):
                        im2 = self.p.bodies[tg].impl or {}
                        tp2 = im2.get("trait_path") or ""
                        tk2 = im2.get("trait_krate") or ""
                        # formatting / serde impls are only invoked by the formatting / serde
                        # machinery
                        if "::fmt::" in tp2 and not fmt_family:
                            continue
                        if tk2.startswith("serde") and not serde_family:
                            continue
                        if tk2.startswith("serde") and "::ser::" in tp2 and "ser::" not in name \
                                and "Serialize" not in name:
                            continue  # Serialize impls are not invoked by deserialisation
                        self._add(b.path, tg, t["span"])

    def _link_tyinfo(self, b, info, span):
        while isinstance(info, dict):
            k = info.get("k")
            if k in ("closure", "fndef") and info.get("def") in self.p.bodies:
                self._add(b.path, info["def"], span)
                return
            if k == "ref":
                info = info.get("to")
                continue
            return

    def closure(self, roots):
        """transitive closure of local bodies reachable from roots; returns {path: parent-path}"""
        seen = {}
        st = [(r, None) for r in roots if r in self.p.bodies]
        while st:
            n, par = st.pop()
            if n in seen:
                continue
            seen[n] = par
            bn = self.p.bodies[n]
            im = bn.impl
            if im and im.get("trait") and not im.get("provided"):
                tp = im["trait"]
                # all methods of a reached impl of an *external* trait are callable by that
                # trait's external users (serde, std iterators)
                for sib in self.impl_methods.get(im["impl_def"] + "|" + tp, []):
                    if sib not in seen:
                        st.append((sib, n))
            for m in sorted(self.edges.get(n, ())):
                if m not in seen:
                    st.append((m, n))
        return seen

    def path_to(self, closure, node):
        out = [node]
        while closure.get(out[-1]) is not None:
            out.append(closure[out[-1]])
        return list(reversed(out))
