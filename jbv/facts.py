"""E1: run the jbv-facts driver over /repo's current working tree and cache the result.

The cache key is a hash of every file cargo reads from the repository plus the driver binary,
so a cached document is the facts of the *current* tree or it is not used.  Each extraction
uses a fresh target directory under a mktemp dir outside /repo and /verif, removed on exit,
because cargo's fingerprint cache would otherwise skip the wrapper.
"""
import fcntl
import hashlib
import json
import os
import shutil
import subprocess
import sys
import tempfile
import time

from .mir import Program

VERIF = os.path.dirname(os.path.dirname(os.path.abspath(__file__)))
REPO = os.environ.get("JBV_REPO", "/repo")
CACHE = os.path.join(VERIF, ".cache")
DRIVER_DIR = os.path.join(VERIF, "driver")
DRIVER = os.path.join(DRIVER_DIR, "target", "debug", "jbv-facts")

CONFIGS = {
    "default": [],
    "nodefault": ["--no-default-features"],
    "simd": ["--features", "simd"],
}


def _sysroot():
    return subprocess.check_output(["rustc", "+nightly", "--print", "sysroot"], text=True).strip()


def ensure_driver():
    srcs = [os.path.join(DRIVER_DIR, "src", f) for f in os.listdir(os.path.join(DRIVER_DIR, "src"))]
    srcs.append(os.path.join(DRIVER_DIR, "Cargo.toml"))
    need = not os.path.exists(DRIVER)
    if not need:
        m = os.path.getmtime(DRIVER)
        need = any(os.path.getmtime(s) > m for s in srcs)
    if need:
        env = dict(os.environ, CARGO_NET_OFFLINE="true")
        r = subprocess.run(["cargo", "+nightly", "build", "--offline"], cwd=DRIVER_DIR, env=env,
                           stdout=subprocess.PIPE, stderr=subprocess.STDOUT, text=True)
        if r.returncode != 0 or not os.path.exists(DRIVER):
            sys.stderr.write(r.stdout[-4000:])
            raise RuntimeError("cannot build the facts driver")
    return DRIVER


def _hash_file(h, path, rel):
    h.update(rel.encode())
    h.update(b"\0")
    with open(path, "rb") as f:
        h.update(f.read())
    h.update(b"\0")


def tree_hash(repo=None):
    repo = repo or REPO
    h = hashlib.sha256()
    for name in ("Cargo.toml", "Cargo.lock", "rust-toolchain.toml", "rust-toolchain", "README.md"):
        p = os.path.join(repo, name)
        if os.path.isfile(p):
            _hash_file(h, p, name)
    for top in ("src", ".cargo", "patches"):
        base = os.path.join(repo, top)
        if not os.path.isdir(base):
            continue
        for root, dirs, files in os.walk(base):
            dirs.sort()
            for f in sorted(files):
                p = os.path.join(root, f)
                _hash_file(h, p, os.path.relpath(p, repo))
    with open(ensure_driver(), "rb") as f:
        h.update(hashlib.sha256(f.read()).digest())
    return h.hexdigest()[:20]


def extract(config="default", repo=None, crates="jbonsai", wrapper_all=False):
    """Run the driver; returns {crate: path-to-json} in a temp dir the caller must remove."""
    repo = repo or REPO
    drv = ensure_driver()
    out = tempfile.mkdtemp(prefix="jbv-out.")
    td = tempfile.mkdtemp(prefix="jbv-td.")
    nonce = "%d-%d" % (os.getpid(), time.time_ns())
    env = dict(os.environ)
    env.update({
        "JBV_OUT": out, "JBV_NONCE": nonce, "JBV_CRATES": crates,
        "LD_LIBRARY_PATH": os.path.join(_sysroot(), "lib") + ":" + env.get("LD_LIBRARY_PATH", ""),
        "RUSTFLAGS": "-Zmir-opt-level=0 -Awarnings",
        "CARGO_TARGET_DIR": td, "CARGO_NET_OFFLINE": "true",
    })
    env.pop("RUSTC_WRAPPER", None)
    env.pop("RUSTC_WORKSPACE_WRAPPER", None)
    if wrapper_all:
        # RUSTC_WRAPPER runs on dependencies as well
        env["RUSTC_WRAPPER"] = drv
    else:
        env["RUSTC_WORKSPACE_WRAPPER"] = drv
    cmd = ["cargo", "+nightly", "check", "--offline", "--lib"] + CONFIGS[config]
    try:
        r = subprocess.run(cmd, cwd=repo, env=env, stdout=subprocess.PIPE, stderr=subprocess.STDOUT,
                           text=True)
        if r.returncode != 0:
            raise RuntimeError("cargo check failed for config %s:\n%s" % (config, r.stdout[-6000:]))
        res = {}
        for f in os.listdir(out):
            if not f.endswith(".json"):
                continue
            p = os.path.join(out, f)
            with open(p) as fh:
                head = fh.read(4096)
            if nonce not in head:
                raise RuntimeError("stale facts file %s (nonce mismatch)" % f)
            res[f.rsplit("-", 1)[0]] = p
        if not res:
            raise RuntimeError("driver wrote no facts (config %s):\n%s" % (config, r.stdout[-3000:]))
        return res, out
    finally:
        shutil.rmtree(td, ignore_errors=True)


def facts_path(config="default", repo=None, crate="jbonsai", deps=False):
    """Path of the cached facts document for the current tree, extracting if necessary.
    deps=True runs the driver on every crate of the build (RUSTC_WRAPPER), thorough tier."""
    repo = repo or REPO
    tag = "repo" if os.path.abspath(repo) == "/repo" else os.path.basename(os.path.abspath(repo))
    if deps:
        tag = "deps-" + tag
    os.makedirs(CACHE, exist_ok=True)
    with open(os.path.join(CACHE, "lock-" + tag), "w") as lock:
        fcntl.flock(lock, fcntl.LOCK_EX)
        key = tree_hash(repo)
        pre = "facts-%s-" % tag

        def name(cr):
            return os.path.join(CACHE, "%s%s-%s-%s.json" % (pre, cr, config, key))

        target = name(crate)
        if os.path.exists(target):
            return target, key, True
        t0 = time.time()
        if deps:
            res, out = extract(config, repo, crates="*", wrapper_all=True)
        else:
            res, out = extract(config, repo, crates=crate)
        try:
            for cr, p in res.items():
                shutil.move(p, name(cr))
        finally:
            shutil.rmtree(out, ignore_errors=True)
        # drop cache entries of other trees with the same tag (disk is limited)
        for f in os.listdir(CACHE):
            if f.startswith(pre) and key not in f:
                try:
                    os.remove(os.path.join(CACHE, f))
                except OSError:
                    pass
        if not os.path.exists(target):
            raise RuntimeError("facts for crate %s not produced (have: %s)" % (crate, sorted(res)))
        sys.stderr.write("[jbv] extracted %s facts (%s, %s) in %.1fs\n" % (crate, config, tag, time.time() - t0))
        return target, key, False


_loaded = {}


def load(config="default", repo=None, crate="jbonsai", deps=False):
    path, key, cached = facts_path(config, repo, crate, deps)
    k = (path,)
    if k not in _loaded:
        p = Program.load(path)
        p.facts_path = path
        p.tree_key = key
        p.config = config
        p.from_cache = cached
        _loaded[k] = p
    return _loaded[k]
