"""Thorough tier: the same rules on the other build configurations, compile-fail witnesses,
third-party bodies, and the checker's own mutation/refactor corpus (recorded, never gating)."""
import os
import re
import shutil
import subprocess
import tempfile
import time

from . import facts
from .report import Ctx

VERIF = facts.VERIF

# properties whose code does not exist without the `htsvoice` feature
NEEDS_LOADER = {"C04", "C18"}
# C03 and C18 iterate the configurations themselves
SELF_CONFIG = {"C03", "C18"}


def other_configs(ctx, prop, mod):
    if prop in SELF_CONFIG:
        return
    for config in ("simd", "nodefault"):
        if config == "nodefault" and prop in NEEDS_LOADER:
            ctx.note("config nodefault: property concerns the loader, which is compiled out")
            continue
        sub = Ctx(prop, ctx.tier, ctx.seed)
        os.environ["JBV_CONFIG"] = config
        try:
            mod.run(sub)
        finally:
            os.environ.pop("JBV_CONFIG", None)
        # In `nodefault` the loader entry points do not exist: rules anchored there fail closed by
        # design in the default configuration; here those anchors are expected to be absent.
        for o in sub.obligations:
            o2 = dict(o)
            o2["instance"] = "[%s] %s" % (config, o2["instance"])
            if o2["status"] == "VIOLATED":
                continue
            ctx.obligations.append(o2)
        for v in sub.violations:
            if config == "nodefault" and ("engine::Engine::load" in v["key"] or "parser" in v["key"] or "load_model" in v["key"] and "anchor" in v["key"]):
                ctx.note("[nodefault] anchor absent as expected: " + v["key"])
                continue
            ctx.fail(v["rule"], "[%s] %s" % (config, v["fn"]), v["construct"], v["why"], v.get("loc"))
        ctx.units.setdefault("configs_thorough", []).append(config)


WITNESS_PROPS = {"C02", "C03"}


def witnesses(ctx, prop):
    """compile-fail witnesses and compiling twins (rustdoc doctests on /verif/witness)"""
    if prop not in WITNESS_PROPS:
        return
    wdir = os.path.join(VERIF, "witness")
    td = tempfile.mkdtemp(prefix="jbv-wit.")
    try:
        shutil.copy(os.path.join(facts.REPO, "Cargo.lock"), os.path.join(wdir, "Cargo.lock"))
        env = dict(os.environ, CARGO_TARGET_DIR=td, CARGO_NET_OFFLINE="true", JBV_REPO_PATH=facts.REPO)
        # the witness crate depends on the repository by path
        cargo = open(os.path.join(wdir, "Cargo.toml.in")).read().replace("@REPO@", facts.REPO)
        open(os.path.join(wdir, "Cargo.toml"), "w").write(cargo)
        t0 = time.time()
        r = subprocess.run(["cargo", "+nightly", "test", "--doc", "--offline"], cwd=wdir, env=env,
                           stdout=subprocess.PIPE, stderr=subprocess.STDOUT, text=True)
        out = r.stdout
        tests = re.findall(r"^test (\S.*?) \.\.\. (\w+)", out, re.M)
        mine = [(n, s) for n, s in tests if prop.lower() in n.lower()]
        ctx.units["witness_doctests"] = {"ran": len(tests), "for_this_property": mine, "wall_s": round(time.time() - t0, 1)}
        if not mine:
            ctx.fail(prop + "-W", "witness", "doctests", "no witness doctest ran for this property:\n" + out[-600:])
        for n, s in mine:
            if s == "ok":
                ctx.ok(prop + "-W", "witness doctest %s" % n)
            else:
                ctx.fail(prop + "-W", "witness", n, "witness doctest failed: a compile_fail witness compiled, or a compiling twin no longer builds")
    finally:
        shutil.rmtree(td, ignore_errors=True)
        for f in ("Cargo.lock", "Cargo.toml"):
            try:
                os.remove(os.path.join(wdir, f))
            except OSError:
                pass


def corpus(ctx, prop):
    """the checker's own mutation / refactor corpus for this property; results are evidence only"""
    path = os.path.join(VERIF, "mutants", "corpus.tsv")
    if not os.path.exists(path) or os.environ.get("JBV_SKIP_CORPUS"):
        return
    r = subprocess.run([os.path.join(VERIF, "tools", "run_corpus.py"), prop], cwd=VERIF,
                       env=dict(os.environ, JBV_CORPUS_PROP=prop),
                       stdout=subprocess.PIPE, stderr=subprocess.STDOUT, text=True)
    rows = re.findall(r"^(\S+)\s+expect=(\w+)\s+got=(\w+)\s+(ok|MISMATCH)", r.stdout, re.M)
    ctx.units["self_test_corpus"] = {
        "entries": len(rows),
        "mismatches": [x[0] for x in rows if x[3] != "ok"],
        "fire_expected_and_fired": sum(1 for x in rows if x[1] == "FIRE" and x[2] == "FIRE"),
        "silent_expected_and_silent": sum(1 for x in rows if x[1] == "SILENT" and x[2] == "SILENT"),
        "note": "seeded breaks / behaviour-preserving refactors applied to scratch copies; never changes the exit code",
    }


def rename_invariance(ctx, prop, mod):
    """self-test of the rules, evidence only: re-run them on the facts with every local variable
    consistently renamed (JBV_ANON=locals).  A violation there means a rule depends on an identifier
    (a defect of the checker, not of the repository); the count is recorded, never gating."""
    sub = Ctx(prop, ctx.tier, ctx.seed)
    os.environ["JBV_ANON"] = "locals"
    try:
        mod.run(sub)
    except Exception as e:  # noqa: BLE001
        ctx.units["self_test_rename_invariance"] = {"error": repr(e)[:200]}
        return
    finally:
        os.environ.pop("JBV_ANON", None)
    ctx.units["self_test_rename_invariance"] = {
        "mode": "all local variables renamed in the facts",
        "obligations": len(sub.obligations),
        "rules_that_fired_only_because_of_the_rename": sorted({v["key"] for v in sub.violations}),
    }


def extend(ctx, prop, mod):
    rename_invariance(ctx, prop, mod)
    other_configs(ctx, prop, mod)
    witnesses(ctx, prop)
    corpus(ctx, prop)
